package main

import (
	"fmt"

	"kadcheck/internal/eng"
)

func cmdCallPath(args []string) int {
	prog, err := eng.Load("/repo", nil)
	if err != nil {
		fmt.Println(err)
		return 2
	}
	a, b := prog.Func(args[0]), prog.Func(args[1])
	if a == nil || b == nil {
		fmt.Println("function not found")
		return 2
	}
	for _, s := range prog.CallPath(a, b) {
		fmt.Println("  ", s)
	}
	return 0
}

func cmdCallees(args []string) int {
	prog, err := eng.Load("/repo", nil)
	if err != nil {
		fmt.Println(err)
		return 2
	}
	f := prog.Func(args[0])
	if f == nil {
		fmt.Println("function not found")
		return 2
	}
	for _, s := range f.CallsDeep("~") {
		fmt.Printf("  %s  %s  @%s\n", s.F.Name, eng.CalleeName(s.F.Info(), s.Call()), prog.ShortPos(s.Node.Pos()))
	}
	return 0
}
