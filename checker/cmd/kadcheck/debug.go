package main

import (
	"encoding/json"
	"fmt"
	"go/format"
	"os"
	"sort"

	"kadcheck/internal/rules"

	"kadcheck/internal/eng"
)

func cmdCallPath(args []string) int {
	prog, err := eng.Load(debugRepo(), nil)
	if err != nil {
		fmt.Println(err)
		return 2
	}
	a, b := prog.Func(args[0]), prog.Func(args[1])
	if a == nil || b == nil {
		fmt.Println("function not found")
		return 2
	}
	for _, s := range prog.CallPath(a, b) {
		fmt.Println("  ", s)
	}
	return 0
}

func cmdCallees(args []string) int {
	prog, err := eng.Load(debugRepo(), nil)
	if err != nil {
		fmt.Println(err)
		return 2
	}
	f := prog.Func(args[0])
	if f == nil {
		fmt.Println("function not found")
		return 2
	}
	for _, s := range f.CallsDeep("~") {
		fmt.Printf("  %s  %s  @%s\n", s.F.Name, eng.CalleeName(s.F.Info(), s.Call()), prog.ShortPos(s.Node.Pos()))
	}
	return 0
}

func cmdBlocking(args []string) int {
	prog, err := eng.Load(debugRepo(), nil)
	if err != nil {
		fmt.Println(err)
		return 2
	}
	var roots []*eng.Func
	for _, t := range []string{"(*dht.IpfsDHT)", "(*dht/fullrt.FullRT)", "(*dht/dual.DHT)"} {
		for _, m := range []string{"GetClosestPeers", "FindPeer", "GetValue", "SearchValue", "FindProviders", "FindProvidersAsync", "PutValue", "Provide", "GetPublicKey", "ProvideMany", "PutMany"} {
			if f := prog.Func(t + "." + m); f != nil {
				roots = append(roots, f)
			}
		}
	}
	reach := prog.Reachable(roots...)
	n := 0
	for _, f := range prog.Funcs() {
		if !reach[f] {
			continue
		}
		for _, op := range f.BlockingOps() {
			n++
			esc, why := op.Escapable()
			ch := ""
			if op.Chan != nil {
				ch = eng.ExprStr(op.Chan)
			}
			fmt.Printf("%-70s %-7s %-28s esc=%v %s  @%s\n", f.Name, op.Kind, ch, esc, why, prog.ShortPos(op.Node.Pos()))
		}
	}
	fmt.Println(len(reach), "reachable functions;", n, "blocking operations")
	return 0
}

func cmdCfg(args []string) int {
	prog, err := eng.Load(debugRepo(), nil)
	if err != nil {
		fmt.Println(err)
		return 2
	}
	f := prog.Func(args[0])
	if f == nil {
		fmt.Println("function not found")
		return 2
	}
	cf := f.CFG()
	for _, b := range cf.G.Blocks {
		if !b.Live {
			continue
		}
		fmt.Printf("block %d %s succs=", b.Index, b.Kind)
		for _, s := range b.Succs {
			fmt.Printf("%d ", s.Index)
		}
		fmt.Println()
		for _, n := range b.Nodes {
			fmt.Printf("    %T @%s\n", n, prog.ShortPos(n.Pos()))
		}
	}
	return 0
}

func cmdGoSites(args []string) int {
	prog, err := eng.Load(debugRepo(), nil)
	if err != nil {
		fmt.Println(err)
		return 2
	}
	for _, g := range prog.GoSites() {
		wg := ""
		if g.ViaWG != nil {
			wg = "wg.Go on " + eng.ExprStr(g.ViaWG)
		}
		fmt.Printf("%-95s %s @%s\n", g.Key(), wg, prog.ShortPos(g.Node.Pos()))
	}
	return 0
}

// cmdParamTable evaluates every property on /repo and writes the parameter/result
// name -> position table used as a fallback when a parameter is renamed.
func cmdParamTable() int {
	prog, err := eng.Load("/repo", nil)
	if err != nil {
		fmt.Println(err)
		return 2
	}
	rules.RecordNames = true
	ids := rules.IDs()
	sort.Strings(ids)
	for _, id := range ids {
		func() {
			defer func() { recover() }()
			rules.Get(id).Run(rules.NewCtx(prog, id))
		}()
	}
	src := rules.DumpParamTable()
	if b, err := format.Source([]byte(src)); err == nil {
		src = string(b)
	}
	if err := os.WriteFile("/verif/checker/internal/rules/paramtable_gen.go", []byte(src), 0o644); err != nil {
		fmt.Println(err)
		return 2
	}
	pinned := []byte(prog.DumpPinned())
	if b, err := format.Source(pinned); err == nil {
		pinned = b
	}
	if err := os.WriteFile("/verif/checker/internal/eng/pinned_gen.go", pinned, 0o644); err != nil {
		fmt.Println(err)
		return 2
	}
	lj, _ := json.Marshal(prog.DumpPinnedLocals())
	if err := os.WriteFile("/verif/checker/internal/eng/pinned_locals.json", lj, 0o644); err != nil {
		fmt.Println(err)
		return 2
	}
	lt, _ := json.Marshal(prog.DumpPinnedLits())
	if err := os.WriteFile("/verif/checker/internal/eng/pinned_lits.json", lt, 0o644); err != nil {
		fmt.Println(err)
		return 2
	}
	fmt.Println("written paramtable_gen.go, pinned_gen.go, pinned_locals.json, pinned_lits.json")
	return 0
}

// debugRepo: the tree the development aids look at (KADCHECK_REPO, default /repo).
func debugRepo() string {
	if r := os.Getenv("KADCHECK_REPO"); r != "" {
		return r
	}
	return "/repo"
}
