package main

import (
	"flag"
	"fmt"
	"go/ast"
	"go/token"
	"go/types"
	"os"
	"regexp"
	"sort"
	"strings"

	"kadcheck/internal/eng"
)

// cmdRename rewrites a scratch copy of the repository, renaming identifiers without changing
// behaviour.  It exists to test that the rules do not depend on names a refactoring may change:
//
//	kadcheck rename -repo DIR -kind locals            every local variable, parameter and result x -> xRn
//	kadcheck rename -repo DIR -kind func  -only NAME  one unexported function or method
//	kadcheck rename -repo DIR -kind field -only T.f   one unexported struct field
func cmdRename(args []string) int {
	fs := flag.NewFlagSet("rename", flag.ExitOnError)
	repo := fs.String("repo", "", "scratch copy to rewrite (never /repo)")
	kind := fs.String("kind", "locals", "locals | func | field")
	only := fs.String("only", "", "canonical name (func/field) or regexp over function names (locals)")
	fs.Parse(args)
	if *repo == "" || *repo == "/repo" {
		fmt.Println("rename: -repo must name a scratch copy")
		return 2
	}
	prog, err := eng.Load(*repo, nil)
	if err != nil {
		fmt.Println(err)
		return 2
	}
	var re *regexp.Regexp
	if *kind == "locals" && *only != "" {
		re = regexp.MustCompile(*only)
	}
	type edit struct {
		off int
		old string
		new string
	}
	edits := map[string][]edit{}
	n := 0
	for _, pk := range prog.Roots {
		info := pk.TypesInfo
		want := func(o types.Object) bool {
			switch *kind {
			case "locals":
				v, ok := o.(*types.Var)
				if !ok || v.IsField() || v.Pkg() == nil || v.Parent() == v.Pkg().Scope() || v.Name() == "_" {
					return false
				}
				if re != nil {
					f := prog.EnclosingFuncAt(v.Pos())
					return f != nil && re.MatchString(f.Root().Name)
				}
				return true
			case "func":
				fn, ok := o.(*types.Func)
				return ok && !fn.Exported() && eng.Short(fn.Origin().FullName()) == *only
			case "field":
				v, ok := o.(*types.Var)
				if !ok || !v.IsField() || v.Exported() {
					return false
				}
				return prog.FieldQName(v) == *only
			}
			return false
		}
		for _, file := range pk.Syntax {
			fname := prog.Fset.Position(file.Pos()).Filename
			if strings.HasSuffix(fname, "_test.go") {
				continue
			}
			ast.Inspect(file, func(nd ast.Node) bool {
				if ts, isTS := nd.(*ast.TypeSwitchStmt); isTS && *kind == "locals" {
					// the symbolic variable of a type switch has only implicit objects
					if as, isAs := ts.Assign.(*ast.AssignStmt); isAs && len(as.Lhs) == 1 {
						if id, isID := as.Lhs[0].(*ast.Ident); isID && id.Name != "_" {
							f := prog.EnclosingFuncAt(id.Pos())
							if re == nil || (f != nil && re.MatchString(f.Root().Name)) {
								edits[fname] = append(edits[fname], edit{prog.Fset.Position(id.Pos()).Offset, id.Name, id.Name + "Rn"})
								n++
							}
						}
					}
				}
				id, ok := nd.(*ast.Ident)
				if !ok {
					return true
				}
				o := info.Defs[id]
				if o == nil {
					o = info.Uses[id]
				}
				if o == nil || !want(o) {
					return true
				}
				// receivers named in method declarations and embedded fields keep working: only the identifier text changes
				edits[fname] = append(edits[fname], edit{prog.Fset.Position(id.Pos()).Offset, id.Name, id.Name + "Rn"})
				n++
				return true
			})
		}
	}
	for fname, es := range edits {
		src, err := os.ReadFile(fname)
		if err != nil {
			fmt.Println(err)
			return 2
		}
		sort.Slice(es, func(i, j int) bool { return es[i].off > es[j].off })
		last := -1
		for _, e := range es {
			if e.off == last {
				continue
			}
			last = e.off
			if string(src[e.off:e.off+len(e.old)]) != e.old {
				fmt.Println("rename: offset mismatch in", fname)
				return 2
			}
			src = append(src[:e.off:e.off], append([]byte(e.new), src[e.off+len(e.old):]...)...)
		}
		if err := os.WriteFile(fname, src, 0o644); err != nil {
			fmt.Println(err)
			return 2
		}
	}
	fmt.Printf("renamed %d identifiers in %d files\n", n, len(edits))
	_ = token.NoPos
	return 0
}
