package main

func runSelfTestFor(prop, repo string, seed int, vdir string) map[string]any { return nil }

func cmdSelfTest(args []string) int { return 0 }
