package main

import (
	"encoding/json"
	"fmt"
	"math/rand"
	"os"
	"os/exec"
	"path/filepath"
	"sort"
	"strings"
	"sync"
	"time"
)

// A variant is a small edit of the CURRENT source of the repository that breaks one rule
// instance while still compiling.  It is applied as an in-memory overlay (go/packages
// Overlay) in a separate kadcheck subprocess; nothing is written to the repository.
// Variants test the checker (sensitivity), not the repository: a variant whose anchor text
// no longer occurs exactly once is skipped and counted; a variant that applies but is not
// detected is reported in the evidence as `missed` and never becomes a VIOLATION.
type variant struct {
	ID     string `json:"id"`
	Prop   string `json:"prop"`
	File   string `json:"file"`
	Old    string `json:"old"`
	New    string `json:"new"`
	Old2   string `json:"old2,omitempty"` // optional second edit in the same file
	New2   string `json:"new2,omitempty"`
	Expect string `json:"expect"` // rule id expected to fire, e.g. "C05.R2"
	What   string `json:"what"`
}

type variantResult struct {
	ID       string `json:"id"`
	What     string `json:"what"`
	Expect   string `json:"expect"`
	Status   string `json:"status"` // detected | missed | skipped | error
	Detail   string `json:"detail,omitempty"`
	FiredAt  string `json:"fired_at,omitempty"`
	ExitCode int    `json:"exit"`
}

func loadVariants(vdir string) ([]variant, error) {
	var all []variant
	files, _ := filepath.Glob(filepath.Join(vdir, "selftest", "*.json"))
	sort.Strings(files)
	for _, f := range files {
		data, err := os.ReadFile(f)
		if err != nil {
			return nil, err
		}
		var vs []variant
		if err := json.Unmarshal(data, &vs); err != nil {
			return nil, fmt.Errorf("%s: %w", f, err)
		}
		all = append(all, vs...)
	}
	return all, nil
}

func runVariant(v variant, repo, vdir string) variantResult {
	res := variantResult{ID: v.ID, What: v.What, Expect: v.Expect}
	path := filepath.Join(repo, v.File)
	src, err := os.ReadFile(path)
	if err != nil {
		res.Status, res.Detail = "skipped", "file not found"
		return res
	}
	if n := strings.Count(string(src), v.Old); n != 1 {
		res.Status, res.Detail = "skipped", fmt.Sprintf("anchor text occurs %d times in the current tree", n)
		return res
	}
	mod := strings.Replace(string(src), v.Old, v.New, 1)
	if v.Old2 != "" {
		if n := strings.Count(mod, v.Old2); n != 1 {
			res.Status, res.Detail = "skipped", fmt.Sprintf("second anchor text occurs %d times in the current tree", n)
			return res
		}
		mod = strings.Replace(mod, v.Old2, v.New2, 1)
	}
	tmp, err := os.CreateTemp("", "kadcheck-variant-*.go")
	if err != nil {
		res.Status, res.Detail = "error", err.Error()
		return res
	}
	defer os.Remove(tmp.Name())
	tmp.WriteString(mod)
	tmp.Close()
	exe, _ := os.Executable()
	cmd := exec.Command(exe, "check", "-prop", v.Prop, "-tier", "quick", "-repo", repo, "-noevidence", "-overlay", path+"="+tmp.Name())
	cmd.Env = append(os.Environ(), "VERIF_DIR="+vdir, "VERIF_TIER=quick")
	out, err := cmd.CombinedOutput()
	code := 0
	if ee, ok := err.(*exec.ExitError); ok {
		code = ee.ExitCode()
	} else if err != nil {
		res.Status, res.Detail = "error", err.Error()
		return res
	}
	res.ExitCode = code
	text := string(out)
	switch {
	case code == 1 && strings.Contains(text, "violated "+v.Expect+" "):
		res.Status = "detected"
		for _, line := range strings.Split(text, "\n") {
			if strings.Contains(line, "violated "+v.Expect+" ") {
				res.FiredAt = strings.TrimSpace(line)
				if len(res.FiredAt) > 220 {
					res.FiredAt = res.FiredAt[:220]
				}
				break
			}
		}
	case code == 1:
		res.Status = "detected"
		res.Detail = "another rule fired, not " + v.Expect
		for _, line := range strings.Split(text, "\n") {
			if strings.Contains(line, "violated ") {
				res.FiredAt = strings.TrimSpace(line)
				if len(res.FiredAt) > 220 {
					res.FiredAt = res.FiredAt[:220]
				}
				break
			}
		}
	case code == 2 && strings.Contains(text, "type errors"):
		res.Status, res.Detail = "error", "variant does not compile"
	case code == 2:
		res.Status, res.Detail = "missed", "check became undecided instead of reporting a violation: "+lastLine(text)
	default:
		res.Status = "missed"
	}
	return res
}

func lastLine(s string) string {
	lines := strings.Split(strings.TrimSpace(s), "\n")
	l := lines[len(lines)-1]
	if len(l) > 200 {
		l = l[:200]
	}
	return l
}

func runSelfTestFor(prop, repo string, seed int, vdir string) map[string]any {
	start := time.Now()
	all, err := loadVariants(vdir)
	if err != nil {
		return map[string]any{"error": err.Error()}
	}
	var vs []variant
	for _, v := range all {
		if v.Prop == prop {
			vs = append(vs, v)
		}
	}
	rand.New(rand.NewSource(int64(seed))).Shuffle(len(vs), func(i, j int) { vs[i], vs[j] = vs[j], vs[i] })
	results := make([]variantResult, len(vs))
	sem := make(chan struct{}, 6)
	var wg sync.WaitGroup
	for i, v := range vs {
		wg.Add(1)
		go func(i int, v variant) {
			defer wg.Done()
			sem <- struct{}{}
			defer func() { <-sem }()
			results[i] = runVariant(v, repo, vdir)
		}(i, v)
	}
	wg.Wait()
	sort.Slice(results, func(i, j int) bool { return results[i].ID < results[j].ID })
	counts := map[string]int{}
	var missed []variantResult
	for _, r := range results {
		counts[r.Status]++
		if r.Status == "missed" || r.Status == "error" {
			missed = append(missed, r)
		}
	}
	fmt.Printf("  self-test: %d variants, detected=%d missed=%d skipped=%d error=%d (%.1fs)\n", len(vs), counts["detected"], counts["missed"], counts["skipped"], counts["error"], time.Since(start).Seconds())
	for _, r := range missed {
		fmt.Printf("    self-test %s: %s (%s) %s\n", r.Status, r.ID, r.What, r.Detail)
	}
	seeded := runSeededFor(prop, repo, vdir)
	refac := runRefactorsFor(prop, repo, vdir)
	return map[string]any{
		"refactorings": refac,
		"variants":     len(vs), "detected": counts["detected"], "missed": counts["missed"], "skipped": counts["skipped"], "errors": counts["error"],
		"results": results, "wall_s": time.Since(start).Seconds(), "seeded_corpus": seeded,
		"note": "sensitivity self-test of the checker: each variant is a compile-clean edit of the current source applied as an in-memory overlay in a subprocess; a missed variant is a checker defect, never a property violation",
	}
}

// cmdSelfTest runs all variants of all (or one) property and exits 1 when one is missed.
func cmdSelfTest(args []string) int {
	vdir := verifDir()
	repo := "/repo"
	only := ""
	for i := 0; i < len(args); i++ {
		switch args[i] {
		case "-repo":
			repo = args[i+1]
			i++
		case "-prop":
			only = args[i+1]
			i++
		}
	}
	all, err := loadVariants(vdir)
	if err != nil {
		fmt.Println(err)
		return 2
	}
	props := map[string]bool{}
	for _, v := range all {
		if only == "" || v.Prop == only {
			props[v.Prop] = true
		}
	}
	var ids []string
	for p := range props {
		ids = append(ids, p)
	}
	sort.Strings(ids)
	bad := 0
	for _, p := range ids {
		fmt.Println(p)
		r := runSelfTestFor(p, repo, 0, vdir)
		if m, _ := r["missed"].(int); m > 0 {
			bad += m
		}
		if m, _ := r["errors"].(int); m > 0 {
			bad += m
		}
	}
	if bad > 0 {
		return 1
	}
	return 0
}

// runSeededFor re-runs the property's check against every seeded change filed for it under
// /verif/seeded/<prop>-<n>/patch.diff (changes written by independent sub-agents, each
// confirmed to break the property while compiling and passing the suite).  Each patch is
// applied to a scratch copy of the repository tree under the system temp directory, which
// is removed afterwards; /repo is never modified.
func runSeededFor(prop, repo, vdir string) map[string]any {
	dirs, _ := filepath.Glob(filepath.Join(vdir, "seeded", prop+"-*"))
	sort.Strings(dirs)
	type sres struct {
		ID     string `json:"id"`
		Status string `json:"status"`
		Rule   string `json:"rule,omitempty"`
	}
	var out []sres
	detected := 0
	for _, d := range dirs {
		id := filepath.Base(d)
		patch := filepath.Join(d, "patch.diff")
		if _, err := os.Stat(patch); err != nil {
			continue
		}
		tmp, err := os.MkdirTemp("", "kadcheck-seeded-*")
		if err != nil {
			out = append(out, sres{ID: id, Status: "error: " + err.Error()})
			continue
		}
		func() {
			defer os.RemoveAll(tmp)
			if err := copyTree(repo, tmp); err != nil {
				out = append(out, sres{ID: id, Status: "error: " + err.Error()})
				return
			}
			ap := exec.Command("git", "apply", "-p1", patch)
			ap.Dir = tmp
			if o, err := ap.CombinedOutput(); err != nil {
				out = append(out, sres{ID: id, Status: "skipped: patch no longer applies (" + lastLine(string(o)) + ")"})
				return
			}
			exe, _ := os.Executable()
			cmd := exec.Command(exe, "check", "-prop", prop, "-tier", "quick", "-repo", tmp, "-noevidence")
			cmd.Env = append(os.Environ(), "VERIF_DIR="+vdir, "VERIF_TIER=quick")
			o, err := cmd.CombinedOutput()
			code := 0
			if ee, ok := err.(*exec.ExitError); ok {
				code = ee.ExitCode()
			}
			if code == 1 {
				detected++
				rule := ""
				for _, line := range strings.Split(string(o), "\n") {
					if i := strings.Index(line, "violated "); i >= 0 {
						rule = strings.Fields(line[i+9:])[0]
						break
					}
				}
				out = append(out, sres{ID: id, Status: "detected", Rule: rule})
			} else {
				out = append(out, sres{ID: id, Status: fmt.Sprintf("missed (exit %d)", code)})
			}
		}()
	}
	if len(out) > 0 {
		fmt.Printf("  seeded corpus: %d changes, detected=%d\n", len(out), detected)
	}
	return map[string]any{"changes": len(out), "detected": detected, "results": out}
}

func copyTree(src, dst string) error {
	return filepath.Walk(src, func(path string, info os.FileInfo, err error) error {
		if err != nil {
			return err
		}
		rel, _ := filepath.Rel(src, path)
		if rel == ".git" {
			if info.IsDir() {
				return filepath.SkipDir
			}
			return nil
		}
		target := filepath.Join(dst, rel)
		if info.IsDir() {
			return os.MkdirAll(target, 0o755)
		}
		if !info.Mode().IsRegular() {
			return nil
		}
		data, err := os.ReadFile(path)
		if err != nil {
			return err
		}
		return os.WriteFile(target, data, 0o644)
	})
}

// runRefactorsFor applies every behaviour-preserving refactoring in refactors/*/ref*.diff to a
// scratch copy of the tree and expects the property's check to stay silent (exit 0).
func runRefactorsFor(prop, repo, vdir string) map[string]any {
	patches, _ := filepath.Glob(filepath.Join(vdir, "refactors", "*", "*.diff"))
	sort.Strings(patches)
	type rres struct {
		ID     string `json:"id"`
		Status string `json:"status"`
	}
	out := make([]rres, len(patches))
	sem := make(chan struct{}, 6)
	var wg sync.WaitGroup
	for i, patch := range patches {
		wg.Add(1)
		go func(i int, patch string) {
			defer wg.Done()
			sem <- struct{}{}
			defer func() { <-sem }()
			id := filepath.Base(filepath.Dir(patch)) + "/" + strings.TrimSuffix(filepath.Base(patch), ".diff")
			tmp, err := os.MkdirTemp("", "kadcheck-refac-*")
			if err != nil {
				out[i] = rres{id, "error: " + err.Error()}
				return
			}
			defer os.RemoveAll(tmp)
			if err := copyTree(repo, tmp); err != nil {
				out[i] = rres{id, "error: " + err.Error()}
				return
			}
			ap := exec.Command("git", "apply", "-p1", patch)
			ap.Dir = tmp
			if o, err := ap.CombinedOutput(); err != nil {
				out[i] = rres{id, "skipped: patch does not apply to this tree (" + lastLine(string(o)) + ")"}
				return
			}
			exe, _ := os.Executable()
			cmd := exec.Command(exe, "check", "-prop", prop, "-tier", "quick", "-repo", tmp, "-noevidence")
			cmd.Env = append(os.Environ(), "VERIF_DIR="+vdir, "VERIF_TIER=quick")
			_, err = cmd.CombinedOutput()
			code := 0
			if ee, ok := err.(*exec.ExitError); ok {
				code = ee.ExitCode()
			}
			if code == 0 {
				out[i] = rres{id, "silent"}
			} else if code == 2 && expectedUndecided(vdir, id, prop) {
				out[i] = rres{id, "undecided (documented in refactors/EXPECTED_UNDECIDED.txt)"}
			} else {
				out[i] = rres{id, fmt.Sprintf("FALSE ALARM (exit %d)", code)}
			}
		}(i, patch)
	}
	wg.Wait()
	silent, alarms := 0, 0
	for _, r := range out {
		if r.Status == "silent" {
			silent++
		} else if strings.HasPrefix(r.Status, "FALSE") {
			alarms++
		}
	}
	if len(out) > 0 {
		fmt.Printf("  refactorings: %d behaviour-preserving changes, silent=%d false-alarms=%d\n", len(out), silent, alarms)
		for _, r := range out {
			if strings.HasPrefix(r.Status, "FALSE") || strings.HasPrefix(r.Status, "error") {
				fmt.Printf("    %s: %s\n", r.ID, r.Status)
			}
		}
	}
	return map[string]any{"changes": len(out), "silent": silent, "false_alarms": alarms, "results": out}
}

// expectedUndecided: refactors/EXPECTED_UNDECIDED.txt lists "<group>/<ref> <property> <reason>".
func expectedUndecided(vdir, id, prop string) bool {
	data, err := os.ReadFile(filepath.Join(vdir, "refactors", "EXPECTED_UNDECIDED.txt"))
	if err != nil {
		return false
	}
	for _, l := range strings.Split(string(data), "\n") {
		f := strings.Fields(l)
		if len(f) >= 2 && f[0] == id && f[1] == prop {
			return true
		}
	}
	return false
}
