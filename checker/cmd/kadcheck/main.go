// kadcheck decides structural clauses of the properties in /verif/properties.jsonl from the
// type-checked source of the repository's working tree.  See /verif/DESIGN.md.
//
//	kadcheck check -prop C05 [-tier quick|thorough] [-repo /repo] [-overlay path=file]... [-noevidence]
//	kadcheck explain <replay.json>
//	kadcheck list
package main

import (
	"encoding/json"
	"flag"
	"fmt"
	"os"
	"path/filepath"
	"regexp"
	"runtime/debug"
	"sort"
	"strconv"
	"strings"
	"time"

	"kadcheck/internal/eng"
	"kadcheck/internal/rules"
)

type overlayFlag []string

func (o *overlayFlag) String() string     { return strings.Join(*o, ",") }
func (o *overlayFlag) Set(s string) error { *o = append(*o, s); return nil }

func main() {
	if len(os.Args) < 2 {
		fmt.Fprintln(os.Stderr, "usage: kadcheck check|explain|list|selftest ...")
		os.Exit(2)
	}
	switch os.Args[1] {
	case "check":
		os.Exit(cmdCheck(os.Args[2:]))
	case "explain":
		os.Exit(cmdExplain(os.Args[2:]))
	case "list":
		ids := rules.IDs()
		sort.Strings(ids)
		for _, id := range ids {
			fmt.Println(id)
		}
	case "blocking":
		os.Exit(cmdBlocking(os.Args[2:]))
	case "cfg":
		os.Exit(cmdCfg(os.Args[2:]))
	case "rename":
		os.Exit(cmdRename(os.Args[2:]))
	case "paramtable":
		os.Exit(cmdParamTable())
	case "gosites":
		os.Exit(cmdGoSites(os.Args[2:]))
	case "callees":
		os.Exit(cmdCallees(os.Args[2:]))
	case "callpath":
		os.Exit(cmdCallPath(os.Args[2:]))
	case "selftest":
		os.Exit(cmdSelfTest(os.Args[2:]))
	default:
		fmt.Fprintln(os.Stderr, "unknown command", os.Args[1])
		os.Exit(2)
	}
}

func verifDir() string {
	if d := os.Getenv("VERIF_DIR"); d != "" {
		return d
	}
	exe, err := os.Executable()
	if err == nil {
		d := filepath.Dir(filepath.Dir(exe))
		if _, err := os.Stat(filepath.Join(d, "properties.jsonl")); err == nil {
			return d
		}
	}
	return "/verif"
}

type checkResult struct {
	exit       int
	ctx        *rules.Ctx
	violations []*rules.Obl
	known      []*rules.Obl
	undecided  string
}

func runProperty(prog *eng.Prog, prop *rules.Property, known []knownLine) (res checkResult) {
	ctx := rules.NewCtx(prog, prop.ID)
	res.ctx = ctx
	func() {
		defer func() {
			if r := recover(); r != nil {
				if ae, ok := r.(rules.AnchorError); ok {
					res.undecided = ae.Msg
				} else {
					res.undecided = fmt.Sprintf("analyser panic: %v\n%s", r, debug.Stack())
				}
			}
		}()
		prop.Run(ctx)
	}()
	if res.undecided == "" {
		if bad := ctx.CheckFloors(); len(bad) > 0 {
			res.undecided = "instance floor not met: " + strings.Join(bad, "; ")
		}
	}
	for _, o := range ctx.Obls {
		if o.Status != "violated" {
			continue
		}
		if k := matchKnown(known, prop.ID, o); k != nil {
			o.Known = k.text
			res.known = append(res.known, o)
			continue
		}
		res.violations = append(res.violations, o)
	}
	switch {
	case len(res.violations) > 0:
		res.exit = 1
	case res.undecided != "":
		res.exit = 2
	}
	return
}

func cmdCheck(args []string) int {
	fs := flag.NewFlagSet("check", flag.ExitOnError)
	propID := fs.String("prop", "", "property id (C01..C20)")
	tier := fs.String("tier", "", "quick|thorough (default from VERIF_TIER or quick)")
	repo := fs.String("repo", "/repo", "repository working tree")
	noEv := fs.Bool("noevidence", false, "do not write evidence or reports")
	quiet := fs.Bool("quiet", false, "only print verdict lines")
	var overlays overlayFlag
	fs.Var(&overlays, "overlay", "path=replacementfile (repeatable)")
	fs.Parse(args)
	if *tier == "" {
		*tier = os.Getenv("VERIF_TIER")
	}
	if *tier != "thorough" {
		*tier = "quick"
	}
	seed := 0
	if s := os.Getenv("VERIF_SEED"); s != "" {
		seed, _ = strconv.Atoi(s)
	}
	prop := rules.Get(*propID)
	if prop == nil {
		fmt.Fprintf(os.Stderr, "unknown property %q\n", *propID)
		return 2
	}
	start := time.Now()
	vdir := verifDir()
	ov := map[string][]byte{}
	for _, o := range overlays {
		i := strings.Index(o, "=")
		if i < 0 {
			fmt.Fprintln(os.Stderr, "bad -overlay", o)
			return 2
		}
		data, err := os.ReadFile(o[i+1:])
		if err != nil {
			fmt.Fprintln(os.Stderr, err)
			return 2
		}
		ov[o[:i]] = data
	}
	prog, err := eng.Load(*repo, ov)
	if err != nil {
		fmt.Printf("UNDECIDED property=%s reason=%v\n", prop.ID, err)
		return 2
	}
	loadS := time.Since(start).Seconds()
	known, fixed, err := readKnown(filepath.Join(vdir, "KNOWN_FINDINGS.txt"))
	if err != nil {
		fmt.Printf("UNDECIDED property=%s reason=%v\n", prop.ID, err)
		return 2
	}
	_ = fixed
	res := runProperty(prog, prop, known)
	ctx := res.ctx

	// report
	counts := ctx.RuleCounts()
	var ruleIDs []string
	for r := range counts {
		ruleIDs = append(ruleIDs, r)
	}
	sort.Slice(ruleIDs, func(i, j int) bool { return ruleLess(ruleIDs[i], ruleIDs[j]) })
	discharged := 0
	for _, o := range ctx.Obls {
		if o.Status == "discharged" {
			discharged++
		}
	}
	if !*quiet {
		fmt.Printf("kadcheck %s tier=%s repo=%s packages=%d functions=%d load=%.1fs\n", prop.ID, *tier, *repo, len(prog.Roots), len(prog.Funcs()), loadS)
		for _, r := range ruleIDs {
			fmt.Printf("  %-9s instances=%d floor=%d\n", r, counts[r][0], counts[r][1])
		}
		fmt.Printf("  obligations=%d discharged=%d known=%d violated=%d\n", len(ctx.Obls), discharged, len(res.known), len(res.violations))
	}
	for _, o := range res.known {
		fmt.Printf("KNOWN-FINDING: property=%s %s [%s @ %s %s]\n", prop.ID, o.Known, o.Rule, o.Key, o.Pos)
	}
	var selfTest map[string]any
	if *tier == "thorough" && !*noEv && res.exit == 0 {
		selfTest = runSelfTestFor(prop.ID, *repo, seed, vdir)
	}
	if !*noEv {
		os.MkdirAll(filepath.Join(vdir, "reports", prop.ID), 0o755)
	}
	for _, o := range res.violations {
		path := filepath.Join(vdir, "reports", prop.ID, sanitize(o.Rule+"-"+o.Key)+".json")
		if !*noEv {
			data, _ := json.MarshalIndent(map[string]any{"property": prop.ID, "obligation": o, "repo": *repo}, "", " ")
			os.WriteFile(path, data, 0o644)
		}
		fmt.Printf("  violated %s @ %s (%s): %s -- %s\n", o.Rule, o.Key, o.Pos, o.Desc, o.Detail)
		for _, w := range o.Witness {
			fmt.Printf("      via %s\n", w)
		}
		fmt.Printf("VIOLATION property=%s replay=%s\n", prop.ID, path)
	}
	if res.undecided != "" && res.exit != 1 {
		fmt.Printf("UNDECIDED property=%s reason=%s\n", prop.ID, res.undecided)
	} else if res.undecided != "" {
		fmt.Printf("  note: evaluation stopped early (%s)\n", res.undecided)
	}
	if !*noEv {
		writeEvidence(vdir, prop, ctx, res, *tier, seed, prog, time.Since(start).Seconds(), selfTest)
	}
	if res.exit == 0 && !*quiet {
		fmt.Printf("OK property=%s\n", prop.ID)
	}
	return res.exit
}

var ruleNum = regexp.MustCompile(`R(\d+)(.*)$`)

func ruleLess(a, b string) bool {
	ma, mb := ruleNum.FindStringSubmatch(a), ruleNum.FindStringSubmatch(b)
	if ma != nil && mb != nil {
		na, _ := strconv.Atoi(ma[1])
		nb, _ := strconv.Atoi(mb[1])
		if na != nb {
			return na < nb
		}
		return ma[2] < mb[2]
	}
	return a < b
}

var unsafeChars = regexp.MustCompile(`[^A-Za-z0-9_.-]+`)

func sanitize(s string) string {
	s = unsafeChars.ReplaceAllString(s, "_")
	if len(s) > 150 {
		s = s[:150]
	}
	return s
}

// ---------------------------------------------------------------------------
// known findings

type knownLine struct {
	prop, rule, site, text string
}

func readKnown(path string) (known []knownLine, fixed []string, err error) {
	data, err := os.ReadFile(path)
	if err != nil {
		if os.IsNotExist(err) {
			return nil, nil, nil
		}
		return nil, nil, err
	}
	re := regexp.MustCompile(`^known:\s+property=(\S+)\s+rule=(\S+)\s+site=\[([^\]]*)\]\s+(.*)$`)
	for _, line := range strings.Split(string(data), "\n") {
		line = strings.TrimSpace(line)
		switch {
		case strings.HasPrefix(line, "known:"):
			m := re.FindStringSubmatch(line)
			if m == nil {
				return nil, nil, fmt.Errorf("malformed known-finding line: %q", line)
			}
			known = append(known, knownLine{m[1], m[2], m[3], m[4]})
		case strings.HasPrefix(line, "fixed:"):
			fixed = append(fixed, line)
		}
	}
	return
}

func matchKnown(known []knownLine, prop string, o *rules.Obl) *knownLine {
	for i := range known {
		k := &known[i]
		if k.prop == prop && k.rule == o.Rule && k.site == o.Key {
			return k
		}
	}
	return nil
}

// ---------------------------------------------------------------------------
// evidence

func writeEvidence(vdir string, prop *rules.Property, ctx *rules.Ctx, res checkResult, tier string, seed int, prog *eng.Prog, wall float64, selfTest map[string]any) {
	discharged := 0
	for _, o := range ctx.Obls {
		if o.Status == "discharged" {
			discharged++
		}
	}
	counts := ctx.RuleCounts()
	rulesOut := map[string]any{}
	for r, v := range counts {
		rulesOut[r] = map[string]int{"instances": v[0], "floor": v[1]}
	}
	// samples: up to 3 obligations per rule, all violated ones
	perRule := map[string]int{}
	var samples []any
	distinct := map[string]bool{}
	for _, o := range ctx.Obls {
		distinct[o.Rule+"|"+o.Key] = true
		if o.Status == "violated" || perRule[o.Rule] < 3 {
			perRule[o.Rule]++
			samples = append(samples, o)
		}
	}
	var fnames []string
	for f := range ctx.Funcs {
		fnames = append(fnames, f)
	}
	sort.Strings(fnames)
	cov := map[string]any{
		"explanation": "Static analysis of the type-checked working tree (no execution). Decided: " + prop.Decided +
			" NOT decided: " + prop.NotDecided,
		"obligations":         len(ctx.Obls),
		"discharged":          discharged,
		"known_findings":      len(res.known),
		"evaluations":         len(ctx.Obls),
		"distinct_nontrivial": len(distinct),
		"rule":                "one obligation per (rule, construct) found by enumerating every instance of each rule in the whole program; distinct = distinct (rule, construct key) pairs",
		"rules":               rulesOut,
		"samples":             samples,
		"exhaustive":          true,
		"packages":            len(prog.Roots),
		"functions_in_repo":   len(prog.Funcs()),
		"anchor_functions":    fnames,
		"checker_cmd":         "bin/kadcheck check -prop " + prop.ID + " -tier " + tier,
		"trusted_base":        rules.CommonAssumptions,
		"notes":               ctx.Notes,
	}
	if res.undecided != "" {
		cov["undecided"] = res.undecided
	}
	if len(eng.Renames) > 0 {
		cov["renames_undone"] = eng.Renames
	}
	if selfTest != nil {
		cov["self_test"] = selfTest
	}
	if ss := prog.SSAStats(); ss != nil {
		cov["callgraph"] = ss
	}
	ev := map[string]any{
		"property_id": prop.ID,
		"tier":        tier,
		"seed":        seed,
		"level":       "other",
		"coverage":    cov,
		"assumptions": append(append([]string{}, rules.CommonAssumptions...), prop.Assumptions...),
		"wall_s":      wall,
		"violations":  len(res.violations),
	}
	data, _ := json.MarshalIndent(ev, "", " ")
	os.MkdirAll(filepath.Join(vdir, "evidence"), 0o755)
	os.WriteFile(filepath.Join(vdir, "evidence", prop.ID+".json"), append(data, '\n'), 0o644)
}

// ---------------------------------------------------------------------------
// explain

func cmdExplain(args []string) int {
	if len(args) < 1 {
		fmt.Fprintln(os.Stderr, "usage: kadcheck explain <replay.json>")
		return 2
	}
	data, err := os.ReadFile(args[0])
	if err != nil {
		fmt.Fprintln(os.Stderr, err)
		return 2
	}
	var rep struct {
		Property   string    `json:"property"`
		Obligation rules.Obl `json:"obligation"`
		Repo       string    `json:"repo"`
	}
	if err := json.Unmarshal(data, &rep); err != nil {
		fmt.Fprintln(os.Stderr, err)
		return 2
	}
	prop := rules.Get(rep.Property)
	if prop == nil {
		fmt.Fprintln(os.Stderr, "unknown property in replay file")
		return 2
	}
	repo := rep.Repo
	if repo == "" {
		repo = "/repo"
	}
	prog, err := eng.Load(repo, nil)
	if err != nil {
		fmt.Printf("UNDECIDED property=%s reason=%v\n", prop.ID, err)
		return 2
	}
	res := runProperty(prog, prop, nil)
	fmt.Printf("recorded: %s @ %s (%s): %s -- %s\n", rep.Obligation.Rule, rep.Obligation.Key, rep.Obligation.Pos, rep.Obligation.Desc, rep.Obligation.Detail)
	for _, o := range res.ctx.Obls {
		if o.Rule == rep.Obligation.Rule && o.Key == rep.Obligation.Key {
			fmt.Printf("current tree: %s at %s\n", o.Status, o.Pos)
			if o.Status == "violated" {
				fmt.Printf("  %s -- %s\n", o.Desc, o.Detail)
				for _, w := range o.Witness {
					fmt.Printf("      via %s\n", w)
				}
				fmt.Printf("VIOLATION property=%s replay=%s\n", prop.ID, args[0])
				return 1
			}
			return 0
		}
	}
	fmt.Println("current tree: the obligation no longer exists (construct not found)")
	return 0
}
