package eng

import (
	"go/ast"
	"go/types"
	"sort"

	"golang.org/x/tools/go/callgraph"
	"golang.org/x/tools/go/callgraph/cha"
	"golang.org/x/tools/go/callgraph/vta"
	"golang.org/x/tools/go/packages"
	"golang.org/x/tools/go/ssa"
	"golang.org/x/tools/go/ssa/ssautil"
)

type ssaState struct {
	prog   *ssa.Program
	pkgs   []*ssa.Package
	cg     *callgraph.Graph
	bySyn  map[ast.Node]*ssa.Function
	nfuncs int
}

// SSA builds (once) the SSA form of the whole program and the CHA->VTA call graph.
func (p *Prog) SSA() *ssaState {
	if p.ssaState != nil {
		return p.ssaState
	}
	var initial []*packages.Package
	initial = append(initial, p.Roots...)
	prog, pkgs := ssautil.AllPackages(initial, ssa.InstantiateGenerics)
	prog.Build()
	all := ssautil.AllFunctions(prog)
	cg := vta.CallGraph(all, cha.CallGraph(prog))
	st := &ssaState{prog: prog, pkgs: pkgs, cg: cg, bySyn: map[ast.Node]*ssa.Function{}, nfuncs: len(all)}
	for fn := range all {
		if syn := fn.Syntax(); syn != nil {
			if _, dup := st.bySyn[syn]; !dup || fn.Origin() == nil {
				st.bySyn[syn] = fn
			}
		}
	}
	p.ssaState = st
	return st
}

// SSAStats reports call-graph size when SSA was built.
func (p *Prog) SSAStats() map[string]int {
	if p.ssaState == nil {
		return nil
	}
	return map[string]int{"functions": p.ssaState.nfuncs, "nodes": len(p.ssaState.cg.Nodes)}
}

// SSAFunc returns the SSA function of a source function.
func (p *Prog) SSAFunc(f *Func) *ssa.Function {
	st := p.SSA()
	if f.Decl != nil {
		return st.bySyn[f.Decl]
	}
	return st.bySyn[f.Lit]
}

// funcOfSSA maps an SSA function back to the source function.
func (p *Prog) funcOfSSA(fn *ssa.Function) *Func {
	if fn == nil {
		return nil
	}
	if o := fn.Origin(); o != nil {
		fn = o
	}
	switch syn := fn.Syntax().(type) {
	case *ast.FuncDecl:
		if obj, ok := fn.Object().(*types.Func); ok {
			return p.byObj[obj.Origin()]
		}
		_ = syn
	case *ast.FuncLit:
		return p.byLit[syn]
	}
	return nil
}

// Reachable returns the repository source functions reachable in the VTA call graph
// (through calls, go and defer edges) from the given roots.
func (p *Prog) Reachable(roots ...*Func) map[*Func]bool {
	st := p.SSA()
	out := map[*Func]bool{}
	seen := map[*callgraph.Node]bool{}
	var stack []*callgraph.Node
	for _, r := range roots {
		if fn := p.SSAFunc(r); fn != nil {
			if n := st.cg.Nodes[fn]; n != nil {
				stack = append(stack, n)
			}
		}
		out[r] = true
	}
	for len(stack) > 0 {
		n := stack[len(stack)-1]
		stack = stack[:len(stack)-1]
		if seen[n] {
			continue
		}
		seen[n] = true
		if f := p.funcOfSSA(n.Func); f != nil {
			out[f] = true
		}
		// closures created by this function are reachable when it runs
		for _, anon := range n.Func.AnonFuncs {
			if an := st.cg.Nodes[anon]; an != nil && !seen[an] {
				stack = append(stack, an)
			}
		}
		for _, e := range n.Out {
			if !seen[e.Callee] {
				stack = append(stack, e.Callee)
			}
		}
	}
	return out
}

// Callers returns the repository source functions with a call-graph edge to f.
func (p *Prog) Callers(f *Func) []*Func {
	st := p.SSA()
	fn := p.SSAFunc(f)
	if fn == nil {
		return nil
	}
	n := st.cg.Nodes[fn]
	if n == nil {
		return nil
	}
	set := map[*Func]bool{}
	for _, e := range n.In {
		if g := p.funcOfSSA(e.Caller.Func); g != nil {
			set[g] = true
		}
	}
	var out []*Func
	for g := range set {
		out = append(out, g)
	}
	sort.Slice(out, func(i, j int) bool { return out[i].Name < out[j].Name })
	return out
}
