package eng

import (
	"go/ast"
	"go/types"
	"sort"

	"golang.org/x/tools/go/callgraph"
	"golang.org/x/tools/go/callgraph/cha"
	"golang.org/x/tools/go/callgraph/vta"
	"golang.org/x/tools/go/packages"
	"golang.org/x/tools/go/ssa"
	"golang.org/x/tools/go/ssa/ssautil"
)

type ssaState struct {
	prog   *ssa.Program
	pkgs   []*ssa.Package
	cg     *callgraph.Graph
	bySyn  map[ast.Node]*ssa.Function
	nfuncs int
}

// SSA builds (once) the SSA form of the whole program and the CHA->VTA call graph.
func (p *Prog) SSA() *ssaState {
	if p.ssaState != nil {
		return p.ssaState
	}
	var initial []*packages.Package
	initial = append(initial, p.Roots...)
	prog, pkgs := ssautil.AllPackages(initial, ssa.InstantiateGenerics)
	prog.Build()
	all := ssautil.AllFunctions(prog)
	cg := vta.CallGraph(all, cha.CallGraph(prog))
	st := &ssaState{prog: prog, pkgs: pkgs, cg: cg, bySyn: map[ast.Node]*ssa.Function{}, nfuncs: len(all)}
	for fn := range all {
		if syn := fn.Syntax(); syn != nil {
			if _, dup := st.bySyn[syn]; !dup || fn.Origin() == nil {
				st.bySyn[syn] = fn
			}
		}
	}
	p.ssaState = st
	return st
}

// SSAStats reports call-graph size when SSA was built.
func (p *Prog) SSAStats() map[string]int {
	if p.ssaState == nil {
		return nil
	}
	return map[string]int{"functions": p.ssaState.nfuncs, "nodes": len(p.ssaState.cg.Nodes)}
}

// SSAFunc returns the SSA function of a source function.
func (p *Prog) SSAFunc(f *Func) *ssa.Function {
	st := p.SSA()
	if f.Decl != nil {
		return st.bySyn[f.Decl]
	}
	return st.bySyn[f.Lit]
}

// funcOfSSA maps an SSA function back to the source function.
func (p *Prog) funcOfSSA(fn *ssa.Function) *Func {
	if fn == nil {
		return nil
	}
	if o := fn.Origin(); o != nil {
		fn = o
	}
	switch syn := fn.Syntax().(type) {
	case *ast.FuncDecl:
		if obj, ok := fn.Object().(*types.Func); ok {
			return p.byObj[obj.Origin()]
		}
		_ = syn
	case *ast.FuncLit:
		return p.byLit[syn]
	}
	return nil
}

// Reachable returns the repository source functions reachable from the given roots
// through repository code: VTA call edges (static, interface and function-value calls,
// go and defer included) whose callee is a repository function, the function literals a
// reachable function creates, and every repository function a reachable function
// references as a value (method values handed to library code such as WaitGroup.Go or
// time.AfterFunc).  Library functions are never traversed: their context-insensitive
// summaries (sync.Once.Do, WaitGroup.Go, fmt) would connect everything to everything.
func (p *Prog) Reachable(roots ...*Func) map[*Func]bool {
	st := p.SSA()
	out := map[*Func]bool{}
	var stack []*Func
	push := func(f *Func) {
		if f != nil && !out[f] {
			out[f] = true
			stack = append(stack, f)
		}
	}
	for _, r := range roots {
		push(r)
	}
	for len(stack) > 0 {
		f := stack[len(stack)-1]
		stack = stack[:len(stack)-1]
		for _, l := range f.Lits {
			push(l)
		}
		// referenced repository functions
		info := f.Info()
		f.Walk(func(n ast.Node) bool {
			if id, ok := n.(*ast.Ident); ok {
				if fo, ok := info.Uses[id].(*types.Func); ok {
					push(p.byObj[fo.Origin()])
				}
			}
			return true
		})
		if fn := p.SSAFunc(f); fn != nil {
			if n := st.cg.Nodes[fn]; n != nil {
				for _, e := range n.Out {
					push(p.funcOfSSA(e.Callee.Func))
				}
			}
		}
	}
	// a called helper that was adopted is read as part of its adopter, not as a function of its own
	for f := range out {
		if f.Adopter != nil && f.spawnCall == nil && !f.adoptedSpawn {
			delete(out, f)
		}
	}
	return out
}

// Callers returns the repository source functions with a call-graph edge to f.
func (p *Prog) Callers(f *Func) []*Func {
	st := p.SSA()
	fn := p.SSAFunc(f)
	if fn == nil {
		return nil
	}
	n := st.cg.Nodes[fn]
	if n == nil {
		return nil
	}
	set := map[*Func]bool{}
	for _, e := range n.In {
		if g := p.funcOfSSA(e.Caller.Func); g != nil {
			set[g] = true
		}
	}
	var out []*Func
	for g := range set {
		out = append(out, g)
	}
	sort.Slice(out, func(i, j int) bool { return out[i].Name < out[j].Name })
	return out
}

// CallPath returns one call-graph path (function names) from root to target, for diagnosis.
func (p *Prog) CallPath(root, target *Func) []string {
	st := p.SSA()
	rf, tf := p.SSAFunc(root), p.SSAFunc(target)
	if rf == nil || tf == nil {
		return nil
	}
	start := st.cg.Nodes[rf]
	prev := map[*callgraph.Node]*callgraph.Node{start: nil}
	queue := []*callgraph.Node{start}
	for len(queue) > 0 {
		n := queue[0]
		queue = queue[1:]
		if n.Func == tf {
			var out []string
			for x := n; x != nil; x = prev[x] {
				out = append([]string{Short(x.Func.String())}, out...)
			}
			return out
		}
		var nexts []*callgraph.Node
		for _, anon := range n.Func.AnonFuncs {
			if an := st.cg.Nodes[anon]; an != nil {
				nexts = append(nexts, an)
			}
		}
		for _, e := range n.Out {
			nexts = append(nexts, e.Callee)
		}
		for _, m := range nexts {
			if _, seen := prev[m]; !seen {
				prev[m] = n
				queue = append(queue, m)
			}
		}
	}
	return nil
}
