package eng

import (
	"fmt"
	"go/ast"
	"go/token"
	"go/types"
	"sort"
	"strings"

	"golang.org/x/tools/go/cfg"
)

// Fresh helpers.
//
// A declared function that does not exist in the pinned tree (its name is in no pinned table
// and it is not the target of an undone rename) and that is used in exactly one place — a
// direct call or a `go` statement in a function of the same package — is the product of an
// extract-method refactoring (or new code with the same meaning): its body runs exactly
// where its one use stands.  Such a helper is *adopted* by the function containing the use:
//
//   - it no longer appears in Prog.Funcs(); Root() of the helper and of its literals is the
//     adopter's root;
//   - Func.Walk of the adopter visits the helper's body after its own (so every search sees
//     the extracted statements), the helper's literals are appended to the adopter's Lits;
//   - the adopter's control-flow graph has the helper's graph spliced in at the call (called
//     helpers only): the block is split at the statement containing the call, control flows
//     into the helper's entry, and each helper return continues with that statement.  A
//     helper returning a constant bool that is called as a branch condition continues directly
//     on the matching branch.  Deferred calls of the helper run at its returns;
//   - the helper's parameters and receiver are the same objects as the plain-identifier
//     arguments at the use, and a variable assigned from the call is the same object as the
//     one variable all the helper's returns hand back (ObjOf resolves through this).
//
// Everything the rules establish for the adopter (guards, orders, locks held, who-may-call)
// is therefore established for the statements that were moved, exactly as before the
// extraction.

type inlineSite struct {
	call    *ast.CallExpr
	h       *Func
	spawned bool // `go h(...)`: adopted for ownership and aliasing, not spliced
}

var objAlias = map[types.Object]types.Object{}

// paramArg: parameter of a single-use adopted helper -> the argument expression it is bound to.
var paramArg = map[types.Object]ast.Expr{}

// inlinedAssign: `x := h()` statements whose helper's returns are read as the assignments.
var inlinedAssign = map[*ast.AssignStmt]bool{}

// synthAssign: the synthetic assignments standing for the returns of a helper read in place.
var synthAssign = map[*ast.AssignStmt]bool{}

// IsSelfAssign reports whether a synthetic return assignment hands a variable to itself (the
// helper returns the very variable the caller assigns: parameter/result identification).
func IsSelfAssign(info *types.Info, as *ast.AssignStmt, i int) bool {
	if !synthAssign[as] || i >= len(as.Lhs) || i >= len(as.Rhs) {
		return false
	}
	l, r := ObjOf(info, as.Lhs[i]), ObjOf(info, as.Rhs[i])
	return l != nil && r != nil && sameObj(l, r)
}

// IsInlinedAssign reports whether the statement assigns the results of an adopted helper whose
// return statements are read as the assignments (so the statement itself defines nothing).
func IsInlinedAssign(as *ast.AssignStmt) bool { return inlinedAssign[as] }

// ArgExpr sees through a parameter of an adopted single-use helper: an identifier naming
// such a parameter is replaced by the argument expression at the helper's one call.
func ArgExpr(info *types.Info, e ast.Expr) ast.Expr {
	for i := 0; i < 4; i++ {
		id, ok := Unparen(e).(*ast.Ident)
		if !ok {
			return e
		}
		o := info.Uses[id]
		if o == nil {
			return e
		}
		a, ok := paramArg[o]
		if !ok {
			return e
		}
		e = a
	}
	return e
}

// Rep returns the representative of an object under parameter/argument identification.
func Rep(o types.Object) types.Object {
	for i := 0; i < 8 && o != nil; i++ {
		n, ok := objAlias[o]
		if !ok || n == o {
			return o
		}
		o = n
	}
	return o
}

func isFresh(f *Func) bool {
	if len(pinnedFuncs) == 0 || f.Decl == nil || f.Obj == nil {
		return false
	}
	_, pinned := pinnedFuncs[f.Name]
	return !pinned
}

// adoptFresh finds the adoptable helpers and wires them into their adopters.
func (p *Prog) adoptFresh() {
	objAlias = map[types.Object]types.Object{}
	paramArg = map[types.Object]ast.Expr{}
	inlinedAssign = map[*ast.AssignStmt]bool{}
	synthAssign = map[*ast.AssignStmt]bool{}
	var fresh []*Func
	for _, f := range p.funcs {
		if isFresh(f) && f.Obj.Name() != "init" && f.Obj.Name() != "main" {
			fresh = append(fresh, f)
		}
	}
	// the parameters of a literal that is invoked or spawned where it stands are its arguments
	for _, f := range p.funcs {
		if f.Lit == nil || f.Parent == nil || f.Type.Params == nil {
			continue
		}
		call, ok := p.parents[f.Lit].(*ast.CallExpr)
		if !ok || Unparen(call.Fun) != ast.Expr(f.Lit) {
			continue
		}
		idx := 0
		for _, fl := range f.Type.Params.List {
			for _, id := range fl.Names {
				if idx < len(call.Args) && id.Name != "_" {
					if aid, ok := Unparen(call.Args[idx]).(*ast.Ident); ok {
						po := f.Info().Defs[id]
						if ao, ok := f.Info().Uses[aid].(*types.Var); ok && po != nil && !ao.IsField() {
							objAlias[po] = Rep(ao)
						}
					}
				}
				idx++
			}
		}
	}
	if len(fresh) == 0 {
		return
	}
	adopted := map[*Func]bool{}
	for _, h := range fresh {
		// methods that may be reached through an interface of the package are not adopted
		if h.Decl.Recv != nil && implementsLocalInterface(h) {
			continue
		}
		type useSite struct {
			user    *Func
			call    *ast.CallExpr
			spawned bool
			viaWG   bool
		}
		var sites []useSite
		okUses := true
		for _, f := range p.funcs {
			info := f.Info()
			walkOwn(f.Body, func(nd ast.Node) bool {
				id, ok := nd.(*ast.Ident)
				if !ok {
					return true
				}
				if u := info.Uses[id]; u == nil || !sameObjRaw(u, h.Obj) {
					return true
				}
				// the use must be the callee of a call (or a method value handed to WaitGroup.Go)
				var fun ast.Expr = id
				if se, ok := p.parents[id].(*ast.SelectorExpr); ok && se.Sel == id {
					fun = se
				}
				par := p.parents[fun]
				for {
					pe, ok := par.(*ast.ParenExpr)
					if !ok {
						break
					}
					fun, par = pe, p.parents[pe]
				}
				call, ok := par.(*ast.CallExpr)
				if !ok {
					okUses = false
					return true
				}
				us := useSite{user: f, call: call}
				if Unparen(call.Fun) != Unparen(fun) {
					if CalleeName(info, call) == "(*sync.WaitGroup).Go" && len(call.Args) == 1 && Unparen(call.Args[0]) == Unparen(fun) {
						us.spawned, us.viaWG = true, true
					} else {
						okUses = false
						return true
					}
				}
				switch p.parents[call].(type) {
				case *ast.DeferStmt:
					okUses = false
				case *ast.GoStmt:
					us.spawned = true
				}
				sites = append(sites, us)
				return true
			})
		}
		if !okUses || len(sites) == 0 {
			continue
		}
		// one use of any admissible kind; several uses only as plain calls within one declared function
		same := true
		for _, us := range sites {
			if us.user.Pkg != h.Pkg || (len(sites) > 1 && us.spawned) {
				same = false
			}
			for u := us.user; u != nil; u = u.Parent {
				if u == h {
					same = false // recursion
				}
			}
		}
		if !same {
			continue
		}
		// (a helper called from several functions is read in place in each of them; for the few
		// purposes that need one owner — the root of its own literals — the first caller stands in)
		user := sites[0].user
		h.Adopter = user
		h.adoptedSpawn = len(sites) == 1 && sites[0].spawned
		adopted[h] = true
		for _, us := range sites {
			us.user.inlined = append(us.user.inlined, inlineSite{call: us.call, h: h, spawned: us.spawned})
		}
		if len(sites) == 1 && !sites[0].viaWG {
			bindArgs(sites[0].user, sites[0].call, h)
		} else if len(sites) > 1 {
			bindCommonArgs(h, sites[0].user, sites[0].call, func(i int) (*Func, *ast.CallExpr) { return sites[i].user, sites[i].call }, len(sites))
		}
		continue
	}
	if len(adopted) == 0 {
		return
	}
	// break adoption cycles (a adopts b adopts a cannot happen with single uses, but be safe)
	for h := range adopted {
		seen := map[*Func]bool{}
		for x := h; x != nil; {
			if seen[x] {
				h.Adopter = nil
				delete(adopted, h)
				break
			}
			seen[x] = true
			if x.Adopter != nil {
				x = x.Adopter
			} else {
				x = x.Parent
			}
		}
	}
	var kept []*Func
	for _, f := range p.funcs {
		if !adopted[f] {
			kept = append(kept, f)
		}
	}
	p.funcs = kept
	for h := range adopted {
		if h.Adopter != nil {
			h.Adopter.Lits = append(h.Adopter.Lits, h.Lits...)
			Renames = append(Renames, "helper "+h.Name+" read as part of "+h.Adopter.Name)
		}
	}
	// literals that moved into a called helper keep the identity they had in the adopter
	for _, f := range p.allFuncs {
		for _, site := range f.inlined {
			if site.spawned || !adopted[site.h] {
				continue
			}
			used := map[int]bool{}
			for _, l := range site.h.Lits {
				if l.Lit == nil || l.Parent != site.h {
					continue
				}
				desc := p.litDesc(site.h, l.Lit)
				match := -1
				for k, v := range p.vanished[f.Name] {
					if v.desc == desc && !used[k] {
						if match >= 0 {
							match = -2
							break
						}
						match = k
					}
				}
				if match < 0 {
					continue
				}
				used[match] = true
				old := l.Name
				alias := fmt.Sprintf("%s$%d", f.Name, p.vanished[f.Name][match].ord)
				var ren func(g *Func)
				ren = func(g *Func) {
					if strings.HasPrefix(g.Name, old) {
						g.Name = alias + g.Name[len(old):]
						p.byName[g.Name] = g
					}
					for _, c := range g.Lits {
						ren(c)
					}
				}
				ren(l)
				Renames = append(Renames, "literal "+old+" = pinned literal "+alias)
			}
			// consumed entries no longer count as vanished
			var rest []vanishedLit
			for k, v := range p.vanished[f.Name] {
				if !used[k] {
					rest = append(rest, v)
				}
			}
			p.vanished[f.Name] = rest
		}
	}
	// a spawned helper takes the identity of the spawned literal that vanished from its adopter
	for _, f := range p.allFuncs {
		var sp []inlineSite
		for _, s := range f.inlined {
			if s.spawned && adopted[s.h] {
				sp = append(sp, s)
			}
		}
		if len(sp) == 0 {
			continue
		}
		var gone []vanishedLit
		for _, v := range p.vanished[f.Name] {
			if strings.HasSuffix(v.desc, "|go") {
				gone = append(gone, v)
			}
		}
		if len(gone) != len(sp) {
			continue
		}
		sort.Slice(sp, func(i, j int) bool { return sp[i].call.Pos() < sp[j].call.Pos() })
		sort.Slice(gone, func(i, j int) bool { return gone[i].ord < gone[j].ord })
		for i := range sp {
			alias := fmt.Sprintf("%s$%d", f.Name, gone[i].ord)
			sp[i].h.LitAlias = alias
			sp[i].h.spawnCall = sp[i].call
			sp[i].h.Name = alias // keyed like the literal it replaces; its declared name still resolves through byName
			p.byName[alias] = sp[i].h
			f.Lits = append(f.Lits, sp[i].h)
			Renames = append(Renames, "spawned helper "+sp[i].h.Name+" = pinned literal "+alias)
		}
	}
	sort.Strings(Renames)
}

// IsSpawned reports whether the function is the body of a goroutine started where it
// stands: a literal called by a go statement or handed to WaitGroup.Go, or a helper that took
// such a literal's place.
func (f *Func) IsSpawned() bool {
	if f.Lit == nil {
		return f.spawnCall != nil
	}
	call, ok := f.P.parents[f.Lit].(*ast.CallExpr)
	if !ok {
		return false
	}
	if Unparen(call.Fun) == ast.Expr(f.Lit) {
		_, isGo := f.P.parents[call].(*ast.GoStmt)
		return isGo
	}
	return CalleeName(f.Parent.Info(), call) == "(*sync.WaitGroup).Go"
}

// SpawnArgs returns the arguments the goroutine body is started with.
func (f *Func) SpawnArgs() []ast.Expr {
	if f.Lit == nil {
		if f.spawnCall != nil && CalleeName(f.Adopter.Info(), f.spawnCall) != "(*sync.WaitGroup).Go" {
			return f.spawnCall.Args
		}
		return nil
	}
	if call, ok := f.P.parents[f.Lit].(*ast.CallExpr); ok && Unparen(call.Fun) == ast.Expr(f.Lit) {
		return call.Args
	}
	return nil
}

func sameObjRaw(a, b types.Object) bool {
	if a == b {
		return true
	}
	if fa, ok := a.(*types.Func); ok {
		if fb, ok := b.(*types.Func); ok {
			return fa.Origin() == fb.Origin()
		}
	}
	return false
}

func implementsLocalInterface(h *Func) bool {
	sc := h.Pkg.Types.Scope()
	for _, n := range sc.Names() {
		tn, ok := sc.Lookup(n).(*types.TypeName)
		if !ok {
			continue
		}
		if it, ok := tn.Type().Underlying().(*types.Interface); ok {
			for i := 0; i < it.NumMethods(); i++ {
				if it.Method(i).Name() == h.Obj.Name() {
					return true
				}
			}
		}
	}
	return false
}

// bindArgs identifies the helper's parameters (and receiver) with plain-identifier arguments,
// and the variables assigned from the call with the variables the helper returns.
func bindArgs(user *Func, call *ast.CallExpr, h *Func) {
	info := user.Info()
	hinfo := h.Info()
	bind := func(param *ast.Ident, arg ast.Expr) {
		po := hinfo.Defs[param]
		if po == nil || param.Name == "_" {
			return
		}
		a := Unparen(arg)
		// a pointer to a local names the same variable
		if u, ok := a.(*ast.UnaryExpr); ok && u.Op == token.AND {
			a = Unparen(u.X)
		}
		if id, ok := a.(*ast.Ident); ok {
			if ao, ok := info.Uses[id].(*types.Var); ok && !ao.IsField() {
				objAlias[po] = Rep(ao)
			}
		}
	}
	if h.Decl.Recv != nil && len(h.Decl.Recv.List) == 1 && len(h.Decl.Recv.List[0].Names) == 1 {
		if se, ok := Unparen(call.Fun).(*ast.SelectorExpr); ok {
			bind(h.Decl.Recv.List[0].Names[0], se.X)
		}
	}
	idx := 0
	sig, _ := h.Obj.Type().(*types.Signature)
	if h.Type.Params != nil {
		for _, fl := range h.Type.Params.List {
			if len(fl.Names) == 0 {
				idx++
				continue
			}
			for _, id := range fl.Names {
				variadic := sig != nil && sig.Variadic() && idx == sig.Params().Len()-1
				if idx < len(call.Args) && !variadic {
					bind(id, call.Args[idx])
				}
				idx++
			}
		}
	}
	// every argument expression, for matchers that want to see through a parameter
	{
		idx := 0
		if h.Type.Params != nil {
			for _, fl := range h.Type.Params.List {
				if len(fl.Names) == 0 {
					idx++
					continue
				}
				for _, id := range fl.Names {
					variadic := sig != nil && sig.Variadic() && idx == sig.Params().Len()-1
					if po := hinfo.Defs[id]; po != nil && idx < len(call.Args) && !variadic {
						paramArg[po] = call.Args[idx]
					}
					idx++
				}
			}
		}
	}
	// results
	as, ok := user.P.parents[call].(*ast.AssignStmt)
	if !ok || len(as.Rhs) != 1 {
		return
	}
	// `x, y := h()` is x, y assigned at each return of h: a synthetic assignment stands for each
	// return statement (in the graph and for Walk); the original statement is then no definition
	if _, isGo := user.P.parents[call].(*ast.GoStmt); !isGo {
		walkOwn(h.Body, func(n ast.Node) bool {
			if r, ok := n.(*ast.ReturnStmt); ok && len(r.Results) == len(as.Lhs) {
				if h.retSynth == nil {
					h.retSynth = map[*ast.ReturnStmt]*ast.AssignStmt{}
				}
				sy := &ast.AssignStmt{Lhs: as.Lhs, Tok: token.ASSIGN, TokPos: r.Pos(), Rhs: r.Results}
				synthAssign[sy] = true
				h.retSynth[r] = sy
				h.synthOrder = append(h.synthOrder, sy)
			}
			return true
		})
		if len(h.retSynth) > 0 {
			inlinedAssign[as] = true
		}
	}
	var rets []*ast.ReturnStmt
	walkOwn(h.Body, func(n ast.Node) bool {
		if r, ok := n.(*ast.ReturnStmt); ok {
			rets = append(rets, r)
		}
		return true
	})
	for k, l := range as.Lhs {
		lid, ok := l.(*ast.Ident)
		if !ok || lid.Name == "_" {
			continue
		}
		lo := info.Defs[lid]
		if lo == nil {
			lo = info.Uses[lid]
		}
		if lo == nil {
			continue
		}
		var ro types.Object
		same := len(rets) > 0
		for _, r := range rets {
			if len(r.Results) == 0 {
				// named results
				if h.Type.Results != nil {
					j := 0
					for _, fl := range h.Type.Results.List {
						for _, id := range fl.Names {
							if j == k {
								if o := hinfo.Defs[id]; ro == nil || ro == o {
									ro = o
								} else {
									same = false
								}
							}
							j++
						}
					}
				}
				continue
			}
			if k >= len(r.Results) {
				same = false
				continue
			}
			if tv, ok := hinfo.Types[r.Results[k]]; ok && tv.IsNil() {
				continue // a nil result names no variable
			}
			id, ok := Unparen(r.Results[k]).(*ast.Ident)
			if !ok {
				same = false
				continue
			}
			o := hinfo.Uses[id]
			if _, isVar := o.(*types.Var); !isVar || (ro != nil && ro != o) {
				same = false
				continue
			}
			ro = o
		}
		if same && ro != nil && Rep(ro) != Rep(lo) {
			objAlias[Rep(ro)] = Rep(lo)
		}
	}
}

// spliceInlined rewrites the graph of f in place: every called adopted helper's graph is
// inserted at its call.  It returns the helpers spliced (for condition and location indexing).
func (f *Func) spliceInlined(g *cfg.CFG, mayReturn func(*ast.CallExpr) bool, depth int, siteOf map[*cfg.Block]inlineSite, extraConds map[ast.Expr]bool) []*Func {
	var done []*Func
	if depth > 3 {
		return nil
	}
	next := int32(len(g.Blocks))
	for _, site := range f.allInlineSites() {
		if site.spawned {
			continue
		}
		// locate the node containing the call
		var blk *cfg.Block
		at := -1
		for _, b := range g.Blocks {
			if !b.Live {
				continue
			}
			for i, n := range b.Nodes {
				found := false
				walkOwn(n, func(x ast.Node) bool {
					if x == ast.Node(site.call) {
						found = true
					}
					return !found
				})
				if found {
					blk, at = b, i
					break
				}
			}
			if blk != nil {
				break
			}
		}
		if blk == nil {
			continue // dead code or inside a nested literal handled by its own Func
		}
		h := site.h
		hg := cfg.New(h.Body, mayReturn)
		if len(hg.Blocks) == 0 {
			continue
		}
		// continuation block: the statement containing the call and what follows it
		cont := &cfg.Block{Nodes: append([]ast.Node{}, blk.Nodes[at:]...), Succs: blk.Succs, Index: next, Live: true, Kind: blk.Kind, Stmt: blk.Stmt}
		next++
		blk.Nodes = blk.Nodes[:at:at]
		// a call inside a short-circuit condition runs only when the operands before it let it:
		// `A && h()` is split into the test of A and, on its true branch, the test of h()
		entryFrom := blk
		for len(cont.Nodes) == 1 && len(cont.Succs) == 2 {
			e, ok := cont.Nodes[0].(ast.Expr)
			if !ok {
				break
			}
			b, ok := Unparen(e).(*ast.BinaryExpr)
			if !ok || (b.Op != token.LAND && b.Op != token.LOR) {
				break
			}
			inX := false
			ast.Inspect(b.X, func(m ast.Node) bool {
				if m == ast.Node(site.call) {
					inX = true
				}
				return !inX
			})
			// second operand's block
			by := &cfg.Block{Nodes: []ast.Node{b.Y}, Succs: cont.Succs, Index: next, Live: true, Kind: cont.Kind, Stmt: cont.Stmt}
			next++
			bx := &cfg.Block{Nodes: []ast.Node{b.X}, Index: next, Live: true, Kind: cont.Kind, Stmt: cont.Stmt}
			next++
			if b.Op == token.LAND {
				bx.Succs = []*cfg.Block{by, cont.Succs[1]}
			} else {
				bx.Succs = []*cfg.Block{cont.Succs[0], by}
			}
			extraConds[b.X] = true
			extraConds[b.Y] = true
			g.Blocks = append(g.Blocks, bx, by)
			if inX {
				// the call is in the first operand: it runs now, the first operand's test is the continuation
				cont = bx
			} else {
				// the first operand is tested first; the helper runs on the way to the second
				entryFrom.Succs = []*cfg.Block{bx}
				entryFrom = &cfg.Block{Index: next, Live: true, Kind: cont.Kind, Stmt: cont.Stmt}
				next++
				g.Blocks = append(g.Blocks, entryFrom)
				if b.Op == token.LAND {
					bx.Succs[0] = entryFrom
				} else {
					bx.Succs[1] = entryFrom
				}
				cont = by
			}
		}
		entryFrom.Succs = []*cfg.Block{hg.Blocks[0]}
		// `return h(...)`: the helper's return statements are the function's own
		tailCall := false
		if len(cont.Nodes) >= 1 {
			if r, ok := cont.Nodes[0].(*ast.ReturnStmt); ok && len(r.Results) == 1 && Unparen(r.Results[0]) == ast.Expr(site.call) {
				tailCall = true
			}
		}
		// is the call the branch condition itself (possibly negated)?
		negated, isCond := false, false
		if len(cont.Nodes) == 1 && len(cont.Succs) == 2 {
			if e, ok := cont.Nodes[0].(ast.Expr); ok {
				x := Unparen(e)
				if u, isNot := x.(*ast.UnaryExpr); isNot && u.Op == token.NOT {
					x, negated = Unparen(u.X), true
				}
				isCond = x == ast.Expr(site.call)
			}
		}
		// is the call's error result tested by the branch that ends the continuation block?
		// (`x, err := h(); if err != nil {...}`): helper returns whose error is known to be nil
		// continue on the nil branch only, those known to be non-nil on the other.
		errIdx, nilSucc := -1, -1
		if len(cont.Nodes) >= 2 && len(cont.Succs) == 2 {
			errIdx, nilSucc = errCorrelation(f.Info(), cont.Nodes, site.call)
		}
		// likewise for a bool result tested right after the call: `n, ok := h(); if ok {...}`
		boolIdx, trueSucc := -1, -1
		if errIdx < 0 && len(cont.Nodes) >= 2 && len(cont.Succs) == 2 {
			boolIdx, trueSucc = boolCorrelation(f.Info(), cont.Nodes, site.call)
		}
		var contNil, contErr *cfg.Block
		var deadEnds []*cfg.Block
		mk := func(succ int) *cfg.Block {
			// the branch that cannot be taken leads nowhere; the test itself stays, so the edge
			// that is taken still carries its fact (err == nil / err != nil)
			dead := &cfg.Block{Index: next, Live: true, Kind: cont.Kind, Stmt: cont.Stmt}
			next++
			deadEnds = append(deadEnds, dead)
			succs := []*cfg.Block{dead, dead}
			succs[succ] = cont.Succs[succ]
			b := &cfg.Block{Nodes: cont.Nodes, Succs: succs, Index: next, Live: true, Kind: cont.Kind, Stmt: cont.Stmt}
			next++
			return b
		}
		var hcf *CFG
		// deferred calls of the helper, in registration order
		type dfr struct {
			stmt *ast.DeferStmt
			blk  *cfg.Block
		}
		var defers []dfr
		for _, hb := range hg.Blocks {
			if !hb.Live {
				continue
			}
			var kept []ast.Node
			for _, n := range hb.Nodes {
				if d, ok := n.(*ast.DeferStmt); ok {
					defers = append(defers, dfr{d, hb})
					// argument evaluation happens here; the call itself at the returns
					for _, a := range d.Call.Args {
						kept = append(kept, a)
					}
					continue
				}
				kept = append(kept, n)
			}
			hb.Nodes = kept
		}
		dominates := func(db, target *cfg.Block) bool {
			if db == target || db == hg.Blocks[0] {
				return true
			}
			seen := map[*cfg.Block]bool{db: true}
			var dfs func(b *cfg.Block) bool
			dfs = func(b *cfg.Block) bool {
				if b == target {
					return true
				}
				if seen[b] {
					return false
				}
				seen[b] = true
				for _, s := range b.Succs {
					if dfs(s) {
						return true
					}
				}
				return false
			}
			return !dfs(hg.Blocks[0])
		}
		info := h.Info()
		for _, hb := range hg.Blocks {
			hb.Index = next
			next++
			siteOf[hb] = site
			if !hb.Live || len(hb.Succs) != 0 {
				continue
			}
			var ret *ast.ReturnStmt
			if len(hb.Nodes) > 0 {
				ret, _ = hb.Nodes[len(hb.Nodes)-1].(*ast.ReturnStmt)
			}
			if ret == nil {
				if len(hb.Nodes) == 0 {
					continue // dead fall-off block of a select without default
				}
				// a no-return call ends the helper and the adopter alike
				if es, ok := hb.Nodes[len(hb.Nodes)-1].(*ast.ExprStmt); ok {
					if c, ok := es.X.(*ast.CallExpr); ok && !mayReturn(c) {
						continue
					}
				}
			}
			if tailCall && ret != nil {
				// deferred calls of the helper run before the (shared) return
				hb.Nodes = hb.Nodes[:len(hb.Nodes)-1]
				for i := len(defers) - 1; i >= 0; i-- {
					if dominates(defers[i].blk, hb) {
						hb.Nodes = append(hb.Nodes, defers[i].stmt.Call)
					}
				}
				hb.Nodes = append(hb.Nodes, ret)
				continue
			}
			target := cont
			if ret != nil {
				// the return statement becomes the evaluation of its results
				hb.Nodes = hb.Nodes[:len(hb.Nodes)-1]
				if sy := h.retSynth[ret]; sy != nil {
					hb.Nodes = append(hb.Nodes, sy)
				} else {
					for _, r := range ret.Results {
						hb.Nodes = append(hb.Nodes, r)
					}
				}
				if isCond && len(ret.Results) == 1 {
					if tv, ok := info.Types[ret.Results[0]]; ok && tv.Value != nil {
						val := tv.Value.String() == "true"
						if val != negated {
							target = cont.Succs[0]
						} else {
							target = cont.Succs[1]
						}
					}
				}
				if boolIdx >= 0 && boolIdx < len(ret.Results) {
					if tv, ok := info.Types[ret.Results[boolIdx]]; ok && tv.Value != nil {
						if tv.Value.String() == "true" {
							if contNil == nil {
								contNil = mk(trueSucc)
							}
							target = contNil
						} else {
							if contErr == nil {
								contErr = mk(1 - trueSucc)
							}
							target = contErr
						}
					}
				}
				if errIdx >= 0 && errIdx < len(ret.Results) {
					if hcf == nil {
						hcf = h.CFG()
					}
					switch errClass(hcf, ret, ret.Results[errIdx]) {
					case 1: // nil
						if contNil == nil {
							contNil = mk(nilSucc)
						}
						target = contNil
					case 2: // non-nil
						if contErr == nil {
							contErr = mk(1 - nilSucc)
						}
						target = contErr
					}
				}
			}
			for i := len(defers) - 1; i >= 0; i-- {
				if dominates(defers[i].blk, hb) {
					hb.Nodes = append(hb.Nodes, defers[i].stmt.Call)
				}
			}
			hb.Succs = []*cfg.Block{target}
		}
		already := false
		for _, b := range g.Blocks {
			if b == cont {
				already = true
			}
		}
		if tailCall || contNil != nil || contErr != nil {
			// `return h(...)` whose helper always returns, or a tested result whose every return was
			// classified: the uncorrelated continuation is never reached
			used := false
			for _, hb := range hg.Blocks {
				for _, sc := range hb.Succs {
					if sc == cont {
						used = true
					}
				}
			}
			if !used {
				cont.Live = false
			}
		}
		if !already {
			g.Blocks = append(g.Blocks, cont)
		}
		if contNil != nil {
			g.Blocks = append(g.Blocks, contNil)
		}
		if contErr != nil {
			g.Blocks = append(g.Blocks, contErr)
		}
		g.Blocks = append(g.Blocks, deadEnds...)
		g.Blocks = append(g.Blocks, hg.Blocks...)
		done = append(done, h)
	}
	return done
}

// allInlineSites lists the adopted helpers of f, nested adoptions included, outermost first.
func (f *Func) allInlineSites() []inlineSite {
	var out []inlineSite
	var rec func(g *Func, d int)
	rec = func(g *Func, d int) {
		if d > 3 {
			return
		}
		for _, s := range g.inlined {
			out = append(out, s)
			rec(s.h, d+1)
		}
	}
	rec(f, 0)
	return out
}

// bindCommonArgs identifies a parameter of a helper called from several places with its
// argument when every call passes the same variable.
func bindCommonArgs(h *Func, _ *Func, _ *ast.CallExpr, site func(i int) (*Func, *ast.CallExpr), n int) {
	if h.Type.Params == nil {
		return
	}
	hinfo := h.Info()
	argObj := func(user *Func, e ast.Expr) types.Object {
		a := Unparen(e)
		if u, ok := a.(*ast.UnaryExpr); ok && u.Op == token.AND {
			a = Unparen(u.X)
		}
		if id, ok := a.(*ast.Ident); ok {
			if ao, ok := user.Info().Uses[id].(*types.Var); ok && !ao.IsField() {
				return Rep(ao)
			}
		}
		return nil
	}
	bindAll := func(param *ast.Ident, get func(call *ast.CallExpr) ast.Expr) {
		po := hinfo.Defs[param]
		if po == nil || param.Name == "_" {
			return
		}
		var common types.Object
		for i := 0; i < n; i++ {
			user, call := site(i)
			e := get(call)
			if e == nil {
				return
			}
			o := argObj(user, e)
			if o == nil || (common != nil && o != common) {
				return
			}
			common = o
		}
		if common != nil {
			objAlias[po] = common
		}
	}
	if h.Decl.Recv != nil && len(h.Decl.Recv.List) == 1 && len(h.Decl.Recv.List[0].Names) == 1 {
		bindAll(h.Decl.Recv.List[0].Names[0], func(call *ast.CallExpr) ast.Expr {
			if se, ok := Unparen(call.Fun).(*ast.SelectorExpr); ok {
				return se.X
			}
			return nil
		})
	}
	idx := 0
	sig, _ := h.Obj.Type().(*types.Signature)
	for _, fl := range h.Type.Params.List {
		if len(fl.Names) == 0 {
			idx++
			continue
		}
		for _, id := range fl.Names {
			k := idx
			if !(sig != nil && sig.Variadic() && k == sig.Params().Len()-1) {
				bindAll(id, func(call *ast.CallExpr) ast.Expr {
					if k < len(call.Args) {
						return call.Args[k]
					}
					return nil
				})
			}
			idx++
		}
	}
}

// ArgAt resolves a parameter (or the receiver) of a spliced helper to the argument it is
// bound to at the call whose copy of the helper contains location l.
func (c *CFG) ArgAt(l Loc, param types.Object) ast.Expr {
	site, ok := c.siteOf[l.B]
	if !ok || param == nil {
		return nil
	}
	h := site.h
	hinfo := h.Info()
	if h.Decl.Recv != nil && len(h.Decl.Recv.List) == 1 && len(h.Decl.Recv.List[0].Names) == 1 {
		if hinfo.Defs[h.Decl.Recv.List[0].Names[0]] == param {
			if se, ok := Unparen(site.call.Fun).(*ast.SelectorExpr); ok {
				return se.X
			}
		}
	}
	idx := 0
	if h.Type.Params != nil {
		for _, fl := range h.Type.Params.List {
			if len(fl.Names) == 0 {
				idx++
				continue
			}
			for _, id := range fl.Names {
				if hinfo.Defs[id] == param && idx < len(site.call.Args) {
					return site.call.Args[idx]
				}
				idx++
			}
		}
	}
	return nil
}

// CallSiteAt returns the call, in the function's own text, for which the copy of a helper
// that contains l was spliced in (nil when l lies in the function's own body).  For a helper
// spliced into another spliced helper it climbs to the outermost call.
func (c *CFG) CallSiteAt(l Loc) *ast.CallExpr {
	site, ok := c.siteOf[l.B]
	if !ok {
		return nil
	}
	call := site.call
	for i := 0; i < 4; i++ {
		found := false
		for _, cl := range c.LocsOf(call) {
			if up, ok := c.siteOf[cl.B]; ok && up.call != call {
				// the call itself sits in a spliced copy: with one copy the climb is unambiguous
				if len(c.LocsOf(call)) == 1 {
					call = up.call
					found = true
				}
			}
			break
		}
		if !found {
			break
		}
	}
	return call
}

// GuardedAt is Guarded for exactly the location l (not the other standing places of its node).
func (c *CFG) GuardedAt(l Loc, pred func(Fact) bool) bool {
	ok, _ := c.guardedFromExact(c.Entry(), l, pred)
	return ok
}

// DominatingCondsAt is DominatingConds for exactly the location l.
func (c *CFG) DominatingCondsAt(l Loc) []CondEdge { return c.dominatingCondsExact(l) }

// errCorrelation recognises `..., err := call` (first node) followed, at the end of the same
// block, by the branch condition `err != nil` or `err == nil`; it returns the index of the
// error among the call's results and the successor taken when the error is nil.
func errCorrelation(info *types.Info, nodes []ast.Node, call *ast.CallExpr) (errIdx, nilSucc int) {
	errIdx, nilSucc = -1, -1
	var lhs []ast.Expr
	switch s := nodes[0].(type) {
	case *ast.AssignStmt:
		if len(s.Rhs) != 1 || Unparen(s.Rhs[0]) != ast.Expr(call) {
			return
		}
		lhs = s.Lhs
	default:
		return
	}
	cond, ok := nodes[len(nodes)-1].(ast.Expr)
	if !ok {
		return
	}
	b, ok := Unparen(cond).(*ast.BinaryExpr)
	if !ok || (b.Op != token.NEQ && b.Op != token.EQL) {
		return
	}
	x, y := Unparen(b.X), Unparen(b.Y)
	isNilE := func(e ast.Expr) bool { tv, ok := info.Types[e]; return ok && tv.IsNil() }
	if isNilE(x) {
		x, y = y, x
	}
	if !isNilE(y) {
		return
	}
	xo := ObjOf(info, x)
	if xo == nil || xo.Type() == nil || xo.Type().String() != "error" {
		return
	}
	for k, l := range lhs {
		if lo := ObjOf(info, l); lo != nil && lo == xo {
			errIdx = k
		}
	}
	if errIdx < 0 {
		return
	}
	// nothing between the call and the test assigns the error again
	for _, n := range nodes[1 : len(nodes)-1] {
		bad := false
		ast.Inspect(n, func(m ast.Node) bool {
			if as, ok := m.(*ast.AssignStmt); ok {
				for _, l := range as.Lhs {
					if lo := ObjOf(info, l); lo != nil && lo == xo {
						bad = true
					}
				}
			}
			return !bad
		})
		if bad {
			return -1, -1
		}
	}
	if b.Op == token.NEQ {
		nilSucc = 1
	} else {
		nilSucc = 0
	}
	return
}

// errClass classifies the error a return statement of a helper hands back: 1 nil, 2 known
// non-nil (a fresh error, or a variable tested non-nil on every path to the return), 0 unknown.
func errClass(hcf *CFG, ret *ast.ReturnStmt, e ast.Expr) int {
	info := hcf.F.Info()
	e = Unparen(e)
	if tv, ok := info.Types[e]; ok && tv.IsNil() {
		return 1
	}
	if call, ok := e.(*ast.CallExpr); ok {
		switch CalleeName(info, call) {
		case "fmt.Errorf", "errors.New":
			return 2
		}
		return 0
	}
	o := ObjOf(info, e)
	if o == nil {
		return 0
	}
	// a package-level error variable is a sentinel such as ErrOldRecord
	if v, ok := o.(*types.Var); ok && v.Pkg() != nil && v.Parent() == v.Pkg().Scope() && v.Type().String() == "error" {
		return 2
	}
	loc := hcf.LocOf(ret)
	if !loc.Valid() {
		return 0
	}
	if ok, _ := hcf.Guarded(loc, func(ft Fact) bool {
		x, isNil, ok := ft.NilFact()
		return ok && !isNil && IsObj(info, x, o)
	}); ok {
		return 2
	}
	if ok, _ := hcf.Guarded(loc, func(ft Fact) bool {
		x, isNil, ok := ft.NilFact()
		return ok && isNil && IsObj(info, x, o)
	}); ok {
		return 1
	}
	return 0
}

// boolCorrelation recognises `..., ok := call` (first node) followed, at the end of the same
// block, by the branch condition `ok` or `!ok`; it returns the index of that result and the
// successor taken when it is true.
func boolCorrelation(info *types.Info, nodes []ast.Node, call *ast.CallExpr) (idx, trueSucc int) {
	idx, trueSucc = -1, -1
	as, ok := nodes[0].(*ast.AssignStmt)
	if !ok || len(as.Rhs) != 1 || Unparen(as.Rhs[0]) != ast.Expr(call) {
		return
	}
	cond, ok := nodes[len(nodes)-1].(ast.Expr)
	if !ok {
		return
	}
	x := Unparen(cond)
	neg := false
	if u, isNot := x.(*ast.UnaryExpr); isNot && u.Op == token.NOT {
		x, neg = Unparen(u.X), true
	}
	xo := ObjOf(info, x)
	if _, isID := x.(*ast.Ident); !isID || xo == nil {
		return
	}
	for k, l := range as.Lhs {
		if lo := ObjOf(info, l); lo != nil && lo == xo {
			idx = k
		}
	}
	if idx < 0 {
		return
	}
	for _, n := range nodes[1 : len(nodes)-1] {
		bad := false
		ast.Inspect(n, func(m ast.Node) bool {
			if a2, ok := m.(*ast.AssignStmt); ok {
				for _, l := range a2.Lhs {
					if lo := ObjOf(info, l); lo != nil && lo == xo {
						bad = true
					}
				}
			}
			return !bad
		})
		if bad {
			return -1, -1
		}
	}
	if neg {
		trueSucc = 1
	} else {
		trueSucc = 0
	}
	return
}
