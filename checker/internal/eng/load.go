// Package eng is the analysis engine of kadcheck: it loads the type-checked
// program of /repo's working tree and offers the primitives (facts, dominance by
// edge removal, must-pass-through, exactly-once, locksets, who-may, ...) the
// property rules are written with.  Nothing here executes repository code.
package eng

import (
	"fmt"
	"go/ast"
	"go/token"
	"go/types"
	"os"
	"sort"
	"strings"

	"golang.org/x/tools/go/packages"
)

// ModPath is the module path of the analysed repository.  In every name the
// engine prints or matches it is abbreviated to "dht".
const ModPath = "github.com/libp2p/go-libp2p-kad-dht"

// MinRootPackages is the number of repository packages confirmed on the pinned tree.
const MinRootPackages = 25

// Prog is the loaded program.
type Prog struct {
	Dir   string
	Fset  *token.FileSet
	Roots []*packages.Package
	All   map[string]*packages.Package

	funcs    []*Func
	allFuncs []*Func // including adopted helpers
	byObj    map[*types.Func]*Func
	byLit    map[*ast.FuncLit]*Func
	byName   map[string]*Func
	parents  map[ast.Node]ast.Node
	// vanished: pinned literals of a function that have no counterpart in this tree
	vanished map[string][]vanishedLit

	ssaState *ssaState
}

// Func is a source function of a repository package: a declaration or a literal.
type Func struct {
	P      *Prog
	Pkg    *packages.Package
	Obj    *types.Func
	Decl   *ast.FuncDecl
	Lit    *ast.FuncLit
	Parent *Func
	Body   *ast.BlockStmt
	Type   *ast.FuncType
	Name   string
	Lits   []*Func // directly nested literals, in source order (plus those of adopted helpers)

	// Adopter is set for a fresh single-use helper: the function its body is read as part of (inline.go).
	Adopter *Func
	inlined []inlineSite
	// LitAlias is the pinned literal name a spawned helper stands in for.
	LitAlias     string
	spawnCall    *ast.CallExpr
	adoptedSpawn bool // adopted through a go statement (its body is a goroutine of its own)
	// retSynth: for a single-use helper called as `x, y := h()`, the assignment each return stands for
	retSynth   map[*ast.ReturnStmt]*ast.AssignStmt
	synthOrder []*ast.AssignStmt

	cfg *CFG
}

func (f *Func) Info() *types.Info { return f.Pkg.TypesInfo }
func (f *Func) Pos() token.Pos {
	if f.Decl != nil {
		return f.Decl.Pos()
	}
	return f.Lit.Pos()
}
func (f *Func) String() string { return f.Name }

// Root returns the enclosing declared function; an adopted helper belongs to its adopter's root.
func (f *Func) Root() *Func {
	for i := 0; i < 64; i++ {
		if f.Parent != nil {
			f = f.Parent
		} else if f.Adopter != nil {
			f = f.Adopter
		} else {
			break
		}
	}
	return f
}

// SynRoot returns the syntactically enclosing declared function (adoption ignored).
func (f *Func) SynRoot() *Func {
	for f.Parent != nil {
		f = f.Parent
	}
	return f
}

// Short abbreviates the module path in a qualified name.
func Short(s string) string { return strings.ReplaceAll(s, ModPath, "dht") }

// Load type-checks dir/... (whole program syntax) with optional overlay.
func Load(dir string, overlay map[string][]byte) (*Prog, error) {
	env := os.Environ()
	env = setenv(env, "GOFLAGS", "-mod=mod")
	env = setenv(env, "GOPROXY", "off")
	env = setenv(env, "GOTOOLCHAIN", "local")
	env = setenv(env, "GOWORK", "off")
	env = setenv(env, "GOSUMDB", "off")
	env = setenv(env, "CGO_ENABLED", "0")
	if _, err := os.Stat("/opt/veriftools/go1.26.8/bin/go"); err == nil {
		// go/packages looks the go command up in this process's PATH
		if !strings.HasPrefix(os.Getenv("PATH"), "/opt/veriftools/go1.26.8/bin:") {
			os.Setenv("PATH", "/opt/veriftools/go1.26.8/bin:"+os.Getenv("PATH"))
		}
		env = setenv(env, "PATH", os.Getenv("PATH"))
	}
	fset := token.NewFileSet()
	cfg := &packages.Config{
		Mode:    packages.LoadAllSyntax,
		Dir:     dir,
		Fset:    fset,
		Env:     env,
		Tests:   false,
		Overlay: overlay,
	}
	pkgs, err := packages.Load(cfg, "./...")
	if err != nil {
		return nil, fmt.Errorf("load: %w", err)
	}
	p := &Prog{Dir: dir, Fset: fset, All: map[string]*packages.Package{},
		byObj: map[*types.Func]*Func{}, byLit: map[*ast.FuncLit]*Func{}, byName: map[string]*Func{},
		parents: map[ast.Node]ast.Node{}, vanished: map[string][]vanishedLit{}}
	var errs []string
	packages.Visit(pkgs, nil, func(pk *packages.Package) {
		p.All[pk.PkgPath] = pk
		if strings.HasPrefix(pk.PkgPath, ModPath) {
			for _, e := range pk.Errors {
				errs = append(errs, e.Error())
			}
		}
	})
	if len(errs) > 0 {
		return nil, fmt.Errorf("type errors in repository packages: %s", strings.Join(errs, "; "))
	}
	for _, pk := range pkgs {
		if strings.HasPrefix(pk.PkgPath, ModPath) {
			p.Roots = append(p.Roots, pk)
		}
	}
	sort.Slice(p.Roots, func(i, j int) bool { return p.Roots[i].PkgPath < p.Roots[j].PkgPath })
	if len(p.Roots) < MinRootPackages {
		return nil, fmt.Errorf("only %d repository packages loaded, expected >= %d", len(p.Roots), MinRootPackages)
	}
	computeRenames(p.Roots, func(n ast.Node) bool {
		return strings.HasSuffix(p.Fset.Position(n.Pos()).Filename, "_test.go")
	})
	computeLocalRenames(p.Roots, func(n ast.Node) bool {
		return strings.HasSuffix(p.Fset.Position(n.Pos()).Filename, "_test.go")
	})
	indexIdentCanon(p.Roots)
	for _, pk := range p.Roots {
		p.indexPkg(pk)
	}
	p.allFuncs = append([]*Func{}, p.funcs...)
	p.adoptFresh()
	theProg = p
	pureDefMemo = map[types.Object]ast.Expr{}
	return p, nil
}

func setenv(env []string, k, v string) []string {
	out := env[:0:0]
	for _, e := range env {
		if !strings.HasPrefix(e, k+"=") {
			out = append(out, e)
		}
	}
	return append(out, k+"="+v)
}

func (p *Prog) indexPkg(pk *packages.Package) {
	for _, file := range pk.Syntax {
		fname := p.Fset.Position(file.Pos()).Filename
		if strings.HasSuffix(fname, "_test.go") {
			continue
		}
		// parent links
		var stack []ast.Node
		ast.Inspect(file, func(n ast.Node) bool {
			if n == nil {
				stack = stack[:len(stack)-1]
				return true
			}
			if len(stack) > 0 {
				p.parents[n] = stack[len(stack)-1]
			}
			stack = append(stack, n)
			return true
		})
		for _, d := range file.Decls {
			fd, ok := d.(*ast.FuncDecl)
			if !ok || fd.Body == nil {
				continue
			}
			obj, _ := pk.TypesInfo.Defs[fd.Name].(*types.Func)
			if obj == nil {
				continue
			}
			f := &Func{P: p, Pkg: pk, Obj: obj, Decl: fd, Body: fd.Body, Type: fd.Type, Name: canonFunc(Short(obj.FullName()))}
			p.funcs = append(p.funcs, f)
			p.byObj[obj] = f
			p.byName[f.Name] = f
			p.indexLits(f)
		}
		// literals in package-level var initialisers
		for _, d := range file.Decls {
			gd, ok := d.(*ast.GenDecl)
			if !ok {
				continue
			}
			n := 0
			ast.Inspect(gd, func(x ast.Node) bool {
				if lit, ok := x.(*ast.FuncLit); ok {
					n++
					f := &Func{P: p, Pkg: pk, Lit: lit, Body: lit.Body, Type: lit.Type,
						Name: fmt.Sprintf("%s.init$lit@%s", Short(pk.PkgPath), p.ShortPos(lit.Pos()))}
					p.funcs = append(p.funcs, f)
					p.byLit[lit] = f
					p.indexLits(f)
					return false
				}
				return true
			})
		}
	}
}

func (p *Prog) indexLits(f *Func) {
	var lits []*ast.FuncLit
	ast.Inspect(f.Body, func(x ast.Node) bool {
		if lit, ok := x.(*ast.FuncLit); ok {
			lits = append(lits, lit)
			return false
		}
		return true
	})
	names := p.literalNames(f, lits)
	for i, lit := range lits {
		g := &Func{P: p, Pkg: f.Pkg, Lit: lit, Parent: f, Body: lit.Body, Type: lit.Type, Name: names[i]}
		f.Lits = append(f.Lits, g)
		p.funcs = append(p.funcs, g)
		p.byLit[lit] = g
		p.byName[g.Name] = g
		p.indexLits(g)
	}
}

// Funcs returns every source function (declarations and literals) of the repository.
func (p *Prog) Funcs() []*Func { return p.funcs }

// Func resolves a declared function by its abbreviated full name, e.g.
// "(*dht.query).queryPeer", "dht/pb.PBPeersToPeerInfos".
func (p *Prog) Func(name string) *Func { return p.byName[name] }

// FuncOfLit returns the Func of a literal.
func (p *Prog) FuncOfLit(l *ast.FuncLit) *Func { return p.byLit[l] }

// FuncOfObj returns the Func of a declared function object.
func (p *Prog) FuncOfObj(o *types.Func) *Func {
	if o == nil {
		return nil
	}
	return p.byObj[o.Origin()]
}

// Parent returns the syntactic parent of a node.
func (p *Prog) Parent(n ast.Node) ast.Node { return p.parents[n] }

// EnclosingFunc returns the innermost source function containing n.
func (p *Prog) EnclosingFunc(n ast.Node) *Func {
	for x := n; x != nil; x = p.parents[x] {
		switch y := x.(type) {
		case *ast.FuncLit:
			if x != n {
				return p.byLit[y]
			}
		case *ast.FuncDecl:
			if o, ok := p.pkgOfNode(y).TypesInfo.Defs[y.Name].(*types.Func); ok {
				return p.byObj[o]
			}
		}
	}
	return nil
}

func (p *Prog) pkgOfNode(n ast.Node) *packages.Package {
	fname := p.Fset.Position(n.Pos()).Filename
	for _, pk := range p.Roots {
		for _, f := range pk.CompiledGoFiles {
			if f == fname {
				return pk
			}
		}
	}
	return nil
}

// Pkg returns a repository package by abbreviated path ("dht", "dht/records").
func (p *Prog) Pkg(short string) *packages.Package {
	full := ModPath + strings.TrimPrefix(short, "dht")
	return p.All[full]
}

// ShortPos renders a position relative to the repository root.
func (p *Prog) ShortPos(pos token.Pos) string {
	if !pos.IsValid() {
		return "?"
	}
	ps := p.Fset.Position(pos)
	fn := strings.TrimPrefix(ps.Filename, p.Dir+"/")
	return fmt.Sprintf("%s:%d", fn, ps.Line)
}

// LookupType finds a named type "dht/records.ValueStore".
func (p *Prog) LookupType(q string) *types.Named {
	i := strings.LastIndex(q, ".")
	if i < 0 {
		return nil
	}
	pk := p.anyPkg(q[:i])
	if pk == nil {
		return nil
	}
	o := pk.Types.Scope().Lookup(q[i+1:])
	if o == nil {
		return nil
	}
	n, _ := o.Type().(*types.Named)
	return n
}

func (p *Prog) anyPkg(short string) *packages.Package {
	if short == "dht" || strings.HasPrefix(short, "dht/") {
		return p.Pkg(short)
	}
	return p.All[short]
}

// LookupObj finds a package-level object "dht/qpeerset.PeerHeard".
func (p *Prog) LookupObj(q string) types.Object {
	i := strings.LastIndex(q, ".")
	if i < 0 {
		return nil
	}
	pk := p.anyPkg(q[:i])
	if pk == nil {
		return nil
	}
	return pk.Types.Scope().Lookup(q[i+1:])
}

// Field finds a struct field "dht/records.ValueStore.ds".
func (p *Prog) Field(q string) *types.Var {
	i := strings.LastIndex(q, ".")
	if i < 0 {
		return nil
	}
	n := p.LookupType(q[:i])
	if n == nil {
		return nil
	}
	st, _ := n.Underlying().(*types.Struct)
	if st == nil {
		return nil
	}
	for j := 0; j < st.NumFields(); j++ {
		if st.Field(j).Name() == q[i+1:] || canonField(q[:i]+"."+st.Field(j).Name()) == q {
			return st.Field(j)
		}
	}
	return nil
}

// Method finds a method object "dht/records.ValueStore.Put" (pointer or value receiver).
func (p *Prog) Method(q string) *types.Func {
	i := strings.LastIndex(q, ".")
	if i < 0 {
		return nil
	}
	n := p.LookupType(q[:i])
	if n == nil {
		return nil
	}
	o, _, _ := types.LookupFieldOrMethod(types.NewPointer(n), true, n.Obj().Pkg(), q[i+1:])
	f, _ := o.(*types.Func)
	if f == nil {
		for cur, pin := range funcRenames {
			if strings.HasSuffix(pin, "."+q[i+1:]) && prefixOf(pin) == prefixOf(cur) {
				o, _, _ := types.LookupFieldOrMethod(types.NewPointer(n), true, n.Obj().Pkg(), cur[strings.LastIndex(cur, ".")+1:])
				if g, _ := o.(*types.Func); g != nil && canonFunc(Short(g.FullName())) == pin {
					return g
				}
			}
		}
	}
	return f
}

// EnclosingFuncAt returns the innermost source function whose body contains pos.
func (p *Prog) EnclosingFuncAt(pos token.Pos) *Func {
	var best *Func
	for _, f := range p.allFuncs {
		lo, hi := f.Pos(), f.Body.End()
		if pos >= lo && pos <= hi {
			if best == nil || (lo >= best.Pos() && hi <= best.Body.End()) {
				best = f
			}
		}
	}
	return best
}

// FieldQName returns "dht/pkg.Type.field" for a field of a named struct type of the repository ("" otherwise).
func (p *Prog) FieldQName(v *types.Var) string {
	for _, pk := range p.Roots {
		if pk.Types != v.Pkg() {
			continue
		}
		sc := pk.Types.Scope()
		for _, name := range sc.Names() {
			tn, ok := sc.Lookup(name).(*types.TypeName)
			if !ok {
				continue
			}
			st, _ := tn.Type().Underlying().(*types.Struct)
			if st == nil {
				continue
			}
			for i := 0; i < st.NumFields(); i++ {
				if st.Field(i) == v {
					return Short(pk.PkgPath) + "." + tn.Name() + "." + v.Name()
				}
			}
		}
	}
	return ""
}
