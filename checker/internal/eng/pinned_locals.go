package eng

import (
	_ "embed"
	"encoding/json"
)

//go:embed pinned_locals.json
var pinnedLocalsJSON []byte

var pinnedLocalsCache map[string][]string

func pinnedLocals() map[string][]string {
	if pinnedLocalsCache == nil {
		pinnedLocalsCache = map[string][]string{}
		_ = json.Unmarshal(pinnedLocalsJSON, &pinnedLocalsCache)
	}
	return pinnedLocalsCache
}

//go:embed pinned_lits.json
var pinnedLitsJSON []byte

var pinnedLitsCache map[string][]string

func pinnedLits() map[string][]string {
	if pinnedLitsCache == nil {
		pinnedLitsCache = map[string][]string{}
		_ = json.Unmarshal(pinnedLitsJSON, &pinnedLitsCache)
	}
	return pinnedLitsCache
}
