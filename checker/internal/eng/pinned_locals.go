package eng

import (
	_ "embed"
	"encoding/json"
)

//go:embed pinned_locals.json
var pinnedLocalsJSON []byte

var pinnedLocalsCache map[string][]string

func pinnedLocals() map[string][]string {
	if pinnedLocalsCache == nil {
		pinnedLocalsCache = map[string][]string{}
		_ = json.Unmarshal(pinnedLocalsJSON, &pinnedLocalsCache)
	}
	return pinnedLocalsCache
}
