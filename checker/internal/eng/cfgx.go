package eng

import (
	"fmt"
	"go/ast"
	"go/token"
	"go/types"

	"golang.org/x/tools/go/cfg"
)

// CFG wraps a go/cfg graph of one function body with node locations.
type CFG struct {
	F    *Func
	G    *cfg.CFG
	loc  map[ast.Node]Loc
	more map[ast.Node][]Loc // further locations of nodes that stand in several blocks
	// siteOf: blocks of a spliced helper -> the call they were spliced in for
	siteOf map[*cfg.Block]inlineSite
	conds  map[ast.Expr]ast.Expr // condition expr -> switch tag (nil for if/for/tagless case)
	isCnd  map[ast.Expr]bool
	preds  map[*cfg.Block][]*cfg.Block
}

// Loc is a position in the CFG: node I of block B.  I == -1 denotes the start of the
// block (used for the communication of a select case, which go/cfg evaluates "before"
// the select but which takes effect only on entry to its case body).
type Loc struct {
	B *cfg.Block
	I int
}

func (l Loc) Valid() bool { return l.B != nil }

// CFG returns (building on first use) the control-flow graph of f.
func (f *Func) CFG() *CFG {
	if f.cfg != nil {
		return f.cfg
	}
	info := f.Info()
	mayReturn := func(call *ast.CallExpr) bool {
		name := CalleeName(info, call)
		switch name {
		case "builtin.panic", "os.Exit", "log.Fatal", "log.Fatalf", "log.Panic", "log.Panicf", "runtime.Goexit":
			return false
		}
		return true
	}
	g := cfg.New(f.Body, mayReturn)
	bodies := []ast.Node{f.Body}
	siteOf := map[*cfg.Block]inlineSite{}
	seenBody := map[*Func]bool{}
	extraConds := map[ast.Expr]bool{}
	for _, h := range f.spliceInlined(g, mayReturn, 0, siteOf, extraConds) {
		if !seenBody[h] {
			seenBody[h] = true
			bodies = append(bodies, h.Body)
		}
	}
	c := &CFG{F: f, G: g, siteOf: siteOf, loc: map[ast.Node]Loc{}, conds: map[ast.Expr]ast.Expr{}, isCnd: map[ast.Expr]bool{},
		preds: map[*cfg.Block][]*cfg.Block{}}
	for e := range extraConds {
		c.isCnd[e] = true
	}
	// condition expressions
	for _, body := range bodies {
		walkOwn(body, func(n ast.Node) bool {
			switch s := n.(type) {
			case *ast.IfStmt:
				c.isCnd[s.Cond] = true
			case *ast.ForStmt:
				if s.Cond != nil {
					c.isCnd[s.Cond] = true
				}
			case *ast.SwitchStmt:
				for _, cl := range s.Body.List {
					for _, e := range cl.(*ast.CaseClause).List {
						c.isCnd[e] = true
						if s.Tag != nil {
							c.conds[e] = s.Tag
						}
					}
				}
			}
			return true
		})
	}
	for _, b := range g.Blocks {
		if !b.Live {
			continue
		}
		for _, s := range b.Succs {
			c.preds[s] = append(c.preds[s], b)
		}
		for i, n := range b.Nodes {
			loc := Loc{b, i}
			walkOwn(n, func(x ast.Node) bool {
				if first, dup := c.loc[x]; !dup {
					c.loc[x] = loc
				} else if first != loc {
					if c.more == nil {
						c.more = map[ast.Node][]Loc{}
					}
					c.more[x] = append(c.more[x], loc)
				}
				return true
			})
		}
	}
	// select communications take effect at the start of their case body
	for _, body := range bodies {
		walkOwn(body, func(n ast.Node) bool {
			sel, ok := n.(*ast.SelectStmt)
			if !ok {
				return true
			}
			for _, cl := range sel.Body.List {
				cc := cl.(*ast.CommClause)
				if cc.Comm == nil {
					continue
				}
				for _, b := range g.Blocks {
					if b.Live && b.Kind == cfg.KindSelectCaseBody && b.Stmt == ast.Stmt(cc) {
						walkOwn(cc.Comm, func(x ast.Node) bool {
							c.loc[x] = Loc{b, -1}
							return true
						})
					}
				}
			}
			return true
		})
	}
	f.cfg = c
	return c
}

// Entry is the location before the first node of the function.
func (c *CFG) Entry() Loc { return Loc{c.G.Blocks[0], -2} }

// LocOf returns the location of a node of the function's own body.
func (c *CFG) LocOf(n ast.Node) Loc {
	if l, ok := c.loc[n]; ok {
		return l
	}
	// climb to an ancestor that is located (e.g. a CaseClause body statement always is;
	// identifiers inside types are not)
	for x := c.F.P.parents[n]; x != nil; x = c.F.P.parents[x] {
		if l, ok := c.loc[x]; ok {
			return l
		}
		if x == ast.Node(c.F.Body) {
			break
		}
	}
	return Loc{}
}

// LocsOf returns every location of a node (more than one only for nodes of helpers spliced in several times).
func (c *CFG) LocsOf(n ast.Node) []Loc {
	l := c.LocOf(n)
	if !l.Valid() {
		return nil
	}
	out := []Loc{l}
	for x := n; x != nil; x = c.F.P.parents[x] {
		if m, ok := c.more[x]; ok {
			out = append(out, m...)
			break
		}
		if _, ok := c.loc[x]; ok {
			break
		}
	}
	return out
}

// Live reports whether the node is in a reachable block.
func (c *CFG) Live(n ast.Node) bool { return c.LocOf(n).Valid() }

// Exits returns the last location of every live block without successors.
// returnsOnly excludes blocks ending in a no-return call (panic).
func (c *CFG) Exits(returnsOnly bool) []Loc {
	var out []Loc
	for _, b := range c.G.Blocks {
		if !b.Live || len(b.Succs) != 0 {
			continue
		}
		if len(b.Nodes) == 0 {
			// the fall-off block after the last case of a select without default: go/cfg
			// leaves it without successors; control never gets there (the select blocks)
			continue
		}
		last := b.Nodes[len(b.Nodes)-1]
		if _, isRet := last.(*ast.ReturnStmt); !isRet && returnsOnly {
			continue
		}
		out = append(out, Loc{b, len(b.Nodes) - 1})
	}
	return out
}

// Returns lists the return statements (explicit and materialised implicit ones).
func (c *CFG) Returns() []*ast.ReturnStmt {
	var out []*ast.ReturnStmt
	for _, l := range c.Exits(true) {
		if l.I >= 0 {
			out = append(out, l.B.Nodes[l.I].(*ast.ReturnStmt))
		}
	}
	return out
}

// Cond returns the condition expression of a two-way block (nil when the block is not a
// boolean conditional: select, range and type-switch blocks branch without a condition).
func (c *CFG) Cond(b *cfg.Block) ast.Expr {
	if len(b.Succs) != 2 || len(b.Nodes) == 0 {
		return nil
	}
	e, ok := b.Nodes[len(b.Nodes)-1].(ast.Expr)
	if !ok || !c.isCnd[e] {
		return nil
	}
	return e
}

// ReachOpt restricts a reachability query.
type ReachOpt struct {
	CutLoc  func(Loc) bool                 // paths may not pass (execute) these locations
	CutEdge func(b *cfg.Block, i int) bool // paths may not take these edges
}

// Reach reports whether some location accepted by to is reachable from 'from'
// (exclusive) under opt; it returns the block path of a witness.
func (c *CFG) Reach(from Loc, to func(Loc) bool, opt ReachOpt) (bool, []Loc) {
	type item struct {
		l    Loc
		prev int
	}
	var items []item
	seenBlock := map[*cfg.Block]bool{}
	witness := func(i int) []Loc {
		var w []Loc
		for ; i >= 0; i = items[i].prev {
			w = append(w, items[i].l)
		}
		for a, b := 0, len(w)-1; a < b; a, b = a+1, b-1 {
			w[a], w[b] = w[b], w[a]
		}
		return w
	}
	// scan a block from index start; returns found
	items = append(items, item{from, -1})
	for qi := 0; qi < len(items); qi++ {
		it := items[qi]
		b := it.l.B
		blocked := false
		for i := it.l.I + 1; i < len(b.Nodes); i++ {
			if i < -1 {
				continue
			}
			l := Loc{b, i}
			if i == -1 {
				// start-of-block pseudo location
				if opt.CutLoc != nil && opt.CutLoc(l) {
					blocked = true
					break
				}
				if to(l) {
					items = append(items, item{l, qi})
					return true, witness(len(items) - 1)
				}
				continue
			}
			if opt.CutLoc != nil && opt.CutLoc(l) {
				blocked = true
				break
			}
			if to(l) {
				items = append(items, item{l, qi})
				return true, witness(len(items) - 1)
			}
		}
		if blocked {
			continue
		}
		for si, s := range b.Succs {
			if opt.CutEdge != nil && opt.CutEdge(b, si) {
				continue
			}
			if seenBlock[s] {
				continue
			}
			seenBlock[s] = true
			items = append(items, item{Loc{s, -2}, qi})
		}
	}
	return false, nil
}

// ReachAll returns the set of blocks reachable from 'from' (exclusive) under opt, and for the
// starting block whether its tail was traversed.
func (c *CFG) ReachBlocks(from Loc, opt ReachOpt) map[*cfg.Block]bool {
	out := map[*cfg.Block]bool{}
	c.Reach(from, func(l Loc) bool {
		if l.I <= 0 {
			out[l.B] = true
		}
		return false
	}, opt)
	return out
}

// LocSet builds a membership predicate.
func LocSet(ls ...Loc) func(Loc) bool {
	m := map[Loc]bool{}
	// a node that stands in several blocks (the body of a helper spliced in at each of its
	// calls, a deferred call run at each return of a spliced helper) is the same location
	// wherever it stands
	nodes := map[ast.Node]bool{}
	for _, l := range ls {
		m[l] = true
		if l.B != nil && l.I >= 0 && l.I < len(l.B.Nodes) {
			nodes[l.B.Nodes[l.I]] = true
		}
	}
	return func(l Loc) bool {
		if m[l] {
			return true
		}
		if l.B != nil && l.I >= 0 && l.I < len(l.B.Nodes) {
			return nodes[l.B.Nodes[l.I]]
		}
		return false
	}
}

// DescribePath renders a witness path.
func (c *CFG) DescribePath(w []Loc) []string {
	var out []string
	for _, l := range w {
		pos := token.NoPos
		if l.I >= 0 && l.I < len(l.B.Nodes) {
			pos = l.B.Nodes[l.I].Pos()
		} else if len(l.B.Nodes) > 0 {
			pos = l.B.Nodes[0].Pos()
		} else if l.B.Stmt != nil {
			pos = l.B.Stmt.Pos()
		}
		out = append(out, fmt.Sprintf("block %d (%s) %s", l.B.Index, l.B.Kind, c.F.P.ShortPos(pos)))
	}
	return out
}

// ---------------------------------------------------------------------------
// Facts

// Fact is one leaf of a branch condition together with its truth on an edge.
type Fact struct {
	C     *CFG
	B     *cfg.Block
	Succ  int
	Expr  ast.Expr // leaf (comparison, call, identifier ...); for a tag switch the case expression
	Tag   ast.Expr // non-nil for `switch tag { case Expr: }`
	Truth bool
}

func (f Fact) String() string {
	s := ExprStr(f.Expr)
	if f.Tag != nil {
		s = ExprStr(f.Tag) + " == " + s
	}
	if !f.Truth {
		s = "!(" + s + ")"
	}
	return s
}

func (f Fact) Pos() token.Pos { return f.Expr.Pos() }

// Rel returns the fact as a comparison X Op Y with the truth folded into Op.
func (f Fact) Rel() (x ast.Expr, op token.Token, y ast.Expr, ok bool) {
	if f.Tag != nil {
		op = token.EQL
		if !f.Truth {
			op = token.NEQ
		}
		return f.Tag, op, f.Expr, true
	}
	b, isBin := Unparen(f.Expr).(*ast.BinaryExpr)
	if !isBin {
		return nil, 0, nil, false
	}
	switch b.Op {
	case token.EQL, token.NEQ, token.LSS, token.LEQ, token.GTR, token.GEQ:
	default:
		return nil, 0, nil, false
	}
	op = b.Op
	if !f.Truth {
		op = negate(op)
	}
	return b.X, op, b.Y, true
}

// EdgeFacts returns the facts that hold on edge succ (0 true, 1 false) of block b.
func (c *CFG) EdgeFacts(b *cfg.Block, succ int) []Fact {
	cond := c.Cond(b)
	if cond == nil {
		return nil
	}
	var out []Fact
	if tag := c.conds[cond]; tag != nil {
		return []Fact{{C: c, B: b, Succ: succ, Expr: cond, Tag: tag, Truth: succ == 0}}
	}
	var rec func(e ast.Expr, truth bool)
	rec = func(e ast.Expr, truth bool) {
		e = Unparen(e)
		switch x := e.(type) {
		case *ast.UnaryExpr:
			if x.Op == token.NOT {
				rec(x.X, !truth)
				return
			}
		case *ast.BinaryExpr:
			if x.Op == token.LAND {
				if truth {
					rec(x.X, true)
					rec(x.Y, true)
				}
				return
			}
			if x.Op == token.LOR {
				if !truth {
					rec(x.X, false)
					rec(x.Y, false)
				}
				return
			}
		}
		out = append(out, Fact{C: c, B: b, Succ: succ, Expr: e, Truth: truth})
		// a single-assignment boolean local with a pure definition also states its definition
		if d := PureBoolDef(e); d != nil {
			rec(d, truth)
		}
	}
	rec(cond, succ == 0)
	return out
}

// EdgeDisj returns the disjunctive facts of an edge: each group is a set of leaf facts of
// which at least one holds on the edge (the false edge of `a && b`, the true edge of `a || b`).
// Groups containing a non-leaf member are omitted.
func (c *CFG) EdgeDisj(b *cfg.Block, succ int) [][]Fact {
	cond := c.Cond(b)
	if cond == nil || c.conds[cond] != nil {
		return nil
	}
	var groups [][]Fact
	var rec func(e ast.Expr, truth bool)
	leaves := func(e ast.Expr, truth bool, op token.Token) ([]Fact, bool) {
		// flatten a chain of op (LAND when truth==false, LOR when truth==true) into leaves
		var out []Fact
		ok := true
		var fl func(e ast.Expr, truth bool)
		fl = func(e ast.Expr, truth bool) {
			e = Unparen(e)
			switch x := e.(type) {
			case *ast.UnaryExpr:
				if x.Op == token.NOT {
					fl(x.X, !truth)
					return
				}
			case *ast.BinaryExpr:
				// !(a && b) = !a || !b ; (a || b)
				if (x.Op == token.LAND && !truth) || (x.Op == token.LOR && truth) {
					fl(x.X, truth)
					fl(x.Y, truth)
					return
				}
				if x.Op == token.LAND || x.Op == token.LOR {
					ok = false
					return
				}
			case *ast.Ident:
				// a bool local that names a disjunction/conjunction stands for it
				if d := PureBoolDef(x); d != nil {
					if bd, isB := Unparen(d).(*ast.BinaryExpr); isB && (bd.Op == token.LAND || bd.Op == token.LOR) {
						fl(d, truth)
						return
					}
				}
			}
			out = append(out, Fact{C: c, B: b, Succ: succ, Expr: e, Truth: truth})
		}
		fl(e, truth)
		return out, ok
	}
	rec = func(e ast.Expr, truth bool) {
		e = Unparen(e)
		switch x := e.(type) {
		case *ast.UnaryExpr:
			if x.Op == token.NOT {
				rec(x.X, !truth)
				return
			}
		case *ast.BinaryExpr:
			if (x.Op == token.LAND && truth) || (x.Op == token.LOR && !truth) {
				rec(x.X, truth)
				rec(x.Y, truth)
				return
			}
			if (x.Op == token.LAND && !truth) || (x.Op == token.LOR && truth) {
				if g, ok := leaves(e, truth, x.Op); ok && len(g) > 1 {
					groups = append(groups, g)
				}
				return
			}
		case *ast.Ident:
			if d := PureBoolDef(x); d != nil {
				if bd, isB := Unparen(d).(*ast.BinaryExpr); isB && (bd.Op == token.LAND || bd.Op == token.LOR) {
					rec(d, truth)
				}
			}
		}
	}
	rec(cond, succ == 0)
	return groups
}

// Guard describes a dominating edge found by Guarded.
type Guard struct {
	Fact Fact
}

// Guarded reports whether every path from the function entry to target takes an edge
// carrying a fact accepted by pred.
func (c *CFG) Guarded(target Loc, pred func(Fact) bool) (bool, *Guard) {
	return c.GuardedFrom(c.Entry(), target, pred)
}

// GuardedFrom is Guarded for paths starting at from.
func (c *CFG) GuardedFrom(from, target Loc, pred func(Fact) bool) (bool, *Guard) {
	if !target.Valid() {
		return false, nil
	}
	var first *Guard
	for _, t := range c.Clones(target) {
		ok, g := c.guardedFromExact(from, t, pred)
		if !ok {
			return false, nil
		}
		if first == nil {
			first = g
		}
	}
	return true, first
}

// exactLoc accepts exactly one location (LocSet also accepts the other standing places of its node).
func exactLoc(t Loc) func(Loc) bool { return func(l Loc) bool { return l == t } }

// Clones returns the locations at which the node of target stands: target itself, plus its
// copies when it belongs to a helper spliced in at several calls (or is a deferred call of a
// spliced helper run at several returns).
func (c *CFG) Clones(target Loc) []Loc {
	out := []Loc{target}
	if len(c.more) == 0 || target.B == nil || target.I < 0 || target.I >= len(target.B.Nodes) {
		return out
	}
	n := target.B.Nodes[target.I]
	for _, b := range c.G.Blocks {
		if !b.Live {
			continue
		}
		for i, x := range b.Nodes {
			if x == n && (b != target.B || i != target.I) {
				out = append(out, Loc{b, i})
			}
		}
	}
	return out
}

func (c *CFG) guardedFromExact(from, target Loc, pred func(Fact) bool) (bool, *Guard) {
	toT := exactLoc(target)
	for _, b := range c.G.Blocks {
		if !b.Live || c.Cond(b) == nil {
			continue
		}
		for si := 0; si < 2; si++ {
			var hit *Fact
			for _, f := range c.EdgeFacts(b, si) {
				if pred(f) {
					ff := f
					hit = &ff
					break
				}
			}
			if hit == nil {
				continue
			}
			bb, ss := b, si
			reach, _ := c.Reach(from, toT, ReachOpt{CutEdge: func(x *cfg.Block, i int) bool { return x == bb && i == ss }})
			if !reach {
				return true, &Guard{Fact: *hit}
			}
		}
	}
	return false, nil
}

// GuardedBySet reports whether every path from entry to target takes at least one of the
// edges carrying a fact accepted by pred (a disjunction of guards: e.g. two early-return
// tests that each establish the fact on a different branch).
func (c *CFG) GuardedBySet(target Loc, pred func(Fact) bool) bool {
	if !target.Valid() {
		return false
	}
	type edge struct {
		b *cfg.Block
		i int
	}
	cut := map[edge]bool{}
	for _, b := range c.G.Blocks {
		if !b.Live || c.Cond(b) == nil {
			continue
		}
		for si := 0; si < 2; si++ {
			for _, f := range c.EdgeFacts(b, si) {
				if pred(f) {
					cut[edge{b, si}] = true
				}
			}
			for _, g := range c.EdgeDisj(b, si) {
				all := true
				for _, f := range g {
					if !pred(f) {
						all = false
					}
				}
				if all {
					cut[edge{b, si}] = true
				}
			}
		}
	}
	if len(cut) == 0 {
		return false
	}
	reach, _ := c.Reach(c.Entry(), LocSet(target), ReachOpt{CutEdge: func(x *cfg.Block, i int) bool { return cut[edge{x, i}] }})
	return !reach
}

// ErrSource finds the call whose error result the variable errObj holds when the
// condition of block b is evaluated: the nearest preceding assignment of errObj in b
// (or in its chain of unique predecessors).
func (c *CFG) ErrSource(b *cfg.Block, errObj types.Object) *ast.CallExpr {
	if errObj == nil || errObj.Type() == nil || errObj.Type().String() != "error" {
		return nil
	}
	info := c.F.Info()
	start := b
	seen := map[*cfg.Block]bool{}
	for b != nil && !seen[b] {
		seen[b] = true
		for i := len(b.Nodes) - 1; i >= 0; i-- {
			switch s := b.Nodes[i].(type) {
			case *ast.AssignStmt:
				if inlinedAssign[s] {
					continue // the helper's returns are the assignments
				}
				for li, l := range s.Lhs {
					if IsObj(info, l, errObj) {
						var rhs ast.Expr
						if len(s.Rhs) == 1 {
							rhs = s.Rhs[0]
						} else if li < len(s.Rhs) {
							rhs = s.Rhs[li]
						}
						call, _ := Unparen(rhs).(*ast.CallExpr)
						return tailCallOf(info, call)
					}
				}
			case *ast.ValueSpec:
				for li, id := range s.Names {
					if o := info.Defs[id]; o != nil && sameObj(o, errObj) {
						var rhs ast.Expr
						if len(s.Values) == 1 {
							rhs = s.Values[0]
						} else if li < len(s.Values) {
							rhs = s.Values[li]
						}
						call, _ := Unparen(rhs).(*ast.CallExpr)
						return call
					}
				}
			}
		}
		ps := c.preds[b]
		if len(ps) != 1 {
			return c.reachingErrDef(start, errObj)
		}
		b = ps[0]
	}
	return nil
}

// reachingErrDef: the unique assignment of errObj that dominates the end of block b with
// no other assignment of errObj on any path from it to b.
func (c *CFG) reachingErrDef(b *cfg.Block, errObj types.Object) *ast.CallExpr {
	info := c.F.Info()
	type def struct {
		loc  Loc
		call *ast.CallExpr
	}
	var defs []def
	c.F.Walk(func(n ast.Node) bool {
		as, ok := n.(*ast.AssignStmt)
		if !ok {
			return true
		}
		for li, l := range as.Lhs {
			if IsObj(info, l, errObj) {
				var rhs ast.Expr
				if len(as.Rhs) == 1 {
					rhs = as.Rhs[0]
				} else if li < len(as.Rhs) {
					rhs = as.Rhs[li]
				}
				call, _ := Unparen(rhs).(*ast.CallExpr)
				defs = append(defs, def{c.LocOf(as), call})
			}
		}
		return true
	})
	target := Loc{b, len(b.Nodes) - 1}
	var best *def
	for i := range defs {
		d := &defs[i]
		if !d.loc.Valid() || !c.Dominates(d.loc, target) {
			continue
		}
		clean := true
		for j := range defs {
			o := &defs[j]
			if o == d || !o.loc.Valid() {
				continue
			}
			r1, _ := c.Reach(d.loc, LocSet(o.loc), ReachOpt{CutLoc: LocSet(target)})
			r2, _ := c.Reach(o.loc, LocSet(target), ReachOpt{CutLoc: LocSet(d.loc)})
			if r1 && r2 {
				clean = false
			}
		}
		if clean {
			if best != nil {
				return nil
			}
			best = d
		}
	}
	if best == nil {
		return nil
	}
	return best.call
}

// isNilIdent reports whether e is the predeclared nil.
func isNilIdent(info *types.Info, e ast.Expr) bool {
	id, ok := Unparen(e).(*ast.Ident)
	if !ok {
		return false
	}
	_, isNil := info.Uses[id].(*types.Nil)
	return isNil
}

// NilFact decomposes `x == nil` / `x != nil` (truth folded): returns x and whether x is nil.
func (f Fact) NilFact() (x ast.Expr, isNil bool, ok bool) {
	a, op, b, isRel := f.Rel()
	if !isRel || (op != token.EQL && op != token.NEQ) {
		return nil, false, false
	}
	info := f.C.F.Info()
	switch {
	case isNilIdent(info, b):
		return a, op == token.EQL, true
	case isNilIdent(info, a):
		return b, op == token.EQL, true
	}
	return nil, false, false
}

// ErrNilOf reports whether the fact establishes that the error returned by a call
// matching pats is nil (want=true) or non-nil (want=false).
func (f Fact) ErrOf(want bool, pats ...string) bool {
	x, isNil, ok := f.NilFact()
	if !ok || isNil != want {
		return false
	}
	info := f.C.F.Info()
	if call, ok := Unparen(x).(*ast.CallExpr); ok {
		return NameIn(CalleeName(info, call), pats...)
	}
	obj := ObjOf(info, x)
	if obj == nil {
		return false
	}
	src := f.C.ErrSource(f.B, obj)
	if src == nil {
		return false
	}
	return NameIn(CalleeName(info, src), pats...)
}

// ErrCall returns the call whose error the fact tests, and whether the fact says it is nil.
func (f Fact) ErrCall() (call *ast.CallExpr, isNil bool, ok bool) {
	x, isNil, ok := f.NilFact()
	if !ok {
		return nil, false, false
	}
	info := f.C.F.Info()
	if call, ok := Unparen(x).(*ast.CallExpr); ok {
		return call, isNil, true
	}
	obj := ObjOf(info, x)
	if obj == nil {
		return nil, false, false
	}
	src := f.C.ErrSource(f.B, obj)
	if src == nil {
		return nil, false, false
	}
	return src, isNil, true
}

// CallFact matches a leaf that is a boolean call (possibly negated) to one of pats.
func (f Fact) CallFact(pats ...string) (call *ast.CallExpr, truth bool, ok bool) {
	if f.Tag != nil {
		return nil, false, false
	}
	c, isCall := Unparen(f.Expr).(*ast.CallExpr)
	if !isCall || !NameIn(CalleeName(f.C.F.Info(), c), pats...) {
		return nil, false, false
	}
	return c, f.Truth, true
}

// BoolVar matches a leaf that is a plain boolean variable or field.
func (f Fact) BoolVar() (obj types.Object, truth bool, ok bool) {
	if f.Tag != nil {
		return nil, false, false
	}
	switch Unparen(f.Expr).(type) {
	case *ast.Ident, *ast.SelectorExpr:
		o := ObjOf(f.C.F.Info(), f.Expr)
		if o == nil {
			return nil, false, false
		}
		return o, f.Truth, true
	}
	return nil, false, false
}

// IntCmp normalises `x op const` (either operand order): the fact states x op c.
func (f Fact) IntCmp() (x ast.Expr, op token.Token, c int64, ok bool) {
	a, o, b, isRel := f.Rel()
	if !isRel {
		return nil, 0, 0, false
	}
	info := f.C.F.Info()
	if v, isC := ConstInt(info, b); isC {
		return a, o, v, true
	}
	if v, isC := ConstInt(info, a); isC {
		return b, flip(o), v, true
	}
	return nil, 0, 0, false
}

// ImpliesAtMost reports whether "x op c" implies x <= bound.
func ImpliesAtMost(op token.Token, c, bound int64) bool {
	switch op {
	case token.LEQ, token.EQL:
		return c <= bound
	case token.LSS:
		return c-1 <= bound
	}
	return false
}

// ImpliesAtLeast reports whether "x op c" implies x >= bound.
func ImpliesAtLeast(op token.Token, c, bound int64) bool {
	switch op {
	case token.GEQ, token.EQL:
		return c >= bound
	case token.GTR:
		return c+1 >= bound
	case token.NEQ:
		return false
	}
	return false
}

// EqFact matches x == y / x != y (truth folded) for non-nil operands.
func (f Fact) EqFact() (x, y ast.Expr, equal bool, ok bool) {
	a, op, b, isRel := f.Rel()
	if !isRel || (op != token.EQL && op != token.NEQ) {
		return nil, nil, false, false
	}
	return a, b, op == token.EQL, true
}

// ---------------------------------------------------------------------------
// PATH and ONCE

// NodesWhere returns the locations of own-body nodes satisfying pred, in source order.
func (c *CFG) NodesWhere(pred func(n ast.Node) bool) []Loc {
	var out []Loc
	seen := map[Loc]bool{}
	c.F.Walk(func(n ast.Node) bool {
		if pred(n) {
			l := c.LocOf(n)
			if l.Valid() && !seen[l] {
				seen[l] = true
				out = append(out, l)
			}
		}
		return true
	})
	return out
}

// CallLocs returns the locations of calls matching pats.  Calls that are the operand of a
// defer statement are returned separately.
func (c *CFG) CallLocs(pats ...string) (direct []Loc, deferred []Loc) {
	info := c.F.Info()
	c.F.Walk(func(n ast.Node) bool {
		call, ok := n.(*ast.CallExpr)
		if !ok || !NameIn(CalleeName(info, call), pats...) {
			return true
		}
		l := c.LocOf(call)
		if !l.Valid() {
			return true
		}
		if d, ok := c.F.P.parents[call].(*ast.DeferStmt); ok && d.Call == call {
			deferred = append(deferred, l)
		} else {
			direct = append(direct, l)
		}
		return true
	})
	return
}

// CallLocsThrough is the direct part of CallLocs plus the calls of closures held in
// single-assignment locals whose body runs one of pats on every path to its exits (a local
// closure folding duplicated code stands for the calls it always makes).
func (c *CFG) CallLocsThrough(pats ...string) []Loc {
	out, _ := c.CallLocs(pats...)
	info := c.F.Info()
	always := map[*Func]bool{}
	var runsAlways func(g *Func, depth int) bool
	runsAlways = func(g *Func, depth int) bool {
		if v, ok := always[g]; ok {
			return v
		}
		always[g] = false
		if depth > 2 {
			return false
		}
		gc := g.CFG()
		via := gc.callLocsThrough(runsAlways, depth+1, pats...)
		ok, _ := gc.MustPass(gc.Entry(), LocSet(gc.Exits(false)...), LocSet(via...))
		always[g] = ok && len(via) > 0
		return always[g]
	}
	c.F.Walk(func(n ast.Node) bool {
		call, ok := n.(*ast.CallExpr)
		if !ok {
			return true
		}
		if _, isIdent := Unparen(call.Fun).(*ast.Ident); !isIdent {
			return true
		}
		if d, isDefer := c.F.P.parents[call].(*ast.DeferStmt); isDefer && d.Call == call {
			return true
		}
		if g := c.F.P.closureOfLocal(c.F, call.Fun); g != nil && runsAlways(g, 0) {
			if l := c.LocOf(call); l.Valid() {
				out = append(out, l)
			}
		}
		return true
	})
	_ = info
	return out
}

func (c *CFG) callLocsThrough(runsAlways func(*Func, int) bool, depth int, pats ...string) []Loc {
	out, _ := c.CallLocs(pats...)
	c.F.Walk(func(n ast.Node) bool {
		call, ok := n.(*ast.CallExpr)
		if !ok {
			return true
		}
		if _, isIdent := Unparen(call.Fun).(*ast.Ident); !isIdent {
			return true
		}
		if g := c.F.P.closureOfLocal(c.F, call.Fun); g != nil && g != c.F && runsAlways(g, depth) {
			if l := c.LocOf(call); l.Valid() {
				out = append(out, l)
			}
		}
		return true
	})
	return out
}

// MustPass reports whether every path from 'from' to a location accepted by 'to' executes a
// location accepted by via; otherwise it returns a witness path.
func (c *CFG) MustPass(from Loc, to func(Loc) bool, via func(Loc) bool) (bool, []Loc) {
	reach, w := c.Reach(from, to, ReachOpt{CutLoc: via})
	return !reach, w
}

// Dominates reports whether every path from the entry to target executes d.
func (c *CFG) Dominates(d, target Loc) bool {
	if d == target {
		return true
	}
	reach, _ := c.Reach(c.Entry(), LocSet(target), ReachOpt{CutLoc: LocSet(d)})
	return !reach
}

// MustPassToExit: every path from 'from' to any exit executes a call matching pats, or a
// `defer` of such a call was registered on every path before (or is registered on the way).
// Calls inside deferred literals count when the literal is deferred.
func (c *CFG) MustPassToExit(from Loc, returnsOnly bool, via []Loc, deferredVia []Loc) (bool, []Loc) {
	for _, d := range deferredVia {
		if from == c.Entry() {
			continue
		}
		if c.Dominates(d, from) {
			return true, nil
		}
	}
	all := append(append([]Loc{}, via...), deferredVia...)
	return c.MustPass(from, LocSet(c.Exits(returnsOnly)...), LocSet(all...))
}

// backEdges computes DFS back edges.
func (c *CFG) backEdges() map[[2]int32]bool {
	back := map[[2]int32]bool{}
	state := map[*cfg.Block]int{}
	var dfs func(b *cfg.Block)
	dfs = func(b *cfg.Block) {
		state[b] = 1
		for _, s := range b.Succs {
			switch state[s] {
			case 0:
				dfs(s)
			case 1:
				back[[2]int32{b.Index, s.Index}] = true
			}
		}
		state[b] = 2
	}
	dfs(c.G.Blocks[0])
	return back
}

// CountOnPaths computes the minimum and maximum number of locations accepted by hit that
// are executed on any loop-free path from the entry to each exit accepted by exit.
// inLoop is true when a hit lies on a cycle from which the cycle can be continued.
func (c *CFG) CountOnPaths(hit func(Loc) bool, returnsOnly bool) (min, max int, inLoop bool, minExit, maxExit Loc) {
	back := c.backEdges()
	count := map[*cfg.Block]int{}
	for _, b := range c.G.Blocks {
		if !b.Live {
			continue
		}
		n := 0
		for i := -1; i < len(b.Nodes); i++ {
			if hit(Loc{b, i}) {
				n++
			}
		}
		count[b] = n
		if n > 0 {
			// on a cycle?
			reach, _ := c.Reach(Loc{b, len(b.Nodes) - 1}, func(l Loc) bool { return l.B == b && l.I <= 0 }, ReachOpt{})
			if reach {
				inLoop = true
			}
		}
	}
	type mm struct{ lo, hi int }
	memo := map[*cfg.Block]*mm{}
	var order []*cfg.Block
	visited := map[*cfg.Block]bool{}
	var topo func(b *cfg.Block)
	topo = func(b *cfg.Block) {
		visited[b] = true
		for _, s := range b.Succs {
			if back[[2]int32{b.Index, s.Index}] || visited[s] {
				continue
			}
			topo(s)
		}
		order = append(order, b)
	}
	topo(c.G.Blocks[0])
	memo[c.G.Blocks[0]] = &mm{count[c.G.Blocks[0]], count[c.G.Blocks[0]]}
	for i := len(order) - 1; i >= 0; i-- {
		b := order[i]
		cur := memo[b]
		if cur == nil {
			continue
		}
		for _, s := range b.Succs {
			if back[[2]int32{b.Index, s.Index}] {
				continue
			}
			lo, hi := cur.lo+count[s], cur.hi+count[s]
			if m := memo[s]; m == nil {
				memo[s] = &mm{lo, hi}
			} else {
				if lo < m.lo {
					m.lo = lo
				}
				if hi > m.hi {
					m.hi = hi
				}
			}
		}
	}
	min, max = 1<<30, -1
	for _, e := range c.Exits(returnsOnly) {
		m := memo[e.B]
		if m == nil {
			continue
		}
		if m.lo < min {
			min, minExit = m.lo, e
		}
		if m.hi > max {
			max, maxExit = m.hi, e
		}
	}
	if max < 0 {
		min, max = 0, 0
	}
	return
}

// Block re-exports the go/cfg block type.
type Block = cfg.Block

// FirstLocIn returns the location of the first (in source order) located node inside n.
func (c *CFG) FirstLocIn(n ast.Node) Loc {
	var out Loc
	walkOwn(n, func(x ast.Node) bool {
		if out.Valid() {
			return false
		}
		if l, ok := c.loc[x]; ok {
			out = l
			return false
		}
		return true
	})
	return out
}

// tailCallOf sees through a helper read in place whose one return statement hands back the
// result of a single call (`func h(...) error { return x.f(...) }`): the error of h(...) is
// the error of x.f(...).
func tailCallOf(info *types.Info, call *ast.CallExpr) *ast.CallExpr {
	for i := 0; i < 3 && call != nil && theProg != nil; i++ {
		h := theProg.byName[CalleeName(info, call)]
		if h == nil || h.Adopter == nil || h.Decl == nil {
			return call
		}
		var rets []*ast.ReturnStmt
		walkOwn(h.Body, func(n ast.Node) bool {
			if r, ok := n.(*ast.ReturnStmt); ok {
				rets = append(rets, r)
			}
			return true
		})
		if len(rets) != 1 || len(rets[0].Results) != 1 {
			return call
		}
		inner, ok := Unparen(rets[0].Results[0]).(*ast.CallExpr)
		if !ok {
			return call
		}
		call = inner
	}
	return call
}
