package eng

import (
	"go/ast"
	"go/token"
	"go/types"
	"strings"
)

// NILPB: nil-safety of generated protobuf pointers.
//
// A value is *possibly nil* when it is
//   (a) the result of a generated getter returning a pointer to a protobuf message
//       (Message.GetRecord()),
//   (b) a read of a singular message-typed field of a protobuf message (m.Record),
//   (c) the pointer result of a repository function returning (*pbMessage, ..., error)
//       that has a `return nil, ..., nil` path (absent value without error), or
//   (d) a local variable assigned from (a)-(c).
// Selecting a FIELD through such a value (x.Value, *x) needs a dominating `x != nil` fact.
// Calling a method on it is fine: generated getters and proto helpers are nil-safe.

// PBPackages are the packages whose struct types are protobuf messages.
var PBPackages = []string{ModPath + "/pb", "github.com/libp2p/go-libp2p-record/pb"}

func isPBMessagePtr(t types.Type) bool {
	p, ok := t.(*types.Pointer)
	if !ok {
		return false
	}
	n, ok := p.Elem().(*types.Named)
	if !ok || n.Obj().Pkg() == nil {
		return false
	}
	if _, isStruct := n.Underlying().(*types.Struct); !isStruct {
		return false
	}
	for _, pk := range PBPackages {
		if n.Obj().Pkg().Path() == pk {
			return true
		}
	}
	return false
}

// NilPBSite is one dereference of a possibly-nil protobuf pointer.
type NilPBSite struct {
	F       *Func
	Sel     ast.Expr // the dereferencing expression (selector or star)
	Base    ast.Expr // the possibly-nil operand
	Source  string   // why the operand may be nil
	Guarded bool
}

// MayReturnNilNil lists repository functions returning (*pbMessage, ..., error) with a
// `return nil, ..., nil` statement.
func (p *Prog) MayReturnNilNil() map[*types.Func]bool {
	out := map[*types.Func]bool{}
	for _, f := range p.funcs {
		if f.Obj == nil {
			continue
		}
		sig := f.Obj.Type().(*types.Signature)
		r := sig.Results()
		if r.Len() < 2 || !isPBMessagePtr(r.At(0).Type()) {
			continue
		}
		if types.TypeString(r.At(r.Len()-1).Type(), nil) != "error" {
			continue
		}
		info := f.Info()
		f.Walk(func(n ast.Node) bool {
			ret, ok := n.(*ast.ReturnStmt)
			if !ok || len(ret.Results) != r.Len() {
				return true
			}
			if isNilIdent(info, ret.Results[0]) && isNilIdent(info, ret.Results[len(ret.Results)-1]) {
				out[f.Obj] = true
			}
			return true
		})
	}
	return out
}

// NilPB enumerates all dereferences of possibly-nil protobuf pointers in non-generated
// repository code and decides for each whether a nil test dominates it.
func (p *Prog) NilPB() (sites []NilPBSite, sources int) {
	nilnil := p.MayReturnNilNil()
	for _, f := range p.funcs {
		fname := p.Fset.Position(f.Pos()).Filename
		if strings.HasSuffix(fname, ".pb.go") {
			continue
		}
		info := f.Info()
		// classify an expression as a possibly-nil source
		srcOf := func(e ast.Expr) string {
			e = Unparen(e)
			switch x := e.(type) {
			case *ast.CallExpr:
				tv, ok := info.Types[x]
				if !ok {
					return ""
				}
				var rt types.Type = tv.Type
				if tup, isTup := rt.(*types.Tuple); isTup {
					if tup.Len() == 0 {
						return ""
					}
					rt = tup.At(0).Type()
				}
				if !isPBMessagePtr(rt) {
					return ""
				}
				obj, _ := CalleeObj(info, x).(*types.Func)
				if obj == nil {
					return ""
				}
				if nilnil[obj.Origin()] {
					return "result of " + Short(obj.FullName()) + " (may return nil, nil)"
				}
				if strings.HasPrefix(obj.Name(), "Get") && obj.Pkg() != nil && isPBPkg(obj.Pkg().Path()) {
					return "generated getter " + Short(obj.FullName())
				}
			case *ast.SelectorExpr:
				sel, ok := info.Selections[x]
				if !ok || sel.Kind() != types.FieldVal {
					return ""
				}
				if !isPBMessagePtr(sel.Type()) {
					return ""
				}
				if v := sel.Obj(); v.Pkg() != nil && isPBPkg(v.Pkg().Path()) {
					return "singular message field " + FieldName(info, x)
				}
			}
			return ""
		}
		// local variables fed by possibly-nil sources
		vars := map[types.Object]string{}
		f.Walk(func(n ast.Node) bool {
			switch s := n.(type) {
			case *ast.AssignStmt:
				if len(s.Rhs) == 1 && len(s.Lhs) >= 1 {
					if src := srcOf(s.Rhs[0]); src != "" {
						if id, ok := s.Lhs[0].(*ast.Ident); ok && id.Name != "_" {
							if o := ObjOf(info, id); o != nil {
								vars[o] = src
								sources++
							}
						}
					}
				} else if len(s.Rhs) == len(s.Lhs) {
					for i := range s.Rhs {
						if src := srcOf(s.Rhs[i]); src != "" {
							if id, ok := s.Lhs[i].(*ast.Ident); ok && id.Name != "_" {
								if o := ObjOf(info, id); o != nil {
									vars[o] = src
									sources++
								}
							}
						}
					}
				}
			case *ast.ValueSpec:
				if len(s.Values) == 1 && len(s.Names) >= 1 {
					if src := srcOf(s.Values[0]); src != "" {
						if o := info.Defs[s.Names[0]]; o != nil {
							vars[o] = src
							sources++
						}
					}
				}
			}
			return true
		})
		check := func(deref ast.Expr, base ast.Expr) {
			base = Unparen(base)
			src := srcOf(base)
			var obj types.Object
			if src == "" {
				if id, ok := base.(*ast.Ident); ok {
					obj = ObjOf(info, id)
					src = vars[obj]
				}
			} else {
				sources++
			}
			if src == "" {
				return
			}
			c := f.CFG()
			ok, _ := c.Guarded(c.LocOf(deref), func(ft Fact) bool {
				x, isNil, isNilFact := ft.NilFact()
				if !isNilFact || isNil {
					return false
				}
				if obj != nil {
					return IsObj(info, x, obj)
				}
				return SameExpr(info, x, base)
			})
			// a nil test may also live in an enclosing function when a literal closes over the variable
			if !ok && obj != nil && f.Parent != nil {
				ok = guardedInParents(f, obj)
			}
			sites = append(sites, NilPBSite{F: f, Sel: deref, Base: base, Source: src, Guarded: ok})
		}
		f.Walk(func(n ast.Node) bool {
			switch x := n.(type) {
			case *ast.SelectorExpr:
				sel, ok := info.Selections[x]
				if !ok || sel.Kind() != types.FieldVal {
					return true
				}
				// an assignment TO a singular field of a non-nil message is not a dereference of the field
				check(x, x.X)
			case *ast.StarExpr:
				if tv, ok := info.Types[x]; ok && !tv.IsType() {
					check(x, x.X)
				}
			}
			return true
		})
	}
	return
}

func isPBPkg(path string) bool {
	for _, pk := range PBPackages {
		if path == pk {
			return true
		}
	}
	return false
}

// guardedInParents: the literal f is nested at a location of its parent that is dominated
// by `obj != nil`.
func guardedInParents(f *Func, obj types.Object) bool {
	for g := f; g.Parent != nil; g = g.Parent {
		pc := g.Parent.CFG()
		info := g.Parent.Info()
		ok, _ := pc.Guarded(pc.LocOf(g.Lit), func(ft Fact) bool {
			x, isNil, isNilFact := ft.NilFact()
			return isNilFact && !isNil && IsObj(info, x, obj)
		})
		if ok {
			return true
		}
	}
	return false
}

var _ = token.NoPos
