package eng

import (
	"go/ast"
	"go/token"
	"go/types"
	"sort"

	"golang.org/x/tools/go/cfg"
)

// Atomizer maps a leaf of a boolean condition to a named atom and its polarity
// (positive=false means the leaf states the negation of the atom).  ok=false: unknown leaf.
type Atomizer func(leaf ast.Expr) (name string, positive bool, ok bool)

// condLeaves collects the leaves of a condition (operands of &&, ||, !).  A leaf the
// atomizer does not know that names a single-assignment boolean local with a pure
// definition is replaced by the leaves of that definition.
func condLeaves(e ast.Expr, out *[]ast.Expr, at Atomizer) {
	e = Unparen(e)
	switch x := e.(type) {
	case *ast.UnaryExpr:
		if x.Op == token.NOT {
			condLeaves(x.X, out, at)
			return
		}
	case *ast.BinaryExpr:
		if x.Op == token.LAND || x.Op == token.LOR {
			condLeaves(x.X, out, at)
			condLeaves(x.Y, out, at)
			return
		}
	}
	if at != nil {
		if _, _, ok := at(e); !ok {
			if d := PureBoolDef(e); d != nil {
				condLeaves(d, out, at)
				return
			}
		}
	}
	*out = append(*out, e)
}

// leafAtom names a leaf: the atomizer's name, or "?<text>" for unknown leaves (each distinct
// text is a free atom, so nothing is assumed about it).
func leafAtom(leaf ast.Expr, at Atomizer) (string, bool) {
	if name, pos, ok := at(leaf); ok {
		return name, pos
	}
	return "?" + ExprStr(leaf), true
}

// EvalCond evaluates a condition under a valuation of atoms.
func EvalCond(e ast.Expr, at Atomizer, val map[string]bool) bool {
	e = Unparen(e)
	switch x := e.(type) {
	case *ast.UnaryExpr:
		if x.Op == token.NOT {
			return !EvalCond(x.X, at, val)
		}
	case *ast.BinaryExpr:
		if x.Op == token.LAND {
			return EvalCond(x.X, at, val) && EvalCond(x.Y, at, val)
		}
		if x.Op == token.LOR {
			return EvalCond(x.X, at, val) || EvalCond(x.Y, at, val)
		}
	}
	if _, _, ok := at(e); !ok {
		if d := PureBoolDef(e); d != nil {
			return EvalCond(d, at, val)
		}
	}
	name, pos := leafAtom(e, at)
	return val[name] == pos
}

// CondAtoms lists the atoms of a condition.
func CondAtoms(e ast.Expr, at Atomizer) []string {
	var leaves []ast.Expr
	condLeaves(e, &leaves, at)
	set := map[string]bool{}
	for _, l := range leaves {
		n, _ := leafAtom(l, at)
		set[n] = true
	}
	var out []string
	for n := range set {
		out = append(out, n)
	}
	sort.Strings(out)
	return out
}

// CondEdge is a branch condition with the truth it has on a dominating edge.
type CondEdge struct {
	Cond  ast.Expr
	Truth bool
}

// DominatingConds returns the boolean conditions (tag switches excluded) every path from
// the entry to target has evaluated to a fixed truth value.
func (c *CFG) DominatingConds(target Loc) []CondEdge {
	if !target.Valid() {
		return nil
	}
	clones := c.Clones(target)
	out := c.dominatingCondsExact(clones[0])
	// a node standing in several places is dominated by what dominates every one of them
	for _, t := range clones[1:] {
		other := c.dominatingCondsExact(t)
		var keep []CondEdge
		for _, a := range out {
			for _, b := range other {
				if a == b {
					keep = append(keep, a)
					break
				}
			}
		}
		out = keep
	}
	return out
}

func (c *CFG) dominatingCondsExact(target Loc) []CondEdge {
	var out []CondEdge
	toT := exactLoc(target)
	for _, b := range c.G.Blocks {
		cond := c.Cond(b)
		if !b.Live || cond == nil || c.conds[cond] != nil {
			continue
		}
		if b.Succs[0] == b.Succs[1] {
			continue
		}
		for si := 0; si < 2; si++ {
			bb, ss := b, si
			reach, _ := c.Reach(c.Entry(), toT, ReachOpt{CutEdge: func(x *cfg.Block, i int) bool { return x == bb && i == ss }})
			if !reach {
				out = append(out, CondEdge{cond, si == 0})
			}
		}
	}
	return out
}

// ImpliedAt decides whether the conjunction of the conditions dominating target implies
// required, for every valuation of the atoms (named by at; unknown leaves are free).
func (c *CFG) ImpliedAt(target Loc, at Atomizer, named []string, required func(val map[string]bool) bool) bool {
	if !target.Valid() {
		return Implied(nil, at, named, required)
	}
	for _, t := range c.Clones(target) {
		if !Implied(c.dominatingCondsExact(t), at, named, required) {
			return false
		}
	}
	return true
}

// Implied: for all valuations, (all conds have their truth) => required.
func Implied(conds []CondEdge, at Atomizer, named []string, required func(val map[string]bool) bool) bool {
	set := map[string]bool{}
	for _, n := range named {
		set[n] = true
	}
	for _, ce := range conds {
		for _, a := range CondAtoms(ce.Cond, at) {
			set[a] = true
		}
	}
	var atoms []string
	for a := range set {
		atoms = append(atoms, a)
	}
	sort.Strings(atoms)
	if len(atoms) > 18 {
		return false
	}
	val := map[string]bool{}
	for m := 0; m < 1<<len(atoms); m++ {
		for i, a := range atoms {
			val[a] = m&(1<<i) != 0
		}
		hold := true
		for _, ce := range conds {
			if EvalCond(ce.Cond, at, val) != ce.Truth {
				hold = false
				break
			}
		}
		if hold && !required(val) {
			return false
		}
	}
	return true
}

// Sufficient: for all valuations, premise => (all conds have their truth).  Unknown leaves are
// free atoms, so a condition that depends on one is not implied.
func Sufficient(conds []CondEdge, at Atomizer, named []string, premise func(val map[string]bool) bool) bool {
	set := map[string]bool{}
	for _, n := range named {
		set[n] = true
	}
	for _, ce := range conds {
		for _, a := range CondAtoms(ce.Cond, at) {
			set[a] = true
		}
	}
	var atoms []string
	for a := range set {
		atoms = append(atoms, a)
	}
	sort.Strings(atoms)
	if len(atoms) > 18 {
		return false
	}
	val := map[string]bool{}
	for m := 0; m < 1<<len(atoms); m++ {
		for i, a := range atoms {
			val[a] = m&(1<<i) != 0
		}
		if !premise(val) {
			continue
		}
		for _, ce := range conds {
			if EvalCond(ce.Cond, at, val) != ce.Truth {
				return false
			}
		}
	}
	return true
}

// Equivalent: for all valuations, expr <=> required.
func Equivalent(expr ast.Expr, at Atomizer, named []string, required func(val map[string]bool) bool) bool {
	set := map[string]bool{}
	for _, n := range named {
		set[n] = true
	}
	for _, a := range CondAtoms(expr, at) {
		set[a] = true
	}
	var atoms []string
	for a := range set {
		atoms = append(atoms, a)
	}
	sort.Strings(atoms)
	if len(atoms) > 18 {
		return false
	}
	val := map[string]bool{}
	for m := 0; m < 1<<len(atoms); m++ {
		for i, a := range atoms {
			val[a] = m&(1<<i) != 0
		}
		if EvalCond(expr, at, val) != required(val) {
			return false
		}
	}
	return true
}

// LastAssign finds the expression most recently assigned to obj when the end of block b is
// reached: the nearest preceding assignment in b or its chain of unique predecessors.
// idx receives the index of obj on the assignment's left-hand side.
func (c *CFG) LastAssign(b *cfg.Block, obj types.Object) (rhs ast.Expr, idx int) {
	info := c.F.Info()
	seen := map[*cfg.Block]bool{}
	for b != nil && !seen[b] {
		seen[b] = true
		for i := len(b.Nodes) - 1; i >= 0; i-- {
			switch s := b.Nodes[i].(type) {
			case *ast.AssignStmt:
				if inlinedAssign[s] {
					continue // the helper's returns are the assignments
				}
				for li, l := range s.Lhs {
					if IsObj(info, l, obj) {
						if len(s.Rhs) == 1 {
							return s.Rhs[0], li
						} else if li < len(s.Rhs) {
							return s.Rhs[li], 0
						}
						return nil, li
					}
				}
			case *ast.ValueSpec:
				for li, id := range s.Names {
					if o := info.Defs[id]; o != nil && sameObj(o, obj) {
						if len(s.Values) == 1 {
							return s.Values[0], li
						} else if li < len(s.Values) {
							return s.Values[li], 0
						}
						return nil, li
					}
				}
			}
		}
		ps := c.preds[b]
		if len(ps) != 1 {
			return nil, 0
		}
		b = ps[0]
	}
	return nil, 0
}

// BlockOf returns the block of a located node.
func (c *CFG) BlockOf(n ast.Node) *cfg.Block { return c.LocOf(n).B }

// theProg is the program most recently loaded (one per process); PureBoolDef needs it to
// resolve an identifier without a function context.
var theProg *Prog

var pureDefMemo = map[types.Object]ast.Expr{}

// PureBoolDef returns the defining expression of e when e names a boolean local variable
// that is assigned exactly once in its function (closures included), by an expression
// whose local operands are themselves never reassigned (calls in it are read as the values
// they returned at the definition).  Such a variable is a name for its definition, and conditions
// mentioning it are read as if the definition stood there.  Fields read by the definition
// are assumed unchanged between the definition and the test.
func PureBoolDef(e ast.Expr) ast.Expr {
	id, ok := Unparen(e).(*ast.Ident)
	if !ok || theProg == nil {
		return nil
	}
	pk := theProg.pkgOfNode(id)
	if pk == nil {
		return nil
	}
	v, ok := pk.TypesInfo.Uses[id].(*types.Var)
	if !ok || v.IsField() || v.Pkg() == nil || v.Parent() == v.Pkg().Scope() {
		return nil
	}
	if b, isB := v.Type().Underlying().(*types.Basic); !isB || b.Kind() != types.Bool {
		return nil
	}
	if d, ok := pureDefMemo[v]; ok {
		return d
	}
	pureDefMemo[v] = nil
	f := theProg.EnclosingFuncAt(v.Pos())
	if f == nil {
		return nil
	}
	root := f.SynRoot()
	if v.Pos() < root.Body.Pos() {
		return nil // parameter or named result
	}
	count := func(obj types.Object) (n int, rhs ast.Expr) {
		var rec func(g *Func)
		rec = func(g *Func) {
			for _, r := range g.AssignedFrom(obj) {
				n++
				rhs = r
			}
			g.Walk(func(nd ast.Node) bool {
				switch s := nd.(type) {
				case *ast.IncDecStmt:
					if IsObj(g.Info(), s.X, obj) {
						n++
						rhs = nil
					}
				case *ast.UnaryExpr:
					if s.Op == token.AND && IsObj(g.Info(), s.X, obj) {
						n++
						rhs = nil
					}
				}
				return true
			})
			for _, l := range g.Lits {
				rec(l)
			}
		}
		rec(root)
		return
	}
	n, rhs := count(v)
	if n != 1 || rhs == nil {
		return nil
	}
	if tv, ok := pk.TypesInfo.Types[rhs]; !ok || tv.Type == nil {
		return nil
	} else if _, isTuple := tv.Type.(*types.Tuple); isTuple {
		return nil
	}
	if _, isCall := Unparen(rhs).(*ast.CallExpr); isCall {
		// the variable holds the result of that one call: a test of the variable is a test of the call's result
		pureDefMemo[v] = rhs
		return rhs
	}
	pure := true
	ast.Inspect(rhs, func(nd ast.Node) bool {
		switch x := nd.(type) {
		case *ast.CallExpr:
			// the variable holds what the calls returned when it was defined; a test of the
			// variable is a test of those results (as for a definition that is one call)
		case *ast.FuncLit:
			pure = false
		case *ast.UnaryExpr:
			if x.Op == token.ARROW {
				pure = false
			}
		case *ast.Ident:
			if o, ok := pk.TypesInfo.Uses[x].(*types.Var); ok && !o.IsField() && o.Pkg() != nil && o.Parent() != o.Pkg().Scope() {
				k, _ := count(o)
				isParam := o.Pos() < root.Body.Pos()
				if (isParam && k > 0) || (!isParam && k > 1) {
					pure = false
				}
			}
		}
		return pure
	})
	if !pure {
		return nil
	}
	pureDefMemo[v] = rhs
	return rhs
}
