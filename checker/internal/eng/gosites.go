package eng

import (
	"fmt"
	"go/ast"
	"go/types"
	"sort"
	"strings"
)

// GoSite is a goroutine spawn: a go statement or a (*sync.WaitGroup).Go call.
type GoSite struct {
	F       *Func // innermost function containing the spawn
	Node    ast.Node
	ViaWG   ast.Expr // receiver of WaitGroup.Go, nil for go statements
	Callee  string   // declared function name, or "" for a literal
	Lit     *Func    // spawned literal, if any
	Target  *Func    // spawned declared function, if it is a repository function
	CallArg []ast.Expr
	// Alias: the pinned literal this site stands for when its body is a closure that replaced
	// several spawned literals (`fetch := func(){...}; go fetch(a); go fetch(b)`).
	Alias string
}

// Key names the site without line numbers: "<spawner> -> <callee or literal index>".
func (g GoSite) Key() string {
	c := g.Callee
	if g.Alias != "" {
		c = g.Alias
	} else if g.Lit != nil {
		c = g.Lit.Name
	} else if g.Target != nil && g.Target.LitAlias != "" {
		c = g.Target.LitAlias
	}
	return g.F.Name + " -> " + c
}

// GoSites lists every goroutine spawn in non-test repository code.
func (p *Prog) GoSites() []GoSite {
	var out []GoSite
	for _, f := range p.funcs {
		info := f.Info()
		f.Walk(func(n ast.Node) bool {
			switch x := n.(type) {
			case *ast.GoStmt:
				s := GoSite{F: f, Node: x, CallArg: x.Call.Args}
				if lit, ok := Unparen(x.Call.Fun).(*ast.FuncLit); ok {
					s.Lit = p.byLit[lit]
				} else {
					s.Callee = CalleeName(info, x.Call)
					s.Target = p.byName[s.Callee]
					if s.Target == nil {
						// a closure held in a local that is assigned once: `fetch := func(...){...}; go fetch(a)`
						if lit := p.closureOfLocal(f, x.Call.Fun); lit != nil {
							s.Lit = lit
						}
					}
				}
				out = append(out, s)
			case *ast.CallExpr:
				if CalleeName(info, x) == "(*sync.WaitGroup).Go" && len(x.Args) == 1 {
					s := GoSite{F: f, Node: x, ViaWG: Unparen(x.Fun).(*ast.SelectorExpr).X}
					if lit, ok := Unparen(x.Args[0]).(*ast.FuncLit); ok {
						s.Lit = p.byLit[lit]
					} else {
						// method value
						if o := ObjOf(info, x.Args[0]); o != nil {
							if fo, isF := o.(*TFunc); isF {
								s.Callee = canonFunc(Short(fo.FullName()))
								s.Target = p.byName[s.Callee]
							}
						}
						if s.Callee == "" {
							s.Callee = "value:" + ExprStr(x.Args[0])
						}
					}
					out = append(out, s)
				}
			}
			return true
		})
	}
	// sites that start a closure held in a local take, in order, the identities of the spawned
	// literals that vanished from their spawner
	byF := map[*Func][]int{}
	for i, s := range out {
		if s.Lit != nil && s.ViaWG == nil {
			if gs, ok := s.Node.(*ast.GoStmt); ok {
				if _, direct := Unparen(gs.Call.Fun).(*ast.FuncLit); !direct {
					byF[s.F] = append(byF[s.F], i)
				}
			}
		}
	}
	for f, idx := range byF {
		var gone []vanishedLit
		for _, v := range p.vanished[f.Name] {
			if strings.HasSuffix(v.desc, "|go") {
				gone = append(gone, v)
			}
		}
		if len(gone) != len(idx) {
			continue
		}
		sort.Slice(gone, func(a, b int) bool { return gone[a].ord < gone[b].ord })
		sort.Slice(idx, func(a, b int) bool { return out[idx[a]].Node.Pos() < out[idx[b]].Node.Pos() })
		for k, i := range idx {
			out[i].Alias = fmt.Sprintf("%s$%d", f.Name, gone[k].ord)
		}
	}
	return out
}

// closureOfLocal resolves an identifier naming a local variable that is assigned exactly once,
// from a function literal, to that literal.
func (p *Prog) closureOfLocal(f *Func, e ast.Expr) *Func {
	id, ok := Unparen(e).(*ast.Ident)
	if !ok {
		return nil
	}
	v, ok := f.Info().Uses[id].(*types.Var)
	if !ok || v.IsField() {
		return nil
	}
	var lits []*ast.FuncLit
	n := 0
	root := f.SynRoot()
	var rec func(g *Func)
	rec = func(g *Func) {
		for _, d := range g.AssignedFrom(v) {
			n++
			if l, ok := Unparen(d).(*ast.FuncLit); ok && d != nil {
				lits = append(lits, l)
			}
		}
		for _, l := range g.Lits {
			rec(l)
		}
	}
	rec(root)
	if n != 1 || len(lits) != 1 {
		return nil
	}
	return p.byLit[lits[0]]
}

// ClosureOfLocal is closureOfLocal for rules: the literal a single-assignment local names.
func (p *Prog) ClosureOfLocal(f *Func, e ast.Expr) *Func { return p.closureOfLocal(f, e) }
