package eng

import (
	"go/ast"
)

// GoSite is a goroutine spawn: a go statement or a (*sync.WaitGroup).Go call.
type GoSite struct {
	F       *Func // innermost function containing the spawn
	Node    ast.Node
	ViaWG   ast.Expr // receiver of WaitGroup.Go, nil for go statements
	Callee  string   // declared function name, or "" for a literal
	Lit     *Func    // spawned literal, if any
	Target  *Func    // spawned declared function, if it is a repository function
	CallArg []ast.Expr
}

// Key names the site without line numbers: "<spawner> -> <callee or literal index>".
func (g GoSite) Key() string {
	c := g.Callee
	if g.Lit != nil {
		c = g.Lit.Name
	} else if g.Target != nil && g.Target.LitAlias != "" {
		c = g.Target.LitAlias
	}
	return g.F.Name + " -> " + c
}

// GoSites lists every goroutine spawn in non-test repository code.
func (p *Prog) GoSites() []GoSite {
	var out []GoSite
	for _, f := range p.funcs {
		info := f.Info()
		f.Walk(func(n ast.Node) bool {
			switch x := n.(type) {
			case *ast.GoStmt:
				s := GoSite{F: f, Node: x, CallArg: x.Call.Args}
				if lit, ok := Unparen(x.Call.Fun).(*ast.FuncLit); ok {
					s.Lit = p.byLit[lit]
				} else {
					s.Callee = CalleeName(info, x.Call)
					s.Target = p.byName[s.Callee]
				}
				out = append(out, s)
			case *ast.CallExpr:
				if CalleeName(info, x) == "(*sync.WaitGroup).Go" && len(x.Args) == 1 {
					s := GoSite{F: f, Node: x, ViaWG: Unparen(x.Fun).(*ast.SelectorExpr).X}
					if lit, ok := Unparen(x.Args[0]).(*ast.FuncLit); ok {
						s.Lit = p.byLit[lit]
					} else {
						// method value
						if o := ObjOf(info, x.Args[0]); o != nil {
							if fo, isF := o.(*TFunc); isF {
								s.Callee = canonFunc(Short(fo.FullName()))
								s.Target = p.byName[s.Callee]
							}
						}
						if s.Callee == "" {
							s.Callee = "value:" + ExprStr(x.Args[0])
						}
					}
					out = append(out, s)
				}
			}
			return true
		})
	}
	return out
}
