package eng

import (
	"go/ast"
	"go/token"
	"go/types"
	"sort"
	"strings"

	"golang.org/x/tools/go/cfg"
)

// LockMode: 1 read, 2 write.
type LockMode int

const (
	LockR LockMode = 1
	LockW LockMode = 2
)

// LockState maps a lock identity to the mode held.
type LockState map[string]LockMode

func (s LockState) clone() LockState {
	o := LockState{}
	for k, v := range s {
		o[k] = v
	}
	return o
}

func (s LockState) String() string {
	var ks []string
	for k, v := range s {
		m := "W"
		if v == LockR {
			m = "R"
		}
		ks = append(ks, k+":"+m)
	}
	sort.Strings(ks)
	return "{" + strings.Join(ks, ", ") + "}"
}

func meet(a, b LockState) LockState {
	o := LockState{}
	for k, v := range a {
		if w, ok := b[k]; ok {
			if w < v {
				v = w
			}
			o[k] = v
		}
	}
	return o
}

func equalState(a, b LockState) bool {
	if len(a) != len(b) {
		return false
	}
	for k, v := range a {
		if b[k] != v {
			return false
		}
	}
	return true
}

// LockInfo is the result of the lockset must-analysis of one function.
type LockInfo struct {
	C      *CFG
	in     map[*cfg.Block]LockState
	Errors []LockError // releases of locks not held
	may    bool        // union at joins instead of intersection
}

// LockError is an Unlock reached without the lock in the state.
type LockError struct {
	Call *ast.CallExpr
	Lock string
}

// LockIDOf returns the identity of the lock denoted by the receiver expression of a
// Lock/Unlock call: the qualified struct field, or "var:<name>" for locals.
func LockIDOf(info *types.Info, recv ast.Expr) string {
	recv = Unparen(recv)
	switch x := recv.(type) {
	case *ast.UnaryExpr:
		if x.Op == token.AND {
			return LockIDOf(info, x.X)
		}
	case *ast.StarExpr:
		return LockIDOf(info, x.X)
	case *ast.IndexExpr:
		return LockIDOf(info, x.X) + "[]"
	case *ast.SelectorExpr:
		if fn := FieldName(info, x); fn != "" {
			return fn
		}
	case *ast.Ident:
		return "var:" + x.Name
	}
	return "expr:" + ExprStr(recv)
}

type lockOp struct {
	kind int // 1 lock W, 2 lock R, 3 unlock, 4 ctx-lock W, 5 trylock W, 6 tryRlock
	id   string
	call *ast.CallExpr
}

func classifyLockCall(info *types.Info, call *ast.CallExpr) (lockOp, bool) {
	name := CalleeName(info, call)
	sel, ok := Unparen(call.Fun).(*ast.SelectorExpr)
	if !ok {
		return lockOp{}, false
	}
	recv := sel.X
	id := func() string {
		// embedded mutex: x.Lock() where Lock is promoted
		if s, ok := info.Selections[sel]; ok && len(s.Index()) > 1 {
			t := s.Recv()
			path := TypeName(t)
			for _, k := range s.Index()[:len(s.Index())-1] {
				st := structOf(t)
				if st == nil {
					break
				}
				path = TypeName(t) + "." + st.Field(k).Name()
				t = st.Field(k).Type()
			}
			return path
		}
		return LockIDOf(info, recv)
	}
	switch name {
	case "(*sync.Mutex).Lock", "(*sync.RWMutex).Lock":
		return lockOp{1, id(), call}, true
	case "(*sync.RWMutex).RLock":
		return lockOp{2, id(), call}, true
	case "(*sync.Mutex).Unlock", "(*sync.RWMutex).Unlock", "(*sync.RWMutex).RUnlock", "(dht/internal.CtxMutex).Unlock":
		return lockOp{3, id(), call}, true
	case "(dht/internal.CtxMutex).Lock":
		return lockOp{4, id(), call}, true
	case "(*sync.Mutex).TryLock", "(*sync.RWMutex).TryLock":
		return lockOp{5, id(), call}, true
	case "(*sync.RWMutex).TryRLock":
		return lockOp{6, id(), call}, true
	}
	return lockOp{}, false
}

func (c *CFG) lockOpsOfNode(n ast.Node) []lockOp {
	info := c.F.Info()
	var ops []lockOp
	if d, ok := n.(*ast.DeferStmt); ok {
		_ = d
		return nil // deferred unlocks hold to exit
	}
	if _, ok := n.(*ast.GoStmt); ok {
		return nil
	}
	walkOwn(n, func(x ast.Node) bool {
		if _, isLit := x.(*ast.FuncLit); isLit {
			return false
		}
		if call, ok := x.(*ast.CallExpr); ok {
			if op, ok := classifyLockCall(info, call); ok {
				ops = append(ops, op)
			}
		}
		return true
	})
	return ops
}

func applyOps(st LockState, ops []lockOp, li *LockInfo, record bool) {
	for _, op := range ops {
		switch op.kind {
		case 1, 4:
			st[op.id] = LockW
		case 2:
			st[op.id] = LockR
		case 3:
			if _, held := st[op.id]; !held && record {
				li.Errors = append(li.Errors, LockError{op.call, op.id})
			}
			delete(st, op.id)
		}
	}
}

// join is the may-analysis counterpart of meet: a lock held on either path may be held.
func join(a, b LockState) LockState {
	o := a.clone()
	for k, v := range b {
		if w, ok := o[k]; !ok || v > w {
			o[k] = v
		}
	}
	return o
}

// MayLocks runs the lockset analysis as a may-analysis: HeldBefore then answers "held on some
// path" (for rules of the form "never call X while L may be held").
func (f *Func) MayLocks() *LockInfo { return f.locksWith(nil, true) }

// LocksWithEntry runs the lockset analysis with the given state at entry.
func (f *Func) LocksWithEntry(entry LockState) *LockInfo { return f.locksWith(entry, false) }

func (f *Func) locksWith(entry LockState, may bool) *LockInfo {
	c := f.CFG()
	li := &LockInfo{C: c, in: map[*cfg.Block]LockState{}, may: may}
	if entry == nil {
		entry = LockState{}
	}
	li.in[c.G.Blocks[0]] = entry.clone()
	work := []*cfg.Block{c.G.Blocks[0]}
	for len(work) > 0 {
		b := work[len(work)-1]
		work = work[:len(work)-1]
		st := li.in[b].clone()
		for _, n := range b.Nodes {
			applyOps(st, c.lockOpsOfNode(n), li, false)
		}
		for si, s := range b.Succs {
			out := st.clone()
			// edge effects: CtxMutex.Lock error edge drops the lock; TryLock true edge adds it
			for _, ft := range c.EdgeFacts(b, si) {
				if call, isNil, ok := ft.ErrCall(); ok && !isNil {
					if op, isLock := classifyLockCall(c.F.Info(), call); isLock && op.kind == 4 {
						delete(out, op.id)
					}
				}
				if call, truth, ok := ft.CallFact("(*sync.Mutex).TryLock", "(*sync.RWMutex).TryLock", "(*sync.RWMutex).TryRLock"); ok && truth {
					if op, isLock := classifyLockCall(c.F.Info(), call); isLock {
						if op.kind == 5 {
							out[op.id] = LockW
						} else {
							out[op.id] = LockR
						}
					}
				}
			}
			old, seen := li.in[s]
			var nw LockState
			if !seen {
				nw = out
			} else if may {
				nw = join(old, out)
			} else {
				nw = meet(old, out)
			}
			if !seen || !equalState(old, nw) {
				li.in[s] = nw
				work = append(work, s)
			}
		}
	}
	// record release errors with the final states
	for _, b := range c.G.Blocks {
		if !b.Live {
			continue
		}
		st, ok := li.in[b]
		if !ok {
			continue
		}
		st = st.clone()
		for _, n := range b.Nodes {
			applyOps(st, c.lockOpsOfNode(n), li, true)
		}
	}
	return li
}

// Locks runs the analysis with an empty entry state.
func (f *Func) Locks() *LockInfo { return f.LocksWithEntry(nil) }

// HeldBefore returns the locks that are held on every path just before node n executes.
func (li *LockInfo) HeldBefore(n ast.Node) LockState {
	ls := li.C.LocsOf(n)
	if len(ls) == 0 {
		return LockState{}
	}
	st := li.heldBeforeLoc(ls[0])
	for _, l := range ls[1:] {
		if li.may {
			st = join(st, li.heldBeforeLoc(l))
		} else {
			st = meet(st, li.heldBeforeLoc(l))
		}
	}
	return st
}

func (li *LockInfo) heldBeforeLoc(l Loc) LockState {
	in, ok := li.in[l.B]
	if !ok {
		return LockState{}
	}
	st := in.clone()
	for i := 0; i < l.I && i < len(l.B.Nodes); i++ {
		applyOps(st, li.C.lockOpsOfNode(l.B.Nodes[i]), li, false)
	}
	// lock operations earlier in the same node (e.g. `x.Lock(); y := x.f` never share a node) are ignored
	return st
}

// AtExit returns the lock state at the given exit location (after its node).
func (li *LockInfo) AtExit(l Loc) LockState {
	in, ok := li.in[l.B]
	if !ok {
		return LockState{}
	}
	st := in.clone()
	for i := 0; i <= l.I && i < len(l.B.Nodes); i++ {
		applyOps(st, li.C.lockOpsOfNode(l.B.Nodes[i]), li, false)
	}
	return st
}

// FieldAccess is one use of a struct field.
type FieldAccess struct {
	F     *Func
	Sel   *ast.SelectorExpr
	Write bool
}

// FieldAccesses lists the accesses to the field "pkg.Type.field" in f's own body.
func (f *Func) FieldAccesses(qfield string) []FieldAccess {
	var out []FieldAccess
	info := f.Info()
	p := f.P
	f.Walk(func(n ast.Node) bool {
		sel, ok := n.(*ast.SelectorExpr)
		if !ok || FieldName(info, sel) != qfield {
			return true
		}
		out = append(out, FieldAccess{F: f, Sel: sel, Write: isWriteContext(p, info, sel)})
		return true
	})
	return out
}

// isWriteContext: the selector is assigned, incremented, address-taken, indexed on the LHS
// of an assignment, or the first argument of delete/append-assign.
func isWriteContext(p *Prog, info *types.Info, e ast.Expr) bool {
	var cur ast.Node = e
	for {
		par := p.parents[cur]
		switch x := par.(type) {
		case *ast.ParenExpr:
			cur = x
			continue
		case *ast.IndexExpr:
			if x.X == cur {
				// m[k] = v / m[k]++ writes the map or slice held in the field
				cur = x
				continue
			}
			return false
		case *ast.AssignStmt:
			for _, l := range x.Lhs {
				if l == cur {
					return true
				}
			}
			return false
		case *ast.IncDecStmt:
			return x.X == cur
		case *ast.UnaryExpr:
			return x.Op == token.AND && x.X == cur
		case *ast.CallExpr:
			if NameIn(CalleeName(info, x), "builtin.delete", "builtin.clear") && len(x.Args) > 0 && x.Args[0] == cur {
				return true
			}
			return false
		case *ast.RangeStmt:
			return x.Key == cur || x.Value == cur
		}
		return false
	}
}

// LockCallID classifies a call as acquiring ("lock") or releasing ("unlock") a mutex and names the mutex.
func LockCallID(info *types.Info, call *ast.CallExpr) (id string, kind string) {
	op, ok := classifyLockCall(info, call)
	if !ok {
		return "", ""
	}
	switch op.kind {
	case 1, 2, 4:
		return op.id, "lock"
	case 3:
		return op.id, "unlock"
	}
	return op.id, "try"
}
