package eng

import (
	"go/ast"
	"go/token"
	"go/types"
)

// BlockOp is one potentially blocking operation of a function's own body.
type BlockOp struct {
	F     *Func
	Node  ast.Node
	Kind  string // select | send | recv | range | wait | sleep
	Chan  ast.Expr
	Cases []SelCase // for select
}

// BlockingOps enumerates the potentially blocking operations of f's own body: selects
// (as a unit), sends and receives outside a select communication, ranges over channels,
// WaitGroup.Wait / Cond.Wait and time.Sleep.
func (f *Func) BlockingOps() []BlockOp {
	var out []BlockOp
	info := f.Info()
	p := f.P
	inComm := func(n ast.Node) bool {
		for x := p.parents[n]; x != nil; x = p.parents[x] {
			switch y := x.(type) {
			case *ast.CommClause:
				return y.Comm != nil && Contains(y.Comm, n)
			case *ast.FuncLit, *ast.FuncDecl:
				return false
			}
		}
		return false
	}
	f.Walk(func(n ast.Node) bool {
		switch x := n.(type) {
		case *ast.SelectStmt:
			out = append(out, BlockOp{F: f, Node: x, Kind: "select", Cases: SelectCases(info, x)})
		case *ast.SendStmt:
			if !inComm(x) {
				out = append(out, BlockOp{F: f, Node: x, Kind: "send", Chan: x.Chan})
			}
		case *ast.UnaryExpr:
			if x.Op == token.ARROW && !inComm(x) {
				out = append(out, BlockOp{F: f, Node: x, Kind: "recv", Chan: x.X})
			}
		case *ast.RangeStmt:
			if tv, ok := info.Types[x.X]; ok {
				if _, isChan := tv.Type.Underlying().(*types.Chan); isChan {
					out = append(out, BlockOp{F: f, Node: x, Kind: "range", Chan: x.X})
				}
			}
		case *ast.CallExpr:
			switch CalleeName(info, x) {
			case "(*sync.WaitGroup).Wait", "(*sync.Cond).Wait":
				out = append(out, BlockOp{F: f, Node: x, Kind: "wait", Chan: Unparen(x.Fun).(*ast.SelectorExpr).X})
			case "time.Sleep":
				out = append(out, BlockOp{F: f, Node: x, Kind: "sleep"})
			}
		}
		return true
	})
	return out
}

// Escapable reports whether a select can always be left: it has a default arm, a
// context Done() arm or a timer arm.
func (b BlockOp) Escapable() (bool, string) {
	for _, c := range b.Cases {
		switch c.Kind {
		case "default":
			return true, "default arm"
		case "ctx":
			return true, "case <-" + ExprStr(c.Ctx) + ".Done()"
		case "timer":
			return true, "timer arm"
		}
	}
	return false, ""
}
