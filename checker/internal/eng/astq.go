package eng

import (
	"go/ast"
	"go/constant"
	"go/token"
	"go/types"
	"strings"

	"golang.org/x/tools/go/types/typeutil"
)

// Unparen strips parentheses.
func Unparen(e ast.Expr) ast.Expr {
	for {
		p, ok := e.(*ast.ParenExpr)
		if !ok {
			return e
		}
		e = p.X
	}
}

// CalleeObj returns the called object (func, var of func type, builtin) or nil.
func CalleeObj(info *types.Info, call *ast.CallExpr) types.Object {
	return typeutil.Callee(info, call)
}

// CalleeName returns a canonical name for the callee of call:
//
//	"(*dht/records.ValueStore).Put", "bytes.Equal", "builtin.append",
//	"field:dht.query.queryFn", "var:psTryAdd", "conv:string", "lit" (called literal), "?".
func CalleeName(info *types.Info, call *ast.CallExpr) string {
	fun := Unparen(call.Fun)
	if tv, ok := info.Types[fun]; ok && tv.IsType() {
		return "conv:" + Short(types.TypeString(tv.Type, nil))
	}
	if _, ok := fun.(*ast.FuncLit); ok {
		return "lit"
	}
	// strip explicit instantiation
	switch x := fun.(type) {
	case *ast.IndexExpr:
		if tv, ok := info.Types[x.X]; ok && !tv.IsType() {
			if _, isSig := tv.Type.Underlying().(*types.Signature); isSig {
				fun = x.X
			}
		}
	case *ast.IndexListExpr:
		fun = x.X
	}
	var obj types.Object
	switch x := fun.(type) {
	case *ast.Ident:
		obj = info.Uses[x]
	case *ast.SelectorExpr:
		if sel, ok := info.Selections[x]; ok {
			obj = sel.Obj()
			if v, ok := obj.(*types.Var); ok && v.IsField() {
				return "field:" + canonField(Short(typeName(sel.Recv()))+"."+v.Name())
			}
		} else {
			obj = info.Uses[x.Sel]
		}
	}
	switch o := obj.(type) {
	case *types.Func:
		return canonFunc(Short(o.Origin().FullName()))
	case *types.Builtin:
		return "builtin." + o.Name()
	case *types.Var:
		return "var:" + VarName(o)
	}
	return "?"
}

func typeName(t types.Type) string {
	for {
		if p, ok := t.(*types.Pointer); ok {
			t = p.Elem()
			continue
		}
		break
	}
	if n, ok := t.(*types.Named); ok {
		o := n.Obj()
		if o.Pkg() != nil {
			return o.Pkg().Path() + "." + o.Name()
		}
		return o.Name()
	}
	return types.TypeString(t, nil)
}

// TypeName returns the qualified (abbreviated) name of the named type behind t, pointers stripped.
func TypeName(t types.Type) string { return Short(typeName(t)) }

// NameIn reports whether name is one of pats.  A pattern starting with "~" matches as a suffix.
func NameIn(name string, pats ...string) bool {
	for _, p := range pats {
		if strings.HasPrefix(p, "~") {
			if strings.HasSuffix(name, p[1:]) {
				return true
			}
		} else if name == p {
			return true
		}
	}
	return false
}

// Walk visits the nodes of f's own body, not descending into nested function literals
// (the literal node itself is visited).
func (f *Func) Walk(fn func(n ast.Node) bool) {
	f.walkUnit(fn, map[*Func]bool{})
}

func (f *Func) walkUnit(fn func(n ast.Node) bool, seen map[*Func]bool) {
	walkOwn(f.Body, fn)
	for _, s := range f.inlined {
		if !s.spawned && !seen[s.h] {
			seen[s.h] = true
			s.h.walkUnit(fn, seen)
			for _, sy := range s.h.synthOrder {
				fn(sy) // the node itself only: its operands were visited with the return statement
			}
		}
	}
}

func walkOwn(root ast.Node, fn func(n ast.Node) bool) {
	ast.Inspect(root, func(n ast.Node) bool {
		if n == nil {
			return true
		}
		if !fn(n) {
			return false
		}
		if _, ok := n.(*ast.FuncLit); ok && n != root {
			return false
		}
		return true
	})
}

// WalkDeep visits all nodes including nested literals.
func (f *Func) WalkDeep(fn func(n ast.Node) bool) {
	ast.Inspect(f.Body, func(n ast.Node) bool {
		if n == nil {
			return true
		}
		return fn(n)
	})
	seen := map[*Func]bool{}
	for _, s := range f.allInlineSites() {
		if seen[s.h] {
			continue
		}
		seen[s.h] = true
		ast.Inspect(s.h.Body, func(n ast.Node) bool {
			if n == nil {
				return true
			}
			return fn(n)
		})
	}
}

// Calls returns the calls in f's own body whose callee name matches.
func (f *Func) Calls(pats ...string) []*ast.CallExpr {
	var out []*ast.CallExpr
	f.Walk(func(n ast.Node) bool {
		if c, ok := n.(*ast.CallExpr); ok && NameIn(CalleeName(f.Info(), c), pats...) {
			out = append(out, c)
		}
		return true
	})
	return out
}

// CallsDeep is Calls including nested literals; each call is paired with its innermost function.
func (f *Func) CallsDeep(pats ...string) []Site {
	var out []Site
	var rec func(g *Func)
	rec = func(g *Func) {
		for _, c := range g.Calls(pats...) {
			out = append(out, Site{F: g, Node: c})
		}
		for _, l := range g.Lits {
			rec(l)
		}
	}
	rec(f)
	return out
}

// Site is a node inside a function.
type Site struct {
	F    *Func
	Node ast.Node
}

func (s Site) Call() *ast.CallExpr { c, _ := s.Node.(*ast.CallExpr); return c }

// AllCalls returns every call in the repository (non-test) whose callee matches.
func (p *Prog) AllCalls(pats ...string) []Site {
	var out []Site
	for _, f := range p.funcs {
		for _, c := range f.Calls(pats...) {
			out = append(out, Site{F: f, Node: c})
		}
	}
	return out
}

// UsesOf returns every identifier use (calls, method values, field reads/writes) of obj.
func (p *Prog) UsesOf(obj types.Object) []Site {
	var out []Site
	for _, f := range p.funcs {
		info := f.Info()
		f.Walk(func(n ast.Node) bool {
			if id, ok := n.(*ast.Ident); ok {
				if u := info.Uses[id]; u != nil && sameObj(u, obj) {
					out = append(out, Site{F: f, Node: id})
				}
			}
			return true
		})
	}
	return out
}

func sameObj(a, b types.Object) bool {
	a, b = Rep(a), Rep(b)
	if a == b {
		return true
	}
	if fa, ok := a.(*types.Func); ok {
		if fb, ok := b.(*types.Func); ok {
			return fa.Origin() == fb.Origin()
		}
	}
	if va, ok := a.(*types.Var); ok {
		if vb, ok := b.(*types.Var); ok {
			return va.Origin() == vb.Origin()
		}
	}
	return false
}

// ObjOf resolves an identifier or selector to its object (variable, field, func, const).
func ObjOf(info *types.Info, e ast.Expr) types.Object {
	switch x := Unparen(e).(type) {
	case *ast.Ident:
		if o := info.Uses[x]; o != nil {
			return Rep(o)
		}
		return Rep(info.Defs[x])
	case *ast.SelectorExpr:
		if sel, ok := info.Selections[x]; ok {
			return sel.Obj()
		}
		return info.Uses[x.Sel]
	}
	return nil
}

// IsObj reports whether e resolves to obj.
func IsObj(info *types.Info, e ast.Expr, obj types.Object) bool {
	o := ObjOf(info, e)
	return o != nil && obj != nil && sameObj(o, obj)
}

// IsField reports whether e is a selector of the struct field named "Type.field"
// (qualified, abbreviated type name), whatever the receiver expression is.
func IsField(info *types.Info, e ast.Expr, qfield string) bool {
	x, ok := Unparen(e).(*ast.SelectorExpr)
	if !ok {
		return false
	}
	sel, ok := info.Selections[x]
	if !ok || sel.Kind() != types.FieldVal {
		return false
	}
	return FieldName(info, x) == qfield
}

// FieldName returns "dht/records.ValueStore.ds" for a field selector, "" otherwise.
// For promoted fields the declaring struct is reported.
func FieldName(info *types.Info, x *ast.SelectorExpr) string {
	sel, ok := info.Selections[x]
	if !ok || sel.Kind() != types.FieldVal {
		return ""
	}
	v := sel.Obj().(*types.Var)
	// find declaring struct by walking the selection path
	t := sel.Recv()
	idx := sel.Index()
	for i, k := range idx {
		st := structOf(t)
		if st == nil {
			break
		}
		if i == len(idx)-1 {
			return canonField(Short(typeName(t)) + "." + v.Name())
		}
		t = st.Field(k).Type()
	}
	return canonField(Short(typeName(sel.Recv())) + "." + v.Name())
}

func structOf(t types.Type) *types.Struct {
	for {
		if p, ok := t.Underlying().(*types.Pointer); ok {
			t = p.Elem()
			continue
		}
		break
	}
	st, _ := t.Underlying().(*types.Struct)
	return st
}

// ConstInt evaluates a constant integer expression.
func ConstInt(info *types.Info, e ast.Expr) (int64, bool) {
	e = ArgExpr(info, e) // a parameter of a helper read in place stands for its argument
	tv, ok := info.Types[e]
	if !ok || tv.Value == nil {
		return 0, false
	}
	v := constant.ToInt(tv.Value)
	if v.Kind() != constant.Int {
		return 0, false
	}
	return constant.Int64Val(v)
}

// ConstObj returns the named constant an expression denotes, if any.
func ConstObj(info *types.Info, e ast.Expr) *types.Const {
	c, _ := ObjOf(info, e).(*types.Const)
	return c
}

// ExprStr renders an expression.
func ExprStr(e ast.Expr) string {
	if e == nil {
		return "<nil>"
	}
	return types.ExprString(e)
}

// SameExpr compares two expressions structurally, identifiers by object identity.
func SameExpr(info *types.Info, a, b ast.Expr) bool {
	a, b = Unparen(a), Unparen(b)
	switch x := a.(type) {
	case *ast.Ident:
		y, ok := b.(*ast.Ident)
		if !ok {
			return false
		}
		ox, oy := ObjOf(info, x), ObjOf(info, y)
		if ox == nil || oy == nil {
			return x.Name == y.Name
		}
		return sameObj(ox, oy)
	case *ast.SelectorExpr:
		y, ok := b.(*ast.SelectorExpr)
		if !ok {
			return false
		}
		return x.Sel.Name == y.Sel.Name && SameExpr(info, x.X, y.X)
	case *ast.CallExpr:
		y, ok := b.(*ast.CallExpr)
		if !ok || len(x.Args) != len(y.Args) || !SameExpr(info, x.Fun, y.Fun) {
			return false
		}
		for i := range x.Args {
			if !SameExpr(info, x.Args[i], y.Args[i]) {
				return false
			}
		}
		return true
	case *ast.BasicLit:
		y, ok := b.(*ast.BasicLit)
		return ok && x.Kind == y.Kind && x.Value == y.Value
	case *ast.UnaryExpr:
		y, ok := b.(*ast.UnaryExpr)
		return ok && x.Op == y.Op && SameExpr(info, x.X, y.X)
	case *ast.StarExpr:
		y, ok := b.(*ast.StarExpr)
		return ok && SameExpr(info, x.X, y.X)
	case *ast.BinaryExpr:
		y, ok := b.(*ast.BinaryExpr)
		return ok && x.Op == y.Op && SameExpr(info, x.X, y.X) && SameExpr(info, x.Y, y.Y)
	case *ast.IndexExpr:
		y, ok := b.(*ast.IndexExpr)
		return ok && SameExpr(info, x.X, y.X) && SameExpr(info, x.Index, y.Index)
	case *ast.ArrayType, *ast.MapType, *ast.ChanType, *ast.FuncType, *ast.InterfaceType, *ast.StructType:
		return types.ExprString(a) == types.ExprString(b)
	case *ast.CompositeLit:
		y, ok := b.(*ast.CompositeLit)
		if !ok || len(x.Elts) != len(y.Elts) {
			return false
		}
		if (x.Type == nil) != (y.Type == nil) || (x.Type != nil && !SameExpr(info, x.Type, y.Type)) {
			return false
		}
		for i := range x.Elts {
			if !SameExpr(info, x.Elts[i], y.Elts[i]) {
				return false
			}
		}
		return true
	case *ast.KeyValueExpr:
		y, ok := b.(*ast.KeyValueExpr)
		return ok && SameExpr(info, x.Key, y.Key) && SameExpr(info, x.Value, y.Value)
	case *ast.SliceExpr:
		y, ok := b.(*ast.SliceExpr)
		if !ok {
			return false
		}
		eq := func(p, q ast.Expr) bool {
			if p == nil || q == nil {
				return p == nil && q == nil
			}
			return SameExpr(info, p, q)
		}
		return SameExpr(info, x.X, y.X) && eq(x.Low, y.Low) && eq(x.High, y.High) && eq(x.Max, y.Max)
	case *ast.TypeAssertExpr:
		y, ok := b.(*ast.TypeAssertExpr)
		return ok && SameExpr(info, x.X, y.X)
	}
	return false
}

// Mentions reports whether expression e mentions object obj.
func Mentions(info *types.Info, e ast.Node, obj types.Object) bool {
	found := false
	ast.Inspect(e, func(n ast.Node) bool {
		if id, ok := n.(*ast.Ident); ok {
			if o := info.Uses[id]; o != nil && sameObj(o, obj) {
				found = true
			}
			if o := info.Defs[id]; o != nil && sameObj(o, obj) {
				found = true
			}
		}
		return !found
	})
	return found
}

// Contains reports whether node outer syntactically contains inner.
func Contains(outer, inner ast.Node) bool {
	return outer != nil && inner != nil && outer.Pos() <= inner.Pos() && inner.End() <= outer.End()
}

// IsCallTo reports whether e is a call whose callee name matches.
func IsCallTo(info *types.Info, e ast.Expr, pats ...string) (*ast.CallExpr, bool) {
	c, ok := Unparen(e).(*ast.CallExpr)
	if !ok {
		return nil, false
	}
	return c, NameIn(CalleeName(info, c), pats...)
}

// LenArg returns x when e is len(x).
func LenArg(info *types.Info, e ast.Expr) ast.Expr {
	c, ok := IsCallTo(info, e, "builtin.len")
	if !ok || len(c.Args) != 1 {
		return nil
	}
	return c.Args[0]
}

// AssignedFrom finds, within f's own body, assignment/definition statements whose
// LHS includes obj, returning the corresponding RHS expressions (for tuple
// assignments from a single call the call is returned).
func (f *Func) AssignedFrom(obj types.Object) []ast.Expr {
	var out []ast.Expr
	info := f.Info()
	f.Walk(func(n ast.Node) bool {
		switch s := n.(type) {
		case *ast.AssignStmt:
			if inlinedAssign[s] {
				return true
			}
			for i, l := range s.Lhs {
				if IsSelfAssign(info, s, i) {
					continue
				}
				if id, ok := l.(*ast.Ident); ok && ObjOf(info, id) != nil && sameObj(ObjOf(info, id), obj) {
					if len(s.Rhs) == len(s.Lhs) {
						out = append(out, s.Rhs[i])
					} else if len(s.Rhs) == 1 {
						out = append(out, s.Rhs[0])
					}
				}
			}
		case *ast.ValueSpec:
			for i, id := range s.Names {
				if o := info.Defs[id]; o != nil && sameObj(o, obj) {
					if len(s.Values) == len(s.Names) {
						out = append(out, s.Values[i])
					} else if len(s.Values) == 1 {
						out = append(out, s.Values[0])
					} else {
						out = append(out, nil)
					}
				}
			}
		case *ast.RangeStmt:
			for _, l := range []ast.Expr{s.Key, s.Value} {
				if id, ok := l.(*ast.Ident); ok && ObjOf(info, id) != nil && sameObj(ObjOf(info, id), obj) {
					out = append(out, s.X)
				}
			}
		}
		return true
	})
	return out
}

// StmtOf returns the innermost statement containing n (within its function).
func (p *Prog) StmtOf(n ast.Node) ast.Stmt {
	for x := n; x != nil; x = p.parents[x] {
		if s, ok := x.(ast.Stmt); ok {
			return s
		}
	}
	return nil
}

// Tok helpers
func negate(op token.Token) token.Token {
	switch op {
	case token.EQL:
		return token.NEQ
	case token.NEQ:
		return token.EQL
	case token.LSS:
		return token.GEQ
	case token.GEQ:
		return token.LSS
	case token.GTR:
		return token.LEQ
	case token.LEQ:
		return token.GTR
	}
	return token.ILLEGAL
}

func flip(op token.Token) token.Token {
	switch op {
	case token.LSS:
		return token.GTR
	case token.GTR:
		return token.LSS
	case token.LEQ:
		return token.GEQ
	case token.GEQ:
		return token.LEQ
	}
	return op
}

// Re-exports so rule code needs only this package for common token/type names.
type (
	Object = types.Object
	Info   = types.Info
)

const (
	LEQ = token.LEQ
	LSS = token.LSS
	GEQ = token.GEQ
	GTR = token.GTR
	EQL = token.EQL
	NEQ = token.NEQ
	MUL = token.MUL
	ADD = token.ADD
	SUB = token.SUB
)

// ConstValInt returns the integer value of a constant object.
func ConstValInt(o types.Object) (int64, bool) {
	c, ok := o.(*types.Const)
	if !ok {
		return 0, false
	}
	v := constant.ToInt(c.Val())
	if v.Kind() != constant.Int {
		return 0, false
	}
	return constant.Int64Val(v)
}

// Const re-exports types.Const.
type Const = types.Const

// More re-exports.
type (
	PkgName = types.PkgName
	MapType = types.Map
)

// TFunc re-exports types.Func.
type TFunc = types.Func
