package eng

import (
	"go/ast"
	"go/token"
	"go/types"
)

// Var is an alias so rule code need not import go/types for the common case.
type Var = types.Var

// SelCase describes one communication clause of a select.
type SelCase struct {
	Clause *ast.CommClause
	Kind   string   // "ctx" (receive from a context's Done()), "timer" (Timer.C / Ticker.C / time.After), "recv", "send", "default"
	Chan   ast.Expr // channel expression (nil for default)
	Ctx    ast.Expr // for Kind "ctx": the context expression
}

// SelectCases classifies the clauses of a select statement.
func SelectCases(info *types.Info, sel *ast.SelectStmt) []SelCase {
	var out []SelCase
	for _, cl := range sel.Body.List {
		cc := cl.(*ast.CommClause)
		sc := SelCase{Clause: cc}
		switch s := cc.Comm.(type) {
		case nil:
			sc.Kind = "default"
		case *ast.SendStmt:
			sc.Kind, sc.Chan = "send", s.Chan
		case *ast.ExprStmt:
			sc.Chan = recvChan(s.X)
		case *ast.AssignStmt:
			if len(s.Rhs) == 1 {
				sc.Chan = recvChan(s.Rhs[0])
			}
		}
		if sc.Kind == "" {
			sc.Kind = "recv"
			if sc.Chan != nil {
				k, ctx := ClassifyRecvChan(info, sc.Chan)
				if k != "" {
					sc.Kind = k
					sc.Ctx = ctx
				}
			}
		}
		out = append(out, sc)
	}
	return out
}

func recvChan(e ast.Expr) ast.Expr {
	u, ok := Unparen(e).(*ast.UnaryExpr)
	if !ok || u.Op != token.ARROW {
		return nil
	}
	return u.X
}

// ClassifyRecvChan recognises context Done() channels and timer channels.
func ClassifyRecvChan(info *types.Info, ch ast.Expr) (kind string, ctx ast.Expr) {
	ch = Unparen(ch)
	if call, ok := ch.(*ast.CallExpr); ok {
		name := CalleeName(info, call)
		if name == "(context.Context).Done" {
			if s, ok := Unparen(call.Fun).(*ast.SelectorExpr); ok {
				return "ctx", s.X
			}
		}
		if name == "time.After" || name == "(*github.com/filecoin-project/go-clock.Timer).Chan" {
			return "timer", nil
		}
		return "", nil
	}
	if s, ok := ch.(*ast.SelectorExpr); ok && s.Sel.Name == "C" {
		if tv, ok := info.Types[s.X]; ok {
			tn := TypeName(tv.Type)
			if tn == "time.Timer" || tn == "time.Ticker" || tn == "github.com/filecoin-project/go-clock.Timer" || tn == "github.com/filecoin-project/go-clock.Ticker" {
				return "timer", nil
			}
		}
	}
	return "", nil
}

// MakeChan matches make(chan T [, cap]) and returns the capacity expression (nil: unbuffered).
func MakeChan(info *types.Info, e ast.Expr) (isMake bool, capExpr ast.Expr) {
	call, ok := IsCallTo(info, e, "builtin.make")
	if !ok || len(call.Args) == 0 {
		return false, nil
	}
	tv, ok := info.Types[call.Args[0]]
	if !ok {
		return false, nil
	}
	if _, isChan := tv.Type.Underlying().(*types.Chan); !isChan {
		return false, nil
	}
	if len(call.Args) >= 2 {
		return true, call.Args[1]
	}
	return true, nil
}

// SendSite is a send statement on a channel.
type SendSite struct {
	F    *Func
	Send *ast.SendStmt
}

// SendsOn returns all send statements in f and its nested literals whose channel operand
// resolves to obj (a variable or field).
func (f *Func) SendsOn(obj types.Object) []SendSite {
	var out []SendSite
	var rec func(g *Func)
	rec = func(g *Func) {
		info := g.Info()
		g.Walk(func(n ast.Node) bool {
			if s, ok := n.(*ast.SendStmt); ok && IsObj(info, s.Chan, obj) {
				out = append(out, SendSite{g, s})
			}
			return true
		})
		for _, l := range g.Lits {
			rec(l)
		}
	}
	rec(f)
	return out
}

// Selects returns the select statements of f's own body.
func (f *Func) Selects() []*ast.SelectStmt {
	var out []*ast.SelectStmt
	f.Walk(func(n ast.Node) bool {
		if s, ok := n.(*ast.SelectStmt); ok {
			out = append(out, s)
		}
		return true
	})
	return out
}

// EnclosingSelectClause returns the comm clause whose communication is n, if any.
func (p *Prog) EnclosingSelectClause(n ast.Node) *ast.CommClause {
	for x := p.parents[n]; x != nil; x = p.parents[x] {
		switch y := x.(type) {
		case *ast.CommClause:
			if y.Comm != nil && Contains(y.Comm, n) {
				return y
			}
			return nil
		case *ast.FuncLit, *ast.FuncDecl:
			return nil
		}
	}
	return nil
}

// EnclosingSelect returns the select statement of a comm clause.
func (p *Prog) EnclosingSelect(cc *ast.CommClause) *ast.SelectStmt {
	for x := p.parents[cc]; x != nil; x = p.parents[x] {
		if s, ok := x.(*ast.SelectStmt); ok {
			return s
		}
	}
	return nil
}

// LocalVarDef finds the single defining expression of a local variable in f (nil when the
// variable has several definitions or none with a value).
func (f *Func) LocalVarDef(obj types.Object) ast.Expr {
	defs := f.AssignedFrom(obj)
	if len(defs) != 1 {
		return nil
	}
	return defs[0]
}
