package rules

import (
	"go/ast"

	"kadcheck/internal/eng"
)

const (
	fnValidate = "(github.com/libp2p/go-libp2p-record.Validator).Validate"
	fnSelect   = "(github.com/libp2p/go-libp2p-record.Validator).Select"
	recGetVal  = "(*github.com/libp2p/go-libp2p-record/pb.Record).GetValue"
	recGetKey  = "(*github.com/libp2p/go-libp2p-record/pb.Record).GetKey"
)

func init() {
	register(&Property{
		ID:  "C04",
		Run: runC04,
		Decided: "every value sent into a search (standard and accelerated client, local and remote source) lies behind the nil-error edge of Validator.Validate called with the operation's key and that same value (R1); " +
			"the best-so-far value changes only when there was none or Select ranked the newcomer first, the 'better' flag is raised only there, the abort result of the callback is never dropped, and values are streamed only when better (R2); " +
			"ProtocolMessenger.GetValue returns a record only behind the key comparison (R3); a public key from a node is returned only after it hashed to the peer's ID (R4); " +
			"GetValue returns ErrNotFound when nothing was found (R5); the dual client builds its parallel router with the WAN validator (R6). Added after the seeded rounds: nothing rooted in SearchValue sends a []byte itself — values reach its output only through searchValueQuorum (R1).",
		NotDecided: "correctness of Validate/Select themselves; that the final value dominates all processed answers under a concurrent consumer (the code has one consumer).",
	})
}

func runC04(c *Ctx) {
	// R1 validate-before-emit, both twins
	c.Rule("R1")
	sends := 0
	for _, tw := range []struct{ fn, valT string }{
		{"(*dht.IpfsDHT).getValues", "dht.recvdVal"},
		{"(*dht/fullrt.FullRT).getValues", "dht/fullrt.RecvdVal"},
	} {
		f := c.Fn(tw.fn)
		keyParam := paramObj(f, "key")
		c.Anchor(keyParam != nil, "%s: parameter key not found", tw.fn)
		var visit func(g *eng.Func)
		visit = func(g *eng.Func) {
			info := g.Info()
			cf := g.CFG()
			g.Walk(func(n ast.Node) bool {
				s, ok := n.(*ast.SendStmt)
				if !ok {
					return true
				}
				tv, ok := info.Types[s.Value]
				if !ok || eng.TypeName(tv.Type) != tw.valT {
					return true
				}
				sends++
				c.Funcs[g.Name] = true
				// the value carried
				var valExpr ast.Expr
				if cl, isCL := eng.Unparen(s.Value).(*ast.CompositeLit); isCL {
					for _, el := range cl.Elts {
						if kv, isKV := el.(*ast.KeyValueExpr); isKV {
							if id, isID := kv.Key.(*ast.Ident); isID && eng.NameOf(id) == "Val" {
								valExpr = kv.Value
							}
						}
					}
				}
				detail := "no dominating successful Validate(key, value)"
				ok2 := false
				if valExpr != nil {
					ok2, _ = cf.Guarded(cf.LocOf(s), func(ft eng.Fact) bool {
						call, isNilE, isErr := ft.ErrCall()
						if !isErr || !isNilE || !eng.NameIn(eng.CalleeName(info, call), fnValidate) || len(call.Args) != 2 {
							return false
						}
						return eng.IsObj(info, call.Args[0], keyParam) && eng.SameExpr(info, call.Args[1], valExpr)
					})
				} else {
					detail = "sent value is not a literal with a Val field"
				}
				c.Check(K(g.Name, "send "+short(s.Value)), s.Pos(), ok2,
					"a value enters the search only after Validator.Validate(key, value) succeeded for the requested key and this value", detail)
				return true
			})
			for _, l := range g.Lits {
				visit(l)
			}
		}
		visit(f)
	}
	c.Check("value sends", 0, sends >= 2, "value sends (local+remote, both clients) exist", "found "+itoa(sends))
	// values reach a search's output only through searchValueQuorum (which receives them from
	// processValues, i.e. validated and selected): SearchValue itself, and anything nested in
	// it, sends no []byte
	for _, root := range []string{"(*dht.IpfsDHT).SearchValue", "(*dht/fullrt.FullRT).SearchValue"} {
		rf := c.Fn(root)
		for _, g := range c.P.Funcs() {
			if g.Root() != rf {
				continue
			}
			gi := g.Info()
			g.Walk(func(n ast.Node) bool {
				s, ok := n.(*ast.SendStmt)
				if !ok {
					return true
				}
				if tv, ok := gi.Types[s.Value]; ok && eng.TypeKey(tv.Type) == "[]byte" {
					c.Check(K(g.Name, "send "+short(s.Value)), s.Pos(), false, "SearchValue puts no value on a channel itself: every value on its output went through validation and selection", "a []byte is sent from "+g.Name)
				}
				return true
			})
		}
	}

	// R2 best-so-far
	c.Rule("R2")
	c04R2(c)

	// R3
	c.Rule("R3")
	c04R3(c)

	// R4 public key matches peer
	c.Rule("R4")
	{
		f := c.Fn("(*dht.IpfsDHT).getPublicKeyFromNode")
		info := f.Info()
		cf := f.CFG()
		p := paramObj(f, "p")
		n := 0
		for _, ret := range cf.Returns() {
			if len(ret.Results) != 2 || isNil(info, ret.Results[0]) {
				continue
			}
			r0 := ret.Results[0]
			obj := eng.ObjOf(info, r0)
			// peerstore short cut: value of peerstore.PubKey(p) (key already trusted)
			if def := f.LocalVarDef(obj); def != nil {
				if _, isPS := eng.IsCallTo(info, def, "(github.com/libp2p/go-libp2p/core/peerstore.KeyBook).PubKey"); isPS {
					continue
				}
			}
			n++
			okID, _ := cf.Guarded(cf.LocOf(ret), func(ft eng.Fact) bool {
				call, isNilE, isErr := ft.ErrCall()
				return isErr && isNilE && eng.NameIn(eng.CalleeName(info, call), "github.com/libp2p/go-libp2p/core/peer.IDFromPublicKey") &&
					len(call.Args) == 1 && eng.IsObj(info, call.Args[0], obj)
			})
			okEq, _ := cf.Guarded(cf.LocOf(ret), func(ft eng.Fact) bool {
				x, y, equal, isEq := ft.EqFact()
				if !isEq || !equal {
					return false
				}
				idOf := func(e ast.Expr) bool {
					o := eng.ObjOf(info, e)
					if o == nil {
						return false
					}
					defs := f.AssignedFrom(o)
					for _, d := range defs {
						if call, ok := eng.IsCallTo(info, defOrNil(d), "github.com/libp2p/go-libp2p/core/peer.IDFromPublicKey"); ok && len(call.Args) == 1 && eng.IsObj(info, call.Args[0], obj) {
							return true
						}
					}
					return false
				}
				return (idOf(x) && eng.IsObj(info, y, p)) || (idOf(y) && eng.IsObj(info, x, p))
			})
			c.Check(K(f.Name, "return "+short(r0)), ret.Pos(), okID && okEq,
				"a key fetched from a node is returned only after peer.IDFromPublicKey(key) succeeded and equals the requested peer", "derived="+btoa(okID)+" compared="+btoa(okEq))
		}
		c.Check(K(f.Name, "returns fetched key"), f.Pos(), n >= 1, "getPublicKeyFromNode returns the fetched key somewhere", "no such return")
	}

	// R5 not found
	c.Rule("R5")
	for _, fn := range []string{"(*dht.IpfsDHT).GetValue", "(*dht/fullrt.FullRT).GetValue"} {
		f := c.Fn(fn)
		info := f.Info()
		cf := f.CFG()
		found := false
		for _, ret := range cf.Returns() {
			if len(ret.Results) == 2 && isErrNotFound(info, ret.Results[1]) {
				ok, _ := cf.Guarded(cf.LocOf(ret), func(ft eng.Fact) bool {
					_, isNilF, isN := ft.NilFact()
					return isN && isNilF
				})
				if ok {
					found = true
				}
			}
		}
		c.Check(K(f.Name, "ErrNotFound"), f.Pos(), found, "GetValue returns routing.ErrNotFound when no value was found", "no `return nil, routing.ErrNotFound` behind best == nil")
		// any non-nil value returned with a nil error is the best received
		for _, ret := range cf.Returns() {
			if len(ret.Results) == 2 && isNil(info, ret.Results[1]) && !isNil(info, ret.Results[0]) {
				ok, _ := cf.Guarded(cf.LocOf(ret), func(ft eng.Fact) bool {
					x, isNilF, isN := ft.NilFact()
					return isN && !isNilF && eng.SameExpr(info, x, ret.Results[0])
				})
				c.Check(K(f.Name, "return "+short(ret.Results[0])+", nil"), ret.Pos(), ok, "a nil-error return carries a non-nil value", "value may be nil on this return")
			}
		}
	}

	// R6 dual uses the WAN validator
	c.Rule("R6")
	for _, fn := range []string{"(*dht/dual.DHT).SearchValue", "(*dht/dual.DHT).GetPublicKey", "(*dht/dual.DHT).GetValue"} {
		f := c.P.Func(fn)
		if f == nil {
			continue
		}
		c.Funcs[f.Name] = true
		info := f.Info()
		f.Walk(func(n ast.Node) bool {
			cl, ok := n.(*ast.CompositeLit)
			if !ok {
				return true
			}
			tv, ok := info.Types[cl]
			if !ok || eng.TypeName(tv.Type) != "github.com/libp2p/go-libp2p-routing-helpers.Parallel" {
				return true
			}
			okV := false
			for _, el := range cl.Elts {
				if kv, isKV := el.(*ast.KeyValueExpr); isKV {
					if id, isID := kv.Key.(*ast.Ident); isID && eng.NameOf(id) == "Validator" {
						// dht.WAN.Validator
						if s, isSel := eng.Unparen(kv.Value).(*ast.SelectorExpr); isSel && eng.NameOf(s.Sel) == "Validator" && eng.IsField(info, s.X, "dht/dual.DHT.WAN") {
							okV = true
						}
					}
				}
			}
			c.Check(K(f.Name, "Parallel.Validator"), cl.Pos(), okV, "the dual client validates merged values with the WAN DHT's validator", "Validator field missing or different")
			return true
		})
	}
}

func resultObj(f *eng.Func, name string) *eng.Var {
	if f.Type.Results == nil {
		return nil
	}
	idx := 0
	var byIdx []*eng.Var
	for _, fl := range f.Type.Results.List {
		if len(fl.Names) == 0 {
			byIdx = append(byIdx, nil)
			idx++
			continue
		}
		for _, id := range fl.Names {
			v, _ := f.Info().Defs[id].(*eng.Var)
			if id.Name == name && v != nil {
				recordParam(f.Name, name, idx, true)
				return v
			}
			byIdx = append(byIdx, v)
			idx++
		}
	}
	if i, ok := resultTable[f.Name+"|"+name]; ok && i < len(byIdx) {
		return byIdx[i]
	}
	return nil
}

func isErrNotFound(info *eng.Info, e ast.Expr) bool {
	o := eng.ObjOf(info, e)
	return o != nil && o.Pkg() != nil && o.Pkg().Path() == "github.com/libp2p/go-libp2p/core/routing" && o.Name() == "ErrNotFound"
}

// c04R2: best-so-far discipline of processValues / searchValueQuorum (both clients).
func c04R2(c *Ctx) {
	for _, fn := range []string{"(*dht.IpfsDHT).processValues", "(*dht/fullrt.FullRT).processValues"} {
		f := c.Fn(fn)
		info := f.Info()
		cf := f.CFG()
		best := resultObj(f, "best")
		aborted := resultObj(f, "aborted")
		newVal := paramObj(f, "newVal")
		keyParam := paramObj(f, "key")
		c.Anchor(best != nil && aborted != nil && newVal != nil && keyParam != nil, "%s: named results/params not found", fn)
		// accepted facts: best == nil, or sel == 1 where sel := Select(key, {best, X})
		selOK := func(ft eng.Fact, newcomer ast.Expr) bool {
			if x, isNilF, ok := ft.NilFact(); ok && isNilF && eng.IsObj(info, x, best) {
				return true
			}
			x, op, cst, ok := ft.IntCmp()
			if !ok || op != eng.EQL || cst != 1 {
				return false
			}
			selObj := eng.ObjOf(info, x)
			if selObj == nil {
				return false
			}
			def := f.LocalVarDef(selObj)
			call, isSel := eng.IsCallTo(info, defOrNil(def), fnSelect)
			if !isSel || len(call.Args) != 2 || !eng.IsObj(info, call.Args[0], keyParam) {
				return false
			}
			cl, isCL := eng.Unparen(call.Args[1]).(*ast.CompositeLit)
			if !isCL || len(cl.Elts) != 2 || !eng.IsObj(info, cl.Elts[0], best) {
				return false
			}
			return newcomer == nil || eng.SameExpr(info, cl.Elts[1], newcomer)
		}
		nAssign := 0
		for _, as := range assignsTo(f, func(l ast.Expr) bool { return eng.IsObj(info, l, best) }) {
			for i, l := range as.Lhs {
				if !eng.IsObj(info, l, best) {
					continue
				}
				nAssign++
				rhs := rhsFor(as, i)
				ok := cf.GuardedBySet(cf.LocOf(as), func(ft eng.Fact) bool { return selOK(ft, rhs) })
				c.Check(K(f.Name, "best = "+short(rhs)), as.Pos(), ok,
					"best changes only when there was no best or Select(key, {best, v}) returned the newcomer's index", "assignment reachable without that test")
			}
		}
		c.Check(K(f.Name, "assigns best"), f.Pos(), nAssign >= 1, "processValues updates best", "no assignment found")
		// newVal calls: result assigned to aborted; better==true only under the same guard
		calls := f.Calls("var:newVal")
		c.Check(K(f.Name, "calls newVal"), f.Pos(), len(calls) >= 1, "processValues reports every received value", "found "+itoa(len(calls))+" calls")
		for i, call := range calls {
			as, isAs := c.P.Parent(call).(*ast.AssignStmt)
			kept := isAs && len(as.Lhs) == 1 && eng.IsObj(info, as.Lhs[0], aborted)
			c.Check(K(f.Name, "newVal#"+itoa(i)+" result kept"), call.Pos(), kept,
				"the callback's abort verdict is stored in `aborted` (a dropped verdict lets the search run on after it was stopped)", "result of newVal discarded")
			if len(call.Args) == 3 && isBoolConst(info, call.Args[2], true) {
				ok := cf.GuardedBySet(cf.LocOf(call), func(ft eng.Fact) bool { return selOK(ft, nil) })
				c.Check(K(f.Name, "newVal#"+itoa(i)+" better=true"), call.Pos(), ok, "a value is flagged better only when it replaced best", "better=true reachable without the Select test")
			} else if len(call.Args) == 3 {
				c.Check(K(f.Name, "newVal#"+itoa(i)+" better=false"), call.Pos(), isBoolConst(info, call.Args[2], false), "the better flag is a constant per branch", "non-constant better flag")
			}
		}
		// the loop stops once aborted
		abortGuard := false
		var comms []eng.Loc
		for _, sel := range f.Selects() {
			for _, sc := range eng.SelectCases(info, sel) {
				if sc.Clause.Comm != nil {
					comms = append(comms, cf.LocOf(sc.Clause.Comm))
				}
			}
		}
		abortGuard = len(comms) > 0
		for _, call := range calls {
			// from every report, the next receive is reachable only over the `!aborted` edge
			reach, _ := cf.Reach(cf.LocOf(call), eng.LocSet(comms...), eng.ReachOpt{CutEdge: func(b *eng.Block, i int) bool {
				for _, ft := range cf.EdgeFacts(b, i) {
					if o, truth, ok := ft.BoolVar(); ok && !truth && o == eng.Object(aborted) {
						return true
					}
				}
				return false
			}})
			if reach {
				abortGuard = false
			}
		}
		c.Check(K(f.Name, "abort ends loop"), f.Pos(), abortGuard, "once aborted the loop returns before receiving another value", "no `if aborted { return }` that leaves the loop")
	}
	for _, fn := range []string{"(*dht.IpfsDHT).searchValueQuorum", "(*dht/fullrt.FullRT).searchValueQuorum"} {
		f := c.Fn(fn)
		out := paramObj(f, "out")
		c.Anchor(out != nil, "%s: parameter out not found", fn)
		n := 0
		for _, s := range f.SendsOn(out) {
			n++
			g := s.F
			better := paramObj(g, "better")
			ok, _ := g.CFG().Guarded(g.CFG().LocOf(s.Send), func(ft eng.Fact) bool {
				o, truth, isB := ft.BoolVar()
				return isB && truth && better != nil && o == eng.Object(better)
			})
			c.Check(K(g.Name, "send on out"), s.Send.Pos(), ok, "a value is streamed to the caller only when it is better than all before", "send not guarded by `better`")
		}
		c.Check(K(f.Name, "streams"), f.Pos(), n >= 1, "searchValueQuorum streams values", "no send on out")
		// the better value is streamed before the search may be stopped: every `return true`
		// (abort) of the callback is reached only after the `better` test
		for _, g := range f.Lits {
			better := paramObj(g, "better")
			if better == nil {
				continue
			}
			gcf := g.CFG()
			ginfo := g.Info()
			var tests []eng.Loc
			for _, b := range gcf.G.Blocks {
				if cond := gcf.Cond(b); b.Live && cond != nil && eng.Mentions(ginfo, cond, better) {
					tests = append(tests, gcf.LocOf(cond))
				}
			}
			for _, ret := range gcf.Returns() {
				if len(ret.Results) == 1 && isBoolConst(ginfo, ret.Results[0], true) {
					ok, w := gcf.MustPass(gcf.Entry(), eng.LocSet(gcf.LocOf(ret)), eng.LocSet(tests...))
					c.CheckW(K(g.Name, "stream before stop"), ret.Pos(), ok, "a better value is streamed before the quorum test may end the search", "the abort return is reachable without passing the `better` test", gcf.DescribePath(w))
				}
			}
		}
	}
}
