package rules

import (
	"go/ast"
	"go/token"
	"go/types"
	"sort"
	"strings"

	"kadcheck/internal/eng"
)

func init() {
	register(&Property{
		ID:      "C03",
		Run:     runC03,
		NeedSSA: true,
		Decided: "every potentially blocking operation in the repository functions reachable from the public routing operations has an escape (context/timer/default arm), a covering buffer, a counted or closing partner, or a reviewed reason — an operation in none of these classes is a violation (R1); channel capacities cover their senders (R2); the counted completion wait of the optimistic provide is unreachable when no RPC was issued (R3); " +
			"result channels are closed by a defer registered before any return, or on every path (R4); internal panic sites are unreachable given local guards: no state update after termination, legal state transitions, exhaustive reason strings, unlock only when locked (R5); the follow-up drains its workers (R6); the accelerated fan-out returns early on an empty list and its workers signal exactly once (R7); " +
			"a lookup joins its workers and cancels them on termination (R8); the lookup's channel capacity is at least 1 (R9); abort verdicts are never dropped, so a stop channel is closed once (R10); the watcher context of the optimistic provide lives until the function returns (R11). Added after the seeded rounds: the provider-search channels of both clients are closed on every exit and owned by the entry point (R4); optimistic provide starts one put per peer (R12, shared C06.R7); the dual provider search runs its inner searches under the request context its merger cancels (R13, shared C08.R5). Round 4: a worker of the standard client's value search can abandon its send once the search was stopped (R14, defect D19).",
		NotDecided: "wall-clock bounds, promptness, deadline budgeting arithmetic; liveness in general (a shape argument shows absence of escape-less waits, not progress).",
	})
}

var routingOps = []string{"GetClosestPeers", "FindPeer", "GetValue", "SearchValue", "FindProviders", "FindProvidersAsync", "PutValue", "Provide", "GetPublicKey", "ProvideMany", "PutMany"}

// reviewedBlocking: class B4 — key "<function> | <kind> | <channel>" -> reason (DESIGN.md appendix E.2).
var reviewedBlocking = map[string]string{
	"(*dht/dual.DHT).FindProvidersAsync$2 | select | ":                                     "merger over evtCh/wanCh/lanCh: all three are closed by their owners when the request context ends or the inner search finishes (C03.R4 / C08.R6 for the inner channels; the event channel by waitThenClose); a closed channel is set to nil and the loop ends when both are nil",
	"(*dht.optimisticState).putProviderRecord | send | field dht.optimisticState.doneChan": "capacity returnThreshold; receives are counted up to rpcCount in waitForRPCs/consumeDoneChan, no scheduling happens after rpcCount is read",
	"(*dht.optimisticState).waitForRPCs | range | field dht.optimisticState.doneChan":      "counted exit at returnThreshold <= rpcCount; needs the zero guard of C03.R3",
	"(*dht.optimisticState).waitForRPCs | select | ":                                       "{acquire job-pool lease, receive doneChan}: one of the two is eventually enabled while sends are outstanding; `remaining` iterations = outstanding senders",
	"(*dht.optimisticState).consumeDoneChan | recv | field dht.optimisticState.doneChan":   "matched by one outstanding sender (counted in waitForRPCs)",
	"(*dht.optimisticState).consumeDoneChan | recv | field dht.IpfsDHT.optProvJobsPool":    "releases the lease acquired immediately before this goroutine was spawned",
	"(*dht.IpfsDHT).runLookupWithFollowup | recv | local chan struct{}":                    "drain of the not yet counted workers, bounds verified by C02.R4 (C03.R6)",
	"(*dht.query).run | wait | field dht.query.waitGroup":                                  "deferred join of the lookup's workers; Add/Done discipline verified by C03.R8; workers are cancelled by terminate",
	"(*dht.IpfsDHT).GetPublicKey | recv | local chan dht.pubkrs":                           "`for range 2` over a capacity-2 channel with two once-sending goroutines (C03.R2)",
	"(*dht/fullrt.FullRT).execOnMany | select | ":                                          "counted loop numDone < len(peers) over a channel of capacity len(peers) fed by len(peers) once-sending workers under a timeout context (C03.R7)",
}

// constCapVerified: channels of constant capacity whose sender count is verified elsewhere,
// keyed by "<owner function> | <element type>".
var constCapVerified = map[string]string{
	"(*dht.IpfsDHT).GetPublicKey | dht.pubkrs":                              "two once-sending goroutines, capacity 2 (C03.R2)",
	"(*dht.IpfsDHT).getValues | *dht.lookupWithFollowupResult":              "at most one send per run, capacity 1 (C03.R2)",
	"(*dht/fullrt.FullRT).getValues | *dht/fullrt.lookupWithFollowupResult": "at most one send per run, capacity 1 (C03.R2)",
	"(*dht/internal/net.peerMessageSender).ctxReadMsg | error":              "one reader sending at most once, capacity 1 (C10.R5)",
	"dht/crawler.ctxReadMsg | error":                                        "one reader sending once, capacity 1 (C10.R5)",
}

// chanKey names a channel (or wait group) operand independently of local and receiver
// names: the declaring field for a selector, the type for a local.
func chanKey(info *eng.Info, e ast.Expr) string {
	if e == nil {
		return ""
	}
	switch x := eng.Unparen(e).(type) {
	case *ast.SelectorExpr:
		if fn := eng.FieldName(info, x); fn != "" {
			return "field " + fn
		}
	case *ast.Ident:
		if tv, ok := info.Types[x]; ok {
			return "local " + eng.TypeKey(tv.Type)
		}
	case *ast.CallExpr:
		if s, ok := eng.Unparen(x.Fun).(*ast.SelectorExpr); ok && len(x.Args) == 0 {
			return "call " + eng.CalleeName(info, x) + " of " + chanKey(info, s.X)
		}
	}
	return eng.ExprStr(e)
}

type blockClass struct {
	Class  string
	Reason string
}

// chanOrigin resolves a channel expression to its make() through locals, free variables and
// parameters (following call sites up to depth 3): returns the capacity expression.
func chanOrigin(p *eng.Prog, f *eng.Func, e ast.Expr, depth int) (made bool, capE ast.Expr, owner *eng.Func) {
	info := f.Info()
	obj := eng.ObjOf(info, e)
	if obj == nil || depth > 3 {
		return false, nil, nil
	}
	up := func(g *eng.Func) *eng.Func {
		if g.Parent != nil {
			return g.Parent
		}
		return g.Adopter // a helper read as part of its one user
	}
	for g := f; g != nil; g = up(g) {
		// parameter of g?
		if g.Type.Params != nil {
			idx := 0
			for _, fl := range g.Type.Params.List {
				for _, id := range fl.Names {
					if g.Info().Defs[id] == obj {
						return paramOrigin(p, g, idx, depth)
					}
					idx++
				}
			}
		}
		defs := g.AssignedFrom(obj)
		if len(defs) == 1 && defs[0] != nil {
			if isMake, c := eng.MakeChan(g.Info(), defs[0]); isMake {
				return true, c, g
			}
		}
		if len(defs) > 0 {
			return false, nil, nil
		}
	}
	return false, nil, nil
}

func paramOrigin(p *eng.Prog, g *eng.Func, idx int, depth int) (bool, ast.Expr, *eng.Func) {
	var calls []eng.Site
	if g.Obj != nil {
		for _, s := range p.UsesOf(g.Obj) {
			if call, ok := p.Parent(s.Node).(*ast.CallExpr); ok {
				calls = append(calls, eng.Site{F: s.F, Node: call})
			} else if sel, ok := p.Parent(s.Node).(*ast.SelectorExpr); ok {
				if call, ok := p.Parent(sel).(*ast.CallExpr); ok && call.Fun == ast.Expr(sel) {
					calls = append(calls, eng.Site{F: s.F, Node: call})
				}
			}
		}
	} else if g.Lit != nil {
		if call, ok := p.Parent(g.Lit).(*ast.CallExpr); ok && eng.Unparen(call.Fun) == ast.Expr(g.Lit) {
			calls = append(calls, eng.Site{F: g.Parent, Node: call})
		}
	}
	if len(calls) == 0 {
		return false, nil, nil
	}
	var capE ast.Expr
	var owner *eng.Func
	for _, s := range calls {
		call := s.Call()
		if idx >= len(call.Args) {
			return false, nil, nil
		}
		made, c, o := chanOrigin(p, s.F, call.Args[idx], depth+1)
		if !made || c == nil {
			return false, nil, nil
		}
		capE, owner = c, o
	}
	return true, capE, owner
}

// closedByOwner: the channel is a local of owner, closed on every path from its make to the
// owner's exits (or by a deferred close).
func closedOnAllPaths(owner *eng.Func, obj eng.Object) bool {
	cf := owner.CFG()
	info := owner.Info()
	var mk eng.Loc
	owner.Walk(func(n ast.Node) bool {
		if as, ok := n.(*ast.AssignStmt); ok && len(as.Lhs) >= 1 && eng.ObjOf(info, as.Lhs[0]) == obj {
			if isMake, _ := eng.MakeChan(info, as.Rhs[0]); isMake {
				mk = cf.LocOf(as)
			}
		}
		return true
	})
	if !mk.Valid() {
		return false
	}
	var closes []eng.Loc
	owner.Walk(func(n ast.Node) bool {
		if call, ok := n.(*ast.CallExpr); ok && eng.NameIn(eng.CalleeName(info, call), "builtin.close") && eng.IsObj(info, call.Args[0], obj) {
			closes = append(closes, cf.LocOf(call))
		}
		return true
	})
	ok, _ := cf.MustPass(mk, eng.LocSet(cf.Exits(true)...), eng.LocSet(closes...))
	return ok && len(closes) > 0
}

func classifyBlocking(c *Ctx, op eng.BlockOp) blockClass {
	p := c.P
	f := op.F
	info := f.Info()
	switch op.Kind {
	case "select":
		if ok, why := op.Escapable(); ok {
			return blockClass{"B1", why}
		}
	case "send":
		if made, capE, owner := chanOrigin(p, f, op.Chan, 0); made && capE != nil {
			if _, isConst := eng.ConstInt(owner.Info(), capE); !isConst {
				return blockClass{"B2", "buffered channel, capacity " + eng.ExprStr(capE) + " (bounds its senders: C03.R2/R7, C02.R4)"}
			}
			// a constant capacity covers its senders only where the sender count was verified
			elem := ""
			if tv, ok := info.Types[op.Chan]; ok {
				if ch, isCh := tv.Type.Underlying().(*types.Chan); isCh {
					elem = eng.Short(ch.Elem().String())
				}
			}
			if why, ok := constCapVerified[owner.Name+" | "+elem]; ok {
				return blockClass{"B2", "buffered channel, constant capacity " + eng.ExprStr(capE) + ": " + why}
			}
		}
	case "wait":
		// local WaitGroup: every goroutine of this function that mentions it defers Done (or it uses .Go)
		if wg := eng.ObjOf(info, op.Chan); wg != nil {
			if _, isField := wg.(*eng.Var); isField && !wg.(*eng.Var).IsField() {
				ok := true
				n := 0
				var visit func(g *eng.Func)
				visit = func(g *eng.Func) {
					for _, l := range g.Lits {
						if !eng.Mentions(l.Info(), l.Body, wg) {
							continue
						}
						isGo := l.IsSpawned()
						if call, isCall := p.Parent(l.Lit).(*ast.CallExpr); l.Lit != nil && isCall && eng.CalleeName(g.Info(), call) == "(*sync.WaitGroup).Go" {
							n++
							continue
						}
						if !isGo {
							visit(l)
							continue
						}
						n++
						hasDefer := false
						l.Walk(func(x ast.Node) bool {
							if d, isD := x.(*ast.DeferStmt); isD && eng.CalleeName(l.Info(), d.Call) == "(*sync.WaitGroup).Done" {
								if s, isSel := eng.Unparen(d.Call.Fun).(*ast.SelectorExpr); isSel && eng.IsObj(l.Info(), s.X, wg) {
									// registered before anything that can exit
									if okD, _ := l.CFG().MustPass(l.CFG().Entry(), eng.LocSet(l.CFG().Exits(false)...), eng.LocSet(l.CFG().LocOf(d))); okD {
										hasDefer = true
									}
								}
							}
							return true
						})
						if !hasDefer {
							ok = false
						}
					}
				}
				visit(f.Root())
				// WaitGroup.Go calls on this group (the literal need not mention the group)
				var countGo func(g *eng.Func)
				countGo = func(g *eng.Func) {
					for _, call := range g.Calls("(*sync.WaitGroup).Go") {
						if s, isSel := eng.Unparen(call.Fun).(*ast.SelectorExpr); isSel && eng.IsObj(g.Info(), s.X, wg) {
							n++
						}
					}
					for _, l := range g.Lits {
						countGo(l)
					}
				}
				countGo(f.Root())
				if ok && n > 0 {
					return blockClass{"B3", "local WaitGroup: all " + itoa(n) + " goroutine literals using it signal Done by defer (or WaitGroup.Go)"}
				}
			}
		}
	case "range":
		// a result channel closed by its owner
		e := op.Chan
		if o := eng.ObjOf(info, e); o != nil {
			if d := f.LocalVarDef(o); d != nil {
				e = d
			}
		}
		if call, ok := eng.Unparen(e).(*ast.CallExpr); ok {
			n := eng.CalleeName(info, call)
			if strings.HasSuffix(n, ".SearchValue") || strings.HasSuffix(n, ".FindProvidersAsync") {
				return blockClass{"B3", "result channel of " + n + ", closed by its owner on every exit (C03.R4)"}
			}
		}
		if made, _, owner := chanOrigin(p, f, op.Chan, 0); made && owner != nil {
			if closedOnAllPaths(owner, eng.ObjOf(info, op.Chan)) {
				return blockClass{"B3", "channel closed by " + owner.Name + " on every path"}
			}
		}
	}
	key := f.Name + " | " + op.Kind + " | " + chanKey(info, op.Chan)
	if r, ok := reviewedBlocking[key]; ok {
		return blockClass{"B4", r}
	}
	return blockClass{"", key}
}

func runC03(c *Ctx) {
	p := c.P
	// R1 blocking inventory
	c.Rule("R1")
	{
		var roots []*eng.Func
		for _, t := range []string{"(*dht.IpfsDHT)", "(*dht/fullrt.FullRT)", "(*dht/dual.DHT)"} {
			for _, m := range routingOps {
				if f := p.Func(t + "." + m); f != nil {
					roots = append(roots, f)
				}
			}
		}
		c.Check("entry points", 0, len(roots) >= 20, "the routing operations of the three clients are the entry points", "found "+itoa(len(roots)))
		reach := p.Reachable(roots...)
		counts := map[string]int{}
		used := map[string]bool{}
		var names []*eng.Func
		for f := range reach {
			names = append(names, f)
		}
		sort.Slice(names, func(i, j int) bool { return names[i].Name < names[j].Name })
		nops := 0
		for _, f := range names {
			ops := f.BlockingOps()
			seen := map[string]int{}
			for _, op := range ops {
				nops++
				cl := classifyBlocking(c, op)
				key := op.Kind
				if op.Chan != nil {
					key += " " + short(op.Chan)
				}
				seen[key]++
				if seen[key] > 1 {
					key += "#" + itoa(seen[key])
				}
				counts[cl.Class]++
				if cl.Class == "B4" {
					used[f.Name+" | "+op.Kind+" | "+chanKey(f.Info(), op.Chan)] = true
				}
				c.Funcs[f.Name] = true
				desc := "every blocking operation on a routing path has an escape (B1), a covering buffer (B2), a counted/closing partner (B3) or a reviewed reason (B4)"
				if cl.Class != "" {
					desc += " — here " + cl.Class + ": " + cl.Reason
				}
				c.Check(K(f.Name, key), op.Node.Pos(), cl.Class != "", desc, "unreviewed blocking operation on a routing path: "+cl.Reason)
			}
		}
		c.Notes = append(c.Notes, "blocking inventory: "+itoa(len(reach))+" reachable repository functions, "+itoa(nops)+" blocking operations; B1="+itoa(counts["B1"])+" B2="+itoa(counts["B2"])+" B3="+itoa(counts["B3"])+" B4="+itoa(counts["B4"]))
		c.Check("inventory size", 0, len(reach) >= 100 && nops >= 25, "the call graph from the routing operations was built and inventoried", itoa(len(reach))+" functions, "+itoa(nops)+" operations")
	}

	// R2 capacity = senders
	c.Rule("R2")
	{
		// run: ch has capacity alpha and the same alpha bounds the spawns
		r := c.Fn("(*dht.query).run")
		rinfo := r.Info()
		var chObj, alphaObj eng.Object
		r.Walk(func(n ast.Node) bool {
			if as, ok := n.(*ast.AssignStmt); ok && len(as.Rhs) == 1 {
				if isMake, capE := eng.MakeChan(rinfo, as.Rhs[0]); isMake && capE != nil {
					chObj, alphaObj = eng.ObjOf(rinfo, as.Lhs[0]), eng.ObjOf(rinfo, capE)
				}
			}
			return true
		})
		okA := false
		if alphaObj != nil {
			if d := r.LocalVarDef(alphaObj); d != nil && eng.IsField(rinfo, d, "dht.IpfsDHT.alpha") {
				okA = true
			}
		}
		okB := false
		for _, call := range r.Calls("(*dht.query).isReadyToTerminate") {
			if o := eng.ObjOf(rinfo, call.Args[0]); o != nil {
				if d := r.LocalVarDef(o); d != nil {
					if b, ok := eng.Unparen(d).(*ast.BinaryExpr); ok && b.Op == token.SUB && eng.IsObj(rinfo, b.X, alphaObj) {
						if _, isNW := eng.IsCallTo(rinfo, b.Y, "(*"+qpsT+").NumWaiting"); isNW {
							okB = true
						}
					}
				}
			}
		}
		c.Check(K(r.Name, "channel capacity alpha"), r.Pos(), okA && okB && chObj != nil, "the update channel holds alpha updates and at most alpha - waiting new requests are started, so no worker blocks sending", "capacity or spawn bound differs")
		// the only senders are run itself (seed) and queryPeer via spawnQuery with this channel
		okFlow := false
		for _, call := range r.Calls("(*dht.query).spawnQuery") {
			if len(call.Args) == 4 && eng.IsObj(rinfo, call.Args[3], chObj) {
				okFlow = true
			}
		}
		c.Check(K(r.Name, "channel handed to workers"), r.Pos(), okFlow, "workers report on the lookup's own channel", "spawnQuery gets another channel")

		// GetPublicKey: capacity 2, two spawns each sending once, two receives
		g := c.Fn("(*dht.IpfsDHT).GetPublicKey")
		ginfo := g.Info()
		var resp eng.Object
		var capV int64 = -1
		g.Walk(func(n ast.Node) bool {
			if as, ok := n.(*ast.AssignStmt); ok && len(as.Rhs) == 1 {
				if isMake, capE := eng.MakeChan(ginfo, as.Rhs[0]); isMake && capE != nil {
					resp = eng.ObjOf(ginfo, as.Lhs[0])
					capV, _ = eng.ConstInt(ginfo, capE)
				}
			}
			return true
		})
		nspawn := 0
		okOnce := true
		// one sender per spawn site (a closure started twice is two senders)
		var bodies []*eng.Func
		for _, site := range p.GoSites() {
			if site.F.Root() != g.Root() {
				continue
			}
			if site.Lit != nil {
				bodies = append(bodies, site.Lit)
			} else if site.Target != nil {
				bodies = append(bodies, site.Target)
			}
		}
		for _, l := range bodies {
			var sl []eng.Loc
			for _, s := range l.SendsOn(resp) {
				sl = append(sl, l.CFG().LocOf(s.Send))
			}
			if len(sl) == 0 {
				continue
			}
			nspawn++
			min, max, inLoop, _, _ := l.CFG().CountOnPaths(eng.LocSet(sl...), false)
			if min != 1 || max != 1 || inLoop {
				okOnce = false
			}
		}
		var recvN int64 = -1
		g.Walk(func(n ast.Node) bool {
			if rg, ok := n.(*ast.RangeStmt); ok {
				if v, isC := eng.ConstInt(ginfo, rg.X); isC {
					nrecv := 0
					ast.Inspect(rg.Body, func(x ast.Node) bool {
						if u, isU := x.(*ast.UnaryExpr); isU && u.Op == token.ARROW && eng.IsObj(ginfo, u.X, resp) {
							nrecv++
						}
						return true
					})
					if nrecv == 1 {
						recvN = v
					}
				}
			}
			return true
		})
		c.Check(K(g.Name, "capacity covers senders"), g.Pos(), resp != nil && int64(nspawn) <= capV && okOnce && recvN == int64(nspawn),
			"two lookups report once each on a channel of capacity 2 and exactly as many answers are awaited", "capacity="+itoa(int(capV))+" senders="+itoa(nspawn)+" receives="+itoa(int(recvN)))

		// getValues: lookupResCh capacity 1, at most one send per owner path
		for _, fn := range []string{"(*dht.IpfsDHT).getValues", "(*dht/fullrt.FullRT).getValues"} {
			f := c.Fn(fn)
			info := f.Info()
			var lookupCh eng.Object
			f.Walk(func(n ast.Node) bool {
				if as, ok := n.(*ast.AssignStmt); ok && len(as.Rhs) == 1 {
					if isMake, capE := eng.MakeChan(info, as.Rhs[0]); isMake && capE != nil {
						if tv, ok := info.Types[as.Rhs[0]]; ok && strings.Contains(tv.Type.String(), "lookupWithFollowupResult") {
							lookupCh = eng.ObjOf(info, as.Lhs[0])
							v, _ := eng.ConstInt(info, capE)
							c.Check(K(f.Name, "lookup result channel capacity"), as.Pos(), v >= 1, "the lookup result is handed over without blocking", "capacity < 1")
						}
					}
				}
				return true
			})
			if lookupCh == nil {
				c.Check(K(f.Name, "lookup result channel"), f.Pos(), false, "getValues has a buffered lookup-result channel", "not found")
				continue
			}
			// per function (owner or goroutine) at most one send per path; and owner-send excludes goroutine-send
			total := 0
			for _, g := range append([]*eng.Func{f}, f.Lits...) {
				var sl []eng.Loc
				for _, s := range g.SendsOn(lookupCh) {
					if s.F == g {
						sl = append(sl, g.CFG().LocOf(s.Send))
					}
				}
				if len(sl) == 0 {
					continue
				}
				_, max, inLoop, _, _ := g.CFG().CountOnPaths(eng.LocSet(sl...), false)
				total += max
				c.Check(K(g.Name, "sends lookup result once"), g.Pos(), max <= 1 && !inLoop, "at most one lookup result is sent per run", "max="+itoa(max))
				if g == f && max > 0 {
					// after the owner's own send, the goroutine is not started
					var gos []eng.Loc
					f.Walk(func(n ast.Node) bool {
						if gs, ok := n.(*ast.GoStmt); ok {
							gos = append(gos, f.CFG().LocOf(gs))
						}
						return true
					})
					r, _ := f.CFG().Reach(sl[0], eng.LocSet(gos...), eng.ReachOpt{})
					c.Check(K(f.Name, "early result excludes goroutine"), f.Pos(), !r, "when the owner answers itself, the lookup goroutine is not started", "goroutine reachable after the owner's send")
					total--
				}
			}
			c.Check(K(f.Name, "one sender per run"), f.Pos(), total <= 1, "capacity 1 covers the single sender of a run", "possible sends: "+itoa(total))
		}
	}

	// R3 counted completion wait has a zero guard
	c.Rule("R3")
	{
		f := c.Fn("(*dht.optimisticState).waitForRPCs")
		cf := f.CFG()
		info := f.Info()
		var rng *ast.RangeStmt
		f.Walk(func(n ast.Node) bool {
			if r, ok := n.(*ast.RangeStmt); ok && eng.IsField(info, r.X, "dht.optimisticState.doneChan") {
				rng = r
			}
			return true
		})
		if c.Check(K(f.Name, "counted wait"), f.Pos(), rng != nil, "waitForRPCs waits on the completion channel", "range over doneChan not found") {
			g, _ := cf.Guarded(cf.LocOf(rng.X), func(ft eng.Fact) bool {
				x, op, cst, ok := ft.IntCmp()
				if !ok {
					return false
				}
				nonZero := (op == token.NEQ && cst == 0) || eng.ImpliesAtLeast(op, cst, 1)
				if !nonZero {
					return false
				}
				o := eng.ObjOf(info, x)
				if o == nil {
					return false
				}
				for _, d := range f.AssignedFrom(o) {
					if la := eng.LenArg(info, defOrNil(d)); la != nil && eng.IsField(info, la, "dht.optimisticState.peerStates") {
						return true
					}
				}
				return eng.IsField(info, x, "dht.optimisticState.returnThreshold")
			})
			c.Check(K(f.Name, "zero guard"), rng.Pos(), g, "the wait is not entered when no RPC was issued (nothing would ever be sent)", "range over doneChan reachable with rpcCount == 0")
		}
	}

	// R4 result channels closed on every exit
	c.Rule("R4")
	{
		n := 0
		deferClose := func(g *eng.Func, ch eng.Object, what string) {
			n++
			gcf := g.CFG()
			ginfo := g.Info()
			var defs []eng.Loc
			g.Walk(func(x ast.Node) bool {
				if d, ok := x.(*ast.DeferStmt); ok && eng.NameIn(eng.CalleeName(ginfo, d.Call), "builtin.close") && eng.IsObj(ginfo, d.Call.Args[0], ch) {
					defs = append(defs, gcf.LocOf(d))
				}
				return true
			})
			ok, w := gcf.MustPass(gcf.Entry(), eng.LocSet(gcf.Exits(false)...), eng.LocSet(defs...))
			c.CheckW(K(g.Name, "defer close("+ch.Name()+")"), g.Pos(), ok && len(defs) >= 1, what+" is closed on every exit of its owner (deferred before any return)", "an exit is reachable before the deferred close is registered", gcf.DescribePath(w))
		}
		for _, fn := range []string{"(*dht.IpfsDHT).SearchValue", "(*dht/fullrt.FullRT).SearchValue"} {
			f := c.Fn(fn)
			info := f.Info()
			var out eng.Object
			f.Walk(func(x ast.Node) bool {
				if as, ok := x.(*ast.AssignStmt); ok && len(as.Rhs) == 1 {
					if isMake, _ := eng.MakeChan(info, as.Rhs[0]); isMake {
						if tv := info.Types[as.Rhs[0]]; strings.HasSuffix(tv.Type.String(), "chan []byte") {
							out = eng.ObjOf(info, as.Lhs[0])
						}
					}
				}
				return true
			})
			c.Anchor(out != nil, "%s: out channel not found", fn)
			for _, l := range f.Lits {
				if isGo := l.IsSpawned(); isGo && eng.Mentions(info, l.Body, out) {
					deferClose(l, out, "the value stream")
				}
			}
			// every return that hands out the channel has started that goroutine
			for _, ret := range f.CFG().Returns() {
				if len(ret.Results) == 2 && eng.IsObj(info, ret.Results[0], out) {
					var gos []eng.Loc
					f.Walk(func(x ast.Node) bool {
						if gs, ok := x.(*ast.GoStmt); ok {
							gos = append(gos, f.CFG().LocOf(gs))
						}
						return true
					})
					ok, _ := f.CFG().MustPass(f.CFG().Entry(), eng.LocSet(f.CFG().LocOf(ret)), eng.LocSet(gos...))
					c.Check(K(f.Name, "stream has an owner"), ret.Pos(), ok, "the returned stream is owned by a started goroutine", "channel returned without starting its owner")
				}
			}
		}
		for _, fn := range []string{"(*dht.IpfsDHT).getValues", "(*dht/fullrt.FullRT).getValues"} {
			f := c.Fn(fn)
			info := f.Info()
			var chans []eng.Object
			f.Walk(func(x ast.Node) bool {
				if as, ok := x.(*ast.AssignStmt); ok && len(as.Rhs) == 1 {
					if isMake, _ := eng.MakeChan(info, as.Rhs[0]); isMake {
						chans = append(chans, eng.ObjOf(info, as.Lhs[0]))
					}
				}
				return true
			})
			c.Check(K(f.Name, "two channels"), f.Pos(), len(chans) == 2, "getValues hands out a value and a lookup-result channel", "found "+itoa(len(chans)))
			for _, l := range f.Lits {
				if isGo := l.IsSpawned(); !isGo {
					continue
				}
				for _, ch := range chans {
					deferClose(l, ch, "channel "+ch.Name())
				}
			}
			// every return: goroutine started, or both channels closed explicitly
			cf := f.CFG()
			for i, ret := range cf.Returns() {
				var gos []eng.Loc
				f.Walk(func(x ast.Node) bool {
					if gs, ok := x.(*ast.GoStmt); ok {
						gos = append(gos, cf.LocOf(gs))
					}
					return true
				})
				okAll := true
				for _, ch := range chans {
					var via []eng.Loc
					via = append(via, gos...)
					f.Walk(func(x ast.Node) bool {
						if call, ok := x.(*ast.CallExpr); ok && eng.NameIn(eng.CalleeName(info, call), "builtin.close") && eng.IsObj(info, call.Args[0], ch) {
							via = append(via, cf.LocOf(call))
						}
						return true
					})
					if ok, _ := cf.MustPass(cf.Entry(), eng.LocSet(cf.LocOf(ret)), eng.LocSet(via...)); !ok {
						okAll = false
					}
				}
				c.Check(K(f.Name, "return#"+itoa(i)+" channels owned"), ret.Pos(), okAll, "every returned channel is closed at once or owned by the started goroutine", "a channel can be returned open and ownerless")
			}
		}
		// the provider search: routine closes, entry point closes or hands over
		c08RoutineClosesChannel(c)
		c08EntryOwnsChannel(c)
		c.Check("closed result channels", 0, n >= 3, "value streams and getValues channels of both clients are covered", "found "+itoa(n))
	}

	// R5 panic sites are guarded
	c.Rule("R5")
	{
		// (a) no updateState after terminate
		r := c.Fn("(*dht.query).run")
		rcf := r.CFG()
		rinfo := r.Info()
		ups, _ := rcf.CallLocs("(*dht.query).updateState")
		terms := r.Calls("(*dht.query).terminate")
		c.Check(K(r.Name, "shape"), r.Pos(), len(ups) == 1 && len(terms) >= 2, "run updates state in one place and can terminate on cancellation and on readiness", "found "+itoa(len(ups))+" updates, "+itoa(len(terms))+" terminations")
		for i, t := range terms {
			reach, w := rcf.Reach(rcf.LocOf(t), eng.LocSet(ups...), eng.ReachOpt{CutEdge: func(b *eng.Block, si int) bool {
				for _, ft := range rcf.EdgeFacts(b, si) {
					if _, truth, ok := ft.BoolVar(); ok && !truth && eng.IsField(rinfo, ft.Expr, "dht.query.terminated") {
						return true
					}
				}
				return false
			}})
			c.CheckW(K(r.Name, "no update after terminate#"+itoa(i)), t.Pos(), !reach, "after terminate() the state is never updated again (updateState would panic)", "updateState reachable from terminate without passing the `terminated` test", rcf.DescribePath(w))
		}
		tf := c.Fn("(*dht.query).terminate")
		tcf := tf.CFG()
		tinfo := tf.Info()
		var sets, cancels []eng.Loc
		for _, as := range assignsTo(tf, func(l ast.Expr) bool { return eng.IsField(tinfo, l, "dht.query.terminated") }) {
			if isBoolConst(tinfo, as.Rhs[0], true) {
				sets = append(sets, tcf.LocOf(as))
			}
		}
		cancelP := paramObj(tf, "cancel")
		for _, call := range tf.Calls("var:cancel") {
			if eng.IsObj(tinfo, call.Fun, cancelP) {
				cancels = append(cancels, tcf.LocOf(call))
			}
		}
		for i, ret := range tcf.Returns() {
			if g, _ := tcf.Guarded(tcf.LocOf(ret), func(ft eng.Fact) bool {
				_, truth, ok := ft.BoolVar()
				return ok && truth && eng.IsField(tinfo, ft.Expr, "dht.query.terminated")
			}); g {
				continue
			}
			ok1, _ := tcf.MustPass(tcf.Entry(), eng.LocSet(tcf.LocOf(ret)), eng.LocSet(sets...))
			ok2, _ := tcf.MustPass(tcf.Entry(), eng.LocSet(tcf.LocOf(ret)), eng.LocSet(cancels...))
			c.Check(K(tf.Name, "return#"+itoa(i)+" sticky"), ret.Pos(), ok1, "terminate marks the query terminated on every path (unless it already was)", "a return leaves terminated unset")
			c.Check(K(tf.Name, "return#"+itoa(i)+" cancels"), ret.Pos(), ok2, "terminate cancels the outstanding requests (C03.R8)", "a return skips cancel()")
		}
		// (b) legal transitions
		c01R5(c)
		// (c) reason strings exhaustive
		s := c.Fn("(dht.LookupTerminationReason).String")
		sinfo := s.Info()
		cases := map[string]bool{}
		s.Walk(func(n ast.Node) bool {
			if cc, ok := n.(*ast.CaseClause); ok {
				for _, e := range cc.List {
					if co := eng.ConstObj(sinfo, e); co != nil {
						cases[co.Name()] = true
					}
				}
			}
			return true
		})
		var declared []string
		if pk := p.Pkg("dht"); pk != nil {
			for _, name := range pk.Types.Scope().Names() {
				if cst, ok := pk.Types.Scope().Lookup(name).(*eng.Const); ok && eng.TypeName(cst.Type()) == "dht.LookupTerminationReason" {
					declared = append(declared, name)
				}
			}
		}
		okEx := len(declared) >= 4
		for _, d := range declared {
			if !cases[d] {
				okEx = false
			}
		}
		c.Check(K(s.Name, "exhaustive"), s.Pos(), okEx, "String() has a case for every declared termination reason (its fall-through panics)", "declared "+strings.Join(declared, ",")+"; cases "+itoa(len(cases)))
		for _, t := range p.AllCalls("(*dht.query).terminate") {
			info := t.F.Info()
			arg := t.Call().Args[2]
			ok := eng.ConstObj(info, arg) != nil
			if !ok {
				// the reason variable of isReadyToTerminate, used only when ready
				if o := eng.ObjOf(info, arg); o != nil {
					for _, d := range t.F.AssignedFrom(o) {
						if _, isR := eng.IsCallTo(info, defOrNil(d), "(*dht.query).isReadyToTerminate"); isR {
							ok = true
						}
					}
				}
			}
			c.Check(K(t.F.Name, "reason "+short(arg)), t.Node.Pos(), ok, "terminate receives a declared reason", "unexpected reason expression")
		}
		rt := c.Fn("(*dht.query).isReadyToTerminate")
		for i, ret := range rt.CFG().Returns() {
			if len(ret.Results) == 3 && isBoolConst(rt.Info(), ret.Results[0], true) {
				c.Check(K(rt.Name, "return#"+itoa(i)+" reason"), ret.Pos(), eng.ConstObj(rt.Info(), ret.Results[1]) != nil, "a ready verdict carries a declared reason", "reason is "+short(ret.Results[1]))
			}
		}
		// (d) unlock only when locked
		for _, fn := range []string{pmsFn + "SendRequest", pmsFn + "SendMessage", pmsFn + "prepOrInvalidate"} {
			checkNoBadUnlock(c, c.Fn(fn), nil)
		}
		n := 0
		for _, s := range p.AllCalls("(dht/internal.CtxMutex).Unlock") {
			n++
			c.Funcs[s.F.Name] = true
		}
		c.Check("CtxMutex.Unlock sites", 0, n >= 2, "the context mutex is released in at least 2 places, all covered by the lockset rule", "found "+itoa(n))
		// (e) peerset accessors only from the lookup's own functions
		allowed := map[string]bool{"(*dht.query).updateState": true, "(*dht.query).spawnQuery": true, "(*dht.query).constructLookupResult": true, "(*dht.query).isLookupTermination": true}
		for _, s := range p.AllCalls("(*"+qpsT+").GetState", "(*"+qpsT+").SetState", "(*"+qpsT+").GetReferrer") {
			c.Check(K(s.F.Name, short(s.Call().Fun)), s.Node.Pos(), allowed[s.F.Root().Name], "the panicking peerset accessors are used only on IDs the lookup itself inserted or selected", "accessor used in "+s.F.Name)
		}
	}

	// R6 follow-up drains its workers
	c.Rule("R6")
	c02R4(c)

	// R7 accelerated fan-out
	c.Rule("R7")
	{
		f := c.Fn("(*dht/fullrt.FullRT).execOnMany")
		cf := f.CFG()
		info := f.Info()
		peers := paramObj(f, "peers")
		var errCh eng.Object
		var mk *ast.AssignStmt
		f.Walk(func(n ast.Node) bool {
			if as, ok := n.(*ast.AssignStmt); ok && len(as.Rhs) == 1 {
				if isMake, capE := eng.MakeChan(info, as.Rhs[0]); isMake {
					errCh, mk = eng.ObjOf(info, as.Lhs[0]), as
					la := eng.LenArg(info, defOrNil(capE))
					c.Check(K(f.Name, "capacity len(peers)"), as.Pos(), la != nil && eng.IsObj(info, la, peers), "the result channel holds one result per peer, so workers never block", "capacity is not len(peers)")
				}
			}
			return true
		})
		if c.Check(K(f.Name, "result channel"), f.Pos(), mk != nil, "execOnMany collects results on a channel", "not found") {
			g, _ := cf.Guarded(cf.LocOf(mk), func(ft eng.Fact) bool {
				x, nonEmpty, ok := emptinessFact(ft)
				return ok && nonEmpty && eng.IsObj(info, x, peers)
			})
			c.Check(K(f.Name, "empty list returns first"), mk.Pos(), g, "an empty peer list returns before anything is created", "no dominating len(peers) != 0")
			for _, l := range f.Lits {
				var sl []eng.Loc
				for _, s := range l.SendsOn(errCh) {
					sl = append(sl, l.CFG().LocOf(s.Send))
				}
				if len(sl) == 0 {
					continue
				}
				min, max, inLoop, _, _ := l.CFG().CountOnPaths(eng.LocSet(sl...), false)
				c.Check(K(l.Name, "one result per worker"), l.Pos(), min == 1 && max == 1 && !inLoop, "every worker reports exactly once", "min="+itoa(min)+" max="+itoa(max))
				// spawned once per peer
				okLoop := false
				for x := p.Parent(l.Lit); x != nil; x = p.Parent(x) {
					if rg, ok := x.(*ast.RangeStmt); ok {
						okLoop = eng.IsObj(info, rg.X, peers)
						break
					}
				}
				c.Check(K(l.Name, "one worker per peer"), l.Pos(), okLoop, "one worker per peer of the list", "spawn loop ranges over something else")
			}
			// the wait loop is bounded by len(peers)
			okWait := false
			f.Walk(func(n ast.Node) bool {
				if fs, ok := n.(*ast.ForStmt); ok && fs.Cond != nil {
					if b, isB := eng.Unparen(fs.Cond).(*ast.BinaryExpr); isB && b.Op == token.LSS {
						if la := eng.LenArg(info, b.Y); la != nil && eng.IsObj(info, la, peers) {
							okWait = true
						}
					}
				}
				return true
			})
			c.Check(K(f.Name, "counted wait"), f.Pos(), okWait, "results are awaited at most len(peers) times", "wait loop bound differs")
		}
	}

	// R8 a lookup joins and cancels its workers
	c.Rule("R8")
	{
		s := c.Fn("(*dht.query).spawnQuery")
		scf := s.CFG()
		sinfo := s.Info()
		var gs *ast.GoStmt
		s.Walk(func(n ast.Node) bool {
			if g, ok := n.(*ast.GoStmt); ok {
				gs = g
			}
			return true
		})
		okAdd := false
		for _, call := range s.Calls("(*sync.WaitGroup).Add") {
			if sel, ok := eng.Unparen(call.Fun).(*ast.SelectorExpr); ok && eng.IsField(sinfo, sel.X, "dht.query.waitGroup") && isConstVal(sinfo, call.Args[0], 1) && gs != nil && scf.Dominates(scf.LocOf(call), scf.LocOf(gs)) {
				okAdd = true
			}
		}
		c.Check(K(s.Name, "Add before go"), s.Pos(), okAdd, "the worker is registered with the lookup's WaitGroup before it starts", "waitGroup.Add(1) does not dominate the go statement")
		q := c.Fn("(*dht.query).queryPeer")
		qcf := q.CFG()
		qinfo := q.Info()
		var dd []eng.Loc
		q.Walk(func(n ast.Node) bool {
			if d, ok := n.(*ast.DeferStmt); ok && eng.CalleeName(qinfo, d.Call) == "(*sync.WaitGroup).Done" {
				if sel, isSel := eng.Unparen(d.Call.Fun).(*ast.SelectorExpr); isSel && eng.IsField(qinfo, sel.X, "dht.query.waitGroup") {
					dd = append(dd, qcf.LocOf(d))
				}
			}
			return true
		})
		ok, _ := qcf.MustPass(qcf.Entry(), eng.LocSet(qcf.Exits(false)...), eng.LocSet(dd...))
		c.Check(K(q.Name, "defer Done"), q.Pos(), ok && len(dd) == 1, "the worker signals Done on every exit, including panics", "deferred waitGroup.Done() missing or registered late")
		r := c.Fn("(*dht.query).run")
		rcf := r.CFG()
		rinfo := r.Info()
		var dw, dc []eng.Loc
		var cancelPath eng.Object
		r.Walk(func(n ast.Node) bool {
			switch x := n.(type) {
			case *ast.AssignStmt:
				if len(x.Rhs) == 1 && len(x.Lhs) == 2 {
					if _, isWC := eng.IsCallTo(rinfo, x.Rhs[0], "context.WithCancel"); isWC {
						cancelPath = eng.ObjOf(rinfo, x.Lhs[1])
					}
				}
			case *ast.DeferStmt:
				if eng.CalleeName(rinfo, x.Call) == "(*sync.WaitGroup).Wait" {
					dw = append(dw, rcf.LocOf(x))
				}
				if cancelPath != nil && eng.IsObj(rinfo, x.Call.Fun, cancelPath) {
					dc = append(dc, rcf.LocOf(x))
				}
			}
			return true
		})
		okW, _ := rcf.MustPass(rcf.Entry(), eng.LocSet(rcf.Exits(false)...), eng.LocSet(dw...))
		okC, _ := rcf.MustPass(rcf.Entry(), eng.LocSet(rcf.Exits(false)...), eng.LocSet(dc...))
		c.Check(K(r.Name, "defer Wait"), r.Pos(), okW && len(dw) == 1, "run returns only after all its workers finished", "deferred waitGroup.Wait() missing or registered late")
		c.Check(K(r.Name, "defer cancelPath"), r.Pos(), okC && len(dc) == 1, "the workers' context is cancelled when run returns", "deferred cancelPath() missing")
		// the spawn context derives from pathCtx and terminate gets cancelPath
		for _, t := range r.Calls("(*dht.query).terminate") {
			c.Check(K(r.Name, "terminate cancels the path"), t.Pos(), len(t.Args) == 3 && eng.IsObj(rinfo, t.Args[1], cancelPath), "termination cancels the context all outstanding requests run under", "terminate receives another cancel function")
		}
	}

	// R9 the seed update cannot block
	c.Rule("R9")
	{
		n := 0
		for _, f := range p.Funcs() {
			for _, acc := range f.FieldAccesses("dht.IpfsDHT.alpha") {
				if acc.Write {
					n++
					c.Check(K(f.Name, "writes alpha"), acc.Sel.Pos(), false, "the lookup concurrency is fixed at construction", "alpha written in "+f.Name)
				}
			}
		}
		mk := c.Fn("dht.makeDHT")
		minfo := mk.Info()
		okInit := false
		mk.Walk(func(x ast.Node) bool {
			if kv, ok := x.(*ast.KeyValueExpr); ok {
				if id, isID := kv.Key.(*ast.Ident); isID && eng.NameOf(id) == "alpha" {
					if s, isSel := eng.Unparen(kv.Value).(*ast.SelectorExpr); isSel && eng.NameOf(s.Sel) == "Concurrency" && eng.IsObj(minfo, s.X, paramObj(mk, "cfg")) {
						okInit = true
					}
				}
			}
			return true
		})
		c.Check(K(mk.Name, "alpha = cfg.Concurrency"), mk.Pos(), okInit, "alpha is the configured concurrency", "initialised from something else")
		sites := p.AllCalls("dht.makeDHT")
		c.Check("makeDHT callers", 0, len(sites) >= 1, "makeDHT is called", "no call site")
		for _, s := range sites {
			info := s.F.Info()
			cfgArg := s.Call().Args[1]
			g, _ := s.F.CFG().Guarded(s.F.CFG().LocOf(s.Node), func(ft eng.Fact) bool {
				x, op, cst, ok := ft.IntCmp()
				if !ok || !eng.ImpliesAtLeast(op, cst, 1) {
					return false
				}
				sel, isSel := eng.Unparen(x).(*ast.SelectorExpr)
				return isSel && eng.NameOf(sel.Sel) == "Concurrency" && eng.SameExpr(info, sel.X, cfgArg)
			})
			c.Check(K(s.F.Name, "concurrency >= 1"), s.Node.Pos(), g, "a DHT is only built with a concurrency of at least 1 (the lookup's first send needs a buffer slot)", "makeDHT reachable with cfg.Concurrency < 1")
		}
	}

	// R10 abort verdicts are never dropped
	c.Rule("R10")
	c04R2(c)

	// R12 optimistic provide starts one put per peer: the completion channel is closed after as
	// many signals as peers were scheduled, a second put for a peer sends on the closed channel — C06.R7
	c.Rule("R12")
	c.Share("C06", "R7")

	// R13 the dual provider search ends its inner searches (request context) and closes its channel — C08.R5
	c.Rule("R13")
	c08Dual(c)

	// R11 watcher context lives until the function returns
	c.Rule("R11")
	c03R11(c)

	// R14 a per-peer query function of the standard client's value search that holds a valid
	// record can abandon its send once the search was stopped: the consumer stops reading after a
	// quorum abort, and these functions run under the lookup's (= the caller's) context, so the
	// context arm alone lets them — and the lookup goroutine waiting for them — block until the
	// caller's context ends, which a caller need not ever do (finding D19)
	c.Rule("R14")
	{
		f := c.Fn("(*dht.IpfsDHT).getValues")
		stop := paramObj(f, "stopQuery")
		n := 0
		var visit func(g *eng.Func, depth int)
		visit = func(g *eng.Func, depth int) {
			if depth >= 2 {
				ginfo := g.Info()
				for _, sel := range g.Selects() {
					isValSend, hasStop := false, false
					for _, sc := range eng.SelectCases(ginfo, sel) {
						if sc.Kind == "send" {
							if tv, ok := ginfo.Types[sc.Chan]; ok && strings.Contains(tv.Type.String(), "recvdVal") {
								isValSend = true
							}
						}
						if sc.Kind == "recv" && stop != nil && eng.IsObj(ginfo, sc.Chan, stop) {
							hasStop = true
						}
					}
					if isValSend {
						n++
						c.Check(K(g.Name, "value send can be abandoned after an abort"), sel.Pos(), hasStop, "a worker of the value search that holds a valid record stops waiting to hand it over once the search was stopped (the consumer no longer reads)", "the send's only escape is the caller's context: after a quorum abort the worker, and the lookup that waits for it, stay blocked until the caller's context ends — also across Close")
					}
				}
			}
			for _, l := range g.Lits {
				visit(l, depth+1)
			}
		}
		visit(f, 0)
		c.Check(K(f.Name, "worker value sends"), f.Pos(), n == 1 && stop != nil, "the per-peer query function hands valid records to the consumer in one place", "found "+itoa(n))
	}
}

// c03R11: the optimistic provide's watcher ends with the function (shared with C06.R8: puts
// still in flight when Provide has returned must not be cancellable by the caller any more).
func c03R11(c *Ctx) {
	p := c.P
	{
		f := c.Fn("(*dht.IpfsDHT).optimisticProvide")
		info := f.Info()
		cf := f.CFG()
		outer := paramObj(f, "outerCtx")
		var innerCtx, innerCancel eng.Object
		f.Walk(func(n ast.Node) bool {
			if as, ok := n.(*ast.AssignStmt); ok && len(as.Rhs) == 1 && len(as.Lhs) == 2 {
				if call, isWC := eng.IsCallTo(info, as.Rhs[0], "context.WithCancel"); isWC && eng.IsObj(info, call.Args[0], outer) {
					innerCtx, innerCancel = eng.ObjOf(info, as.Lhs[0]), eng.ObjOf(info, as.Lhs[1])
				}
			}
			return true
		})
		if c.Check(K(f.Name, "inner context"), f.Pos(), innerCancel != nil, "the optimistic provide derives a context that ends when it returns", "not found") {
			nDefer, nDirect := 0, 0
			f.Walk(func(n ast.Node) bool {
				if call, ok := n.(*ast.CallExpr); ok && eng.IsObj(info, call.Fun, innerCancel) {
					if d, isD := p.Parent(call).(*ast.DeferStmt); isD && d.Call == call {
						nDefer++
					} else {
						nDirect++
					}
				}
				return true
			})
			c.Check(K(f.Name, "inner context ends only at return"), f.Pos(), nDefer == 1 && nDirect == 0, "the watcher that turns the caller's cancellation into a stop of the pending puts lives until the function returns", "inner cancel called "+itoa(nDirect)+" times before return, deferred "+itoa(nDefer)+" times")
			// the watcher selects on both contexts and cancels the puts on the outer one
			okWatch := false
			for _, l := range f.Lits {
				for _, sel := range l.Selects() {
					hasOuter, hasInner := false, false
					for _, sc := range eng.SelectCases(l.Info(), sel) {
						if sc.Kind == "ctx" && eng.IsObj(l.Info(), sc.Ctx, outer) {
							for _, st := range sc.Clause.Body {
								if es, isES := st.(*ast.ExprStmt); isES {
									if call, isCall := es.X.(*ast.CallExpr); isCall && eng.CalleeName(l.Info(), call) == "var:putCtxCancel" {
										hasOuter = true
									}
								}
							}
						}
						if sc.Kind == "ctx" && eng.IsObj(l.Info(), sc.Ctx, innerCtx) {
							hasInner = true
						}
					}
					if hasOuter && hasInner {
						okWatch = true
					}
				}
			}
			c.Check(K(f.Name, "watcher"), f.Pos(), okWatch, "a goroutine cancels the pending puts when the caller's context ends, and ends itself with the function", "watcher select not found")
			_ = cf
		}
	}
}
