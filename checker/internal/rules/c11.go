package rules

import (
	"go/ast"

	"kadcheck/internal/eng"
)

func init() {
	register(&Property{
		ID:  "C11",
		Run: runC11,
		Decided: "the per-peer exchange fields (stream, reader, invalid flag, single-message counter) are touched only with the per-peer mutex held, the caller-holds helpers are called only under it (R1); " +
			"on every failing path of an exchange (write error, read error of any kind incl. timeout and cancellation) the stream is reset and dropped before the next attempt or return, with at most one retry (R2); " +
			"a stream is opened only in prep when none exists and the sender is valid; the sender map is accessed only under its lock and lookup+insert form one critical section (R3); " +
			"the reply wait is bounded (R4 = C10.R5); a disconnect removes the map entry and invalidates the sender, and both subscribers call it for every non-Connected event (R5); the reply object is fresh per attempt (R6). Added after the seeded rounds: invalidate() marks the sender invalid on every path, OnDisconnect runs under the client's lifetime context (R5); after a successful write every return lies behind a successful read or a stream reset (R6); a sender leaves the map only behind `prepOrInvalidate invalidated it` (R3, defect D17). Round 4: the creator removes the map entry only while it still is the sender it registered (R3).",
		NotDecided: "FIFO behaviour of the transport; that the remote answers requests in order.",
	})
}

const (
	pmsT  = "dht/internal/net.peerMessageSender"
	msiT  = "dht/internal/net.messageSenderImpl"
	pmsFn = "(*dht/internal/net.peerMessageSender)."
	msiFn = "(*dht/internal/net.messageSenderImpl)."
)

func runC11(c *Ctx) {
	// R1 exclusive exchange
	c.Rule("R1")
	n := checkLockSpec(c, &lockSpec{
		Lock:   pmsT + ".lk",
		Fields: []string{pmsT + ".s", pmsT + ".r", pmsT + ".invalid", pmsT + ".singleMes"},
		CallerHolds: map[string]eng.LockMode{
			pmsFn + "prep": eng.LockW, pmsFn + "invalidate": eng.LockW, pmsFn + "writeMsg": eng.LockW, pmsFn + "ctxReadMsg": eng.LockW,
		},
		ReadNeedsW: true,
	}, "dht/internal/net")
	c.Check("accesses", 0, n >= 10, "the exchange fields are accessed in at least 10 places", "found "+itoa(n))
	for _, name := range []string{pmsFn + "SendRequest", pmsFn + "SendMessage", pmsFn + "prepOrInvalidate"} {
		checkNoBadUnlock(c, c.Fn(name), nil)
	}

	// R2 reset, never reuse, after a failed exchange
	c.Rule("R2")
	for _, name := range []string{pmsFn + "SendRequest", pmsFn + "SendMessage"} {
		f := c.Fn(name)
		cf := f.CFG()
		info := f.Info()
		resets, _ := cf.CallLocs("(github.com/libp2p/go-libp2p/core/network.MuxedStream).Reset", "(github.com/libp2p/go-libp2p/core/network.Stream).Reset")
		var resetLocs []eng.Loc
		for _, l := range resets {
			resetLocs = append(resetLocs, l)
		}
		nilAssigns := assignsTo(f, func(l ast.Expr) bool { return eng.IsField(info, l, pmsT+".s") })
		var nilLocs []eng.Loc
		for _, as := range nilAssigns {
			for i, l := range as.Lhs {
				if eng.IsField(info, l, pmsT+".s") && isNil(info, rhsFor(as, i)) {
					nilLocs = append(nilLocs, cf.LocOf(as))
				}
			}
		}
		preps, _ := cf.CallLocs(pmsFn + "prep")
		retryAssigns := assignsTo(f, func(l ast.Expr) bool {
			id, ok := l.(*ast.Ident)
			return ok && eng.NameOf(id) == "retry"
		})
		var retryTrue []eng.Loc
		var retryObj eng.Object
		for _, as := range retryAssigns {
			if len(as.Rhs) == 1 && isBoolConst(info, as.Rhs[0], true) {
				retryTrue = append(retryTrue, cf.LocOf(as))
				retryObj = eng.ObjOf(info, as.Lhs[0])
			}
		}
		targets := append(append([]eng.Loc{}, cf.Exits(false)...), preps...)
		pats := []string{pmsFn + "writeMsg"}
		if name == pmsFn+"SendRequest" {
			pats = append(pats, pmsFn+"ctxReadMsg")
		}
		for _, pat := range pats {
			edges := errEdges(cf, false, pat)
			c.Check(K(f.Name, "error edge of "+pat), f.Pos(), len(edges) >= 1, "the error of "+pat+" is tested", "no error test found")
			for _, e := range edges {
				ok, w := cf.MustPass(e.Start(), eng.LocSet(targets...), eng.LocSet(resetLocs...))
				c.CheckW(K(f.Name, "reset after failed "+pat), e.Fact.Pos(), ok,
					"after a failed exchange every path to a return or to the next attempt resets the stream",
					"a path avoids Stream.Reset", cf.DescribePath(w))
				ok, w = cf.MustPass(e.Start(), eng.LocSet(targets...), eng.LocSet(nilLocs...))
				c.CheckW(K(f.Name, "drop stream after failed "+pat), e.Fact.Pos(), ok,
					"after a failed exchange every path to a return or to the next attempt clears ms.s",
					"a path keeps the failed stream for reuse", cf.DescribePath(w))
				// one retry: reaching the next attempt requires passing `retry = true`, which is only reachable when retry is false
				ok, w = cf.MustPass(e.Start(), eng.LocSet(preps...), eng.LocSet(retryTrue...))
				c.CheckW(K(f.Name, "retry flag after failed "+pat), e.Fact.Pos(), ok,
					"a second attempt is made only after setting the retry flag", "a path loops without setting retry", cf.DescribePath(w))
			}
		}
		for _, l := range retryTrue {
			ok, _ := cf.Guarded(l, func(ft eng.Fact) bool {
				o, truth, isB := ft.BoolVar()
				return isB && !truth && retryObj != nil && o == retryObj
			})
			c.Check(K(f.Name, "retry = true"), l.B.Nodes[l.I].Pos(), ok, "the retry flag is set only when it was false (at most one retry)", "retry = true not guarded by !retry")
		}
		c.Check(K(f.Name, "retry assignments"), f.Pos(), len(retryTrue) >= 1, "the exchange loop has a retry flag", "no `retry = true` found")
	}

	// R3 one stream per peer
	c.Rule("R3")
	{
		// writes of ms.s anywhere: non-nil only in prep behind !invalid and s == nil
		nonNil := 0
		for _, f := range c.P.Funcs() {
			if eng.Short(f.Pkg.PkgPath) != "dht/internal/net" {
				continue
			}
			info := f.Info()
			for _, as := range assignsTo(f, func(l ast.Expr) bool { return eng.IsField(info, l, pmsT+".s") }) {
				for i, l := range as.Lhs {
					if !eng.IsField(info, l, pmsT+".s") || isNil(info, rhsFor(as, i)) {
						continue
					}
					nonNil++
					cf := f.CFG()
					inPrep := f.Name == pmsFn+"prep"
					g1, _ := cf.Guarded(cf.LocOf(as), func(ft eng.Fact) bool {
						o, truth, isB := ft.BoolVar()
						return isB && !truth && o != nil && eng.VarName(o) == "invalid" && eng.IsField(info, ft.Expr, pmsT+".invalid")
					})
					g2, _ := cf.Guarded(cf.LocOf(as), func(ft eng.Fact) bool {
						x, isNilF, ok := ft.NilFact()
						return ok && isNilF && eng.IsField(info, x, pmsT+".s")
					})
					c.Check(K(f.Name, short(as.Lhs[i])+" = "+short(rhsFor(as, i))), as.Pos(), inPrep && g1 && g2,
						"a stream is installed only in prep, when the sender is valid and has no stream",
						"inPrep="+btoa(inPrep)+" behind !invalid="+btoa(g1)+" behind s==nil="+btoa(g2))
				}
			}
		}
		c.Check("stream installs", 0, nonNil >= 1, "prep installs the stream", "no non-nil assignment to ms.s found")
		// strmap under smlk
		n := checkLockSpec(c, &lockSpec{Lock: msiT + ".smlk", Fields: []string{msiT + ".strmap"}, ReadNeedsW: true,
			Exempt: map[string]string{"dht/internal/net.NewMessageSenderImpl": "constructor"}}, "dht/internal/net")
		c.Check("strmap accesses", 0, n >= 3, "the sender map is accessed in at least 3 places", "found "+itoa(n))
		// creation only when the map has none; lookup and insert in one critical section
		f := c.Fn(msiFn + "messageSenderForPeer")
		cf := f.CFG()
		info := f.Info()
		var lits []*ast.CompositeLit
		f.Walk(func(n ast.Node) bool {
			if cl, ok := n.(*ast.CompositeLit); ok {
				if tv, ok := info.Types[cl]; ok && eng.TypeName(tv.Type) == pmsT {
					lits = append(lits, cl)
				}
			}
			return true
		})
		c.Check(K(f.Name, "creates sender"), f.Pos(), len(lits) == 1, "messageSenderForPeer creates the per-peer sender in one place", "found "+itoa(len(lits)))
		// the lookup `ms, ok := m.strmap[p]` whose miss guards the creation
		var lookup *ast.AssignStmt
		for _, cl := range lits {
			g, _ := cf.Guarded(cf.LocOf(cl), func(ft eng.Fact) bool {
				o, truth, isB := ft.BoolVar()
				if !isB || truth {
					return false
				}
				rhs, idx := cf.LastAssign(ft.B, o)
				ix, isIx := eng.Unparen(defOrNil(rhs)).(*ast.IndexExpr)
				if !isIx || idx != 1 || !eng.IsField(info, ix.X, msiT+".strmap") {
					return false
				}
				if as, isAs := c.P.Parent(ix).(*ast.AssignStmt); isAs {
					lookup = as
				}
				return lookup != nil
			})
			c.Check(K(f.Name, "create only when absent"), cl.Pos(), g, "a sender is created only when the map lookup found none", "creation not guarded by !ok of the lookup")
		}
		c.Anchor(lookup != nil, "map lookup in messageSenderForPeer not found")
		// a sender leaves the map only invalidated (D17): the creator's failure path deletes the
		// entry only behind "prepOrInvalidate invalidated it" — when the creator's context merely
		// ended while it waited for the sender's lock, the sender is untouched and a request that
		// picked it up meanwhile may be using it
		for _, del := range f.Calls("builtin.delete") {
			if len(del.Args) != 2 || !eng.IsField(info, del.Args[0], msiT+".strmap") {
				continue
			}
			g, _ := cf.Guarded(cf.LocOf(del), func(ft eng.Fact) bool {
				o, truth, isB := ft.BoolVar()
				if !isB || !truth {
					return false
				}
				for _, d := range f.AssignedFrom(o) {
					if _, isPI := eng.IsCallTo(info, defOrNil(d), pmsFn+"prepOrInvalidate"); isPI {
						return true
					}
				}
				return false
			})
			c.Check(K(f.Name, "removes only an invalidated sender"), del.Pos(), g, "the creator removes the sender it registered only when prepOrInvalidate reports that it invalidated it", "delete(strmap, p) is reachable when the sender was not invalidated (the context ended while waiting for its lock)")
			// ... and only while the map still holds that very sender: after a disconnect another
			// request may have registered a healthy successor, which must stay
			// some definition of the variable (through copies, e.g. the results of a helper read
			// in place) is the given kind of expression
			var hasDef func(e ast.Expr, is func(ast.Expr) bool, depth int) bool
			hasDef = func(e ast.Expr, is func(ast.Expr) bool, depth int) bool {
				o := eng.ObjOf(info, e)
				if o == nil || depth > 3 {
					return false
				}
				for _, d := range f.AssignedFrom(o) {
					d = eng.Unparen(defOrNil(d))
					if d == nil {
						continue
					}
					if is(d) {
						return true
					}
					if id, isID := d.(*ast.Ident); isID && eng.ObjOf(info, id) != o && hasDef(id, is, depth+1) {
						return true
					}
				}
				return false
			}
			isCur := func(e ast.Expr) bool {
				return hasDef(e, func(d ast.Expr) bool {
					ix, isIx := d.(*ast.IndexExpr)
					return isIx && eng.IsField(info, ix.X, msiT+".strmap")
				}, 0)
			}
			isMine := func(e ast.Expr) bool {
				return hasDef(e, func(d ast.Expr) bool {
					u, isU := d.(*ast.UnaryExpr)
					return isU && len(lits) == 1 && eng.Unparen(u.X) == ast.Expr(lits[0])
				}, 0)
			}
			own, _ := cf.Guarded(cf.LocOf(del), func(ft eng.Fact) bool {
				x, y, equal, isEq := ft.EqFact()
				return isEq && equal && ((isCur(x) && isMine(y)) || (isCur(y) && isMine(x)))
			})
			c.Check(K(f.Name, "removes only its own sender"), del.Pos(), own, "the creator removes the map entry only when it still is the sender it registered (a successor registered after a disconnect stays)", "delete(strmap, p) is not behind `ms == <current entry>`")
		}
		{
			pi := c.Fn(pmsFn + "prepOrInvalidate")
			pcf := pi.CFG()
			pinfo := pi.Info()
			inv, _ := pcf.CallLocs(pmsFn + "invalidate")
			for i, ret := range pcf.Returns() {
				if len(ret.Results) != 2 {
					c.Check(K(pi.Name, "reports invalidation"), ret.Pos(), false, "prepOrInvalidate tells its caller whether it invalidated the sender", "it returns only an error")
					break
				}
				if isBoolConst(pinfo, ret.Results[0], false) {
					continue
				}
				okInv := false
				for _, l := range inv {
					if pcf.Dominates(l, pcf.LocOf(ret)) {
						okInv = true
					}
				}
				c.Check(K(pi.Name, "return#"+itoa(i)+" invalidated means invalidate() ran"), ret.Pos(), okInv, "prepOrInvalidate reports invalidation only after calling invalidate()", "a return that may report true is reachable without invalidate()")
			}
		}
		stores := assignsTo(f, func(l ast.Expr) bool {
			ix, ok := eng.Unparen(l).(*ast.IndexExpr)
			return ok && eng.IsField(info, ix.X, msiT+".strmap")
		})
		c.Check(K(f.Name, "stores sender"), f.Pos(), len(stores) >= 1, "the new sender is stored in the map", "no store found")
		unlocks, _ := cf.CallLocs("(*sync.Mutex).Unlock")
		for _, st := range stores {
			sl := cf.LocOf(st)
			ok := true
			var wit []eng.Loc
			// an unlock between lookup and store breaks the critical section
			for _, u := range unlocks {
				r1, _ := cf.Reach(cf.LocOf(lookup), eng.LocSet(u), eng.ReachOpt{CutLoc: eng.LocSet(sl)})
				r2, w2 := cf.Reach(u, eng.LocSet(sl), eng.ReachOpt{CutLoc: eng.LocSet(cf.LocOf(lookup))})
				if r1 && r2 {
					ok = false
					wit = w2
				}
			}
			c.CheckW(K(f.Name, "lookup and insert atomic"), st.Pos(), ok, "map lookup and insertion of a new sender are one critical section", "the map lock is released between the lookup and the store", cf.DescribePath(wit))
		}
	}

	// R4 bounded read (shared with C10.R5)
	c.Rule("R4")
	c10R5(c)

	// R5 disconnect invalidates
	c.Rule("R5")
	{
		f := c.Fn("(*" + pmsT + ").invalidate")
		cf := f.CFG()
		info := f.Info()
		var marks []eng.Loc
		for _, as := range assignsTo(f, func(l ast.Expr) bool { return eng.IsField(info, l, pmsT+".invalid") }) {
			if isBoolConst(info, as.Rhs[0], true) {
				marks = append(marks, cf.LocOf(as))
			}
		}
		ok, w := cf.MustPass(cf.Entry(), eng.LocSet(cf.Exits(false)...), eng.LocSet(marks...))
		c.CheckW(K(f.Name, "always marks invalid"), f.Pos(), ok && len(marks) >= 1, "a retired sender is marked invalid whether or not it holds a stream (otherwise a caller still holding it opens a stream nothing can reach)", "an exit of invalidate() is reachable without invalid = true", cf.DescribePath(w))
	}
	{
		f := c.Fn(msiFn + "OnDisconnect")
		info := f.Info()
		dels := f.Calls("builtin.delete")
		okDel := false
		for _, d := range dels {
			if len(d.Args) == 2 && eng.IsField(info, d.Args[0], msiT+".strmap") {
				okDel = true
			}
		}
		c.Check(K(f.Name, "delete entry"), f.Pos(), okDel, "OnDisconnect removes the peer's sender from the map", "no delete(m.strmap, p)")
		inv := f.CallsDeep(pmsFn + "invalidate")
		c.Check(K(f.Name, "invalidate"), f.Pos(), len(inv) >= 1, "OnDisconnect invalidates the removed sender", "no call of invalidate")
		// subscribers
		for _, sub := range []struct{ fn, callee string }{
			{"(*dht.IpfsDHT).startNetworkSubscriber", "(dht/pb.MessageSenderWithDisconnect).OnDisconnect"},
			{"(*dht/fullrt.FullRT).runSubscriber", "(dht/pb.MessageSenderWithDisconnect).OnDisconnect"},
		} {
			g := c.Fn(sub.fn)
			sites := g.CallsDeep(sub.callee)
			// under the client's lifetime context: the invalidation runs in a goroutine that takes the
			// per-peer lock under this context, so a context cancelled by the caller right away (or a
			// short timeout) lets a sender that is busy escape invalidation
			for _, s := range sites {
				call := s.Call()
				okCtx := len(call.Args) == 2 && (eng.IsField(s.F.Info(), call.Args[0], "dht.IpfsDHT.ctx") || eng.IsField(s.F.Info(), call.Args[0], "dht/fullrt.FullRT.ctx"))
				c.Check(K(s.F.Name, "OnDisconnect under the lifetime context"), call.Pos(), okCtx, "OnDisconnect is given the client's lifetime context", "context argument is "+short(call.Args[0]))
			}
			c.Check(K(g.Name, "calls OnDisconnect"), g.Pos(), len(sites) >= 1, "the subscriber forwards disconnects to the message sender", "no OnDisconnect call")
			for _, s := range sites {
				scf := s.F.CFG()
				sinfo := s.F.Info()
				// all dominating comparison guards on Connectedness must be `!= Connected`
				okG, _ := scf.Guarded(scf.LocOf(s.Node), func(ft eng.Fact) bool {
					x, y, equal, isEq := ft.EqFact()
					if !isEq || equal {
						return false
					}
					return isConnectedness(sinfo, x) && isConst(sinfo, y, "github.com/libp2p/go-libp2p/core/network.Connected") ||
						isConnectedness(sinfo, y) && isConst(sinfo, x, "github.com/libp2p/go-libp2p/core/network.Connected")
				})
				// and no other connectedness guard narrows it
				narrowed, _ := scf.Guarded(scf.LocOf(s.Node), func(ft eng.Fact) bool {
					x, y, equal, isEq := ft.EqFact()
					if !isEq {
						return false
					}
					if !(isConnectedness(sinfo, x) || isConnectedness(sinfo, y)) {
						return false
					}
					isStd := !equal && (isConst(sinfo, y, "github.com/libp2p/go-libp2p/core/network.Connected") || isConst(sinfo, x, "github.com/libp2p/go-libp2p/core/network.Connected"))
					return !isStd
				})
				c.Check(K(s.F.Name, "OnDisconnect for every non-Connected event"), s.Node.Pos(), okG && !narrowed,
					"OnDisconnect is called exactly when Connectedness != Connected", "guard missing or narrower than != Connected")
			}
		}
		// the event type is subscribed
		for _, fn := range []string{"(*dht.IpfsDHT).startNetworkSubscriber", "dht/fullrt.NewFullRT"} {
			g := c.Fn(fn)
			found := false
			ginfo := g.Info()
			g.WalkDeep(func(n ast.Node) bool {
				if call, ok := n.(*ast.CallExpr); ok && eng.NameIn(eng.CalleeName(ginfo, call), "builtin.new") && len(call.Args) == 1 {
					if tv, ok := ginfo.Types[call.Args[0]]; ok && eng.TypeName(tv.Type) == "github.com/libp2p/go-libp2p/core/event.EvtPeerConnectednessChanged" {
						found = true
					}
				}
				return true
			})
			c.Check(K(g.Name, "subscribes connectedness events"), g.Pos(), found, "the client subscribes to EvtPeerConnectednessChanged", "subscription not found")
		}
	}

	// R6 fresh reply object per attempt
	c.Rule("R6")
	{
		f := c.Fn(pmsFn + "SendRequest")
		info := f.Info()
		cf := f.CFG()
		reads := f.Calls(pmsFn + "ctxReadMsg")
		c.Check(K(f.Name, "reads reply"), f.Pos(), len(reads) == 1, "SendRequest reads the reply in one place", "found "+itoa(len(reads)))
		// once the request was written, the function returns only with the reply read or the
		// stream reset (a reply left unread on a kept stream answers the next request)
		{
			type ek struct {
				b *eng.Block
				i int
			}
			readOK := map[ek]bool{}
			for _, e := range errEdges(cf, true, pmsFn+"ctxReadMsg") {
				readOK[ek{e.B, e.Succ}] = true
			}
			resets, _ := cf.CallLocs("(github.com/libp2p/go-libp2p/core/network.MuxedStream).Reset", "(github.com/libp2p/go-libp2p/core/network.Stream).Reset")
			wrote := errEdges(cf, true, pmsFn+"writeMsg")
			c.Check(K(f.Name, "write success edge"), f.Pos(), len(wrote) >= 1 && len(readOK) >= 1, "the results of the write and of the read are tested", "no nil-error edge found")
			for _, w := range wrote {
				r, wit := cf.Reach(w.Start(), eng.LocSet(cf.Exits(true)...), eng.ReachOpt{
					CutLoc:  eng.LocSet(resets...),
					CutEdge: func(b *eng.Block, i int) bool { return readOK[ek{b, i}] },
				})
				c.CheckW(K(f.Name, "written request is read or reset"), w.Fact.Pos(), !r, "after a successful write every return lies behind a successful read of the reply or a reset of the stream", "a return is reachable with the request written, no reply read and the stream kept", cf.DescribePath(wit))
			}
		}
		for _, r := range reads {
			ok := false
			detail := "reply argument is not a variable allocated inside the retry loop"
			var replyArg ast.Expr
			for _, a := range r.Args {
				if tv, ok := info.Types[a]; ok && eng.TypeName(tv.Type) == "dht/pb.Message" {
					replyArg = a
				}
			}
			if replyArg != nil {
				if obj := eng.ObjOf(info, replyArg); obj != nil {
					def := f.LocalVarDef(obj)
					fresh := false
					if def != nil {
						if _, isNew := eng.IsCallTo(info, def, "builtin.new"); isNew {
							fresh = true
						}
						if u, isU := eng.Unparen(def).(*ast.UnaryExpr); isU {
							if _, isCL := u.X.(*ast.CompositeLit); isCL {
								fresh = true
							}
						}
					}
					// defined inside the innermost loop containing the read
					var loop ast.Node
					for x := c.P.Parent(r); x != nil; x = c.P.Parent(x) {
						if _, isFor := x.(*ast.ForStmt); isFor {
							loop = x
							break
						}
					}
					if fresh && loop != nil && def != nil && eng.Contains(loop, def) {
						ok = true
					}
				}
			}
			c.Check(K(f.Name, "fresh reply per attempt"), r.Pos(), ok, "each attempt reads into a newly allocated message", detail)
		}
	}
}

func btoa(b bool) string {
	if b {
		return "yes"
	}
	return "no"
}

func isConnectedness(info *eng.Info, e ast.Expr) bool {
	tv, ok := info.Types[e]
	return ok && eng.TypeName(tv.Type) == "github.com/libp2p/go-libp2p/core/network.Connectedness" && tv.Value == nil
}

func isConst(info *eng.Info, e ast.Expr, q string) bool {
	c := eng.ConstObj(info, e)
	return c != nil && c.Pkg() != nil && c.Pkg().Path()+"."+c.Name() == q
}
