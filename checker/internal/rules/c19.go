package rules

import (
	"go/ast"
	"go/constant"
	"go/token"
	"go/types"
	"strings"

	"kadcheck/internal/eng"
)

const (
	pqT = "dht/provider/internal/queue.ProvideQueue"
	rqT = "dht/provider/internal/queue.ReprovideQueue"
	xqT = "dht/provider/internal/queue.prefixQueue"
)

func init() {
	register(&Property{
		ID:  "C19",
		Run: runC19,
		Decided: "five necessary structural clauses only: both queues touch their state only under their mutex, the lock-free helper is called only under it (R1); in the prefix queue every deque insertion is paired with a trie insertion of the same prefix and every removal with a trie removal, Push considers every prefix it is given, Clear empties both (R2); " +
			"every component count the persisted key format can produce (an empty prefix vanishes under datastore key cleaning) is accepted by the reader, and Persist replaces the persisted state on every successful return (R3); the last key leaving a prefix removes the prefix (R4); a dequeue prunes exactly the subtrie it returns, and a prefix is only ever enqueued together with at least one key (R5). Round 4: in both batching loops of Persist the turn's operation is counted before the full-batch test runs (R3).",
		NotDecided: "THE BEHAVIOURAL CORE: conformance to the ordered-map contract over all operation histories (exactly-once, oldest-first, absorption position), which is a statement about runtime trie contents.",
	})
}

func recvIsField(info *eng.Info, call *ast.CallExpr, field string) bool {
	s, ok := eng.Unparen(call.Fun).(*ast.SelectorExpr)
	return ok && eng.IsField(info, s.X, field)
}

func runC19(c *Ctx) {
	p := c.P
	// R1 lock discipline
	c.Rule("R1")
	{
		n := checkLockSpec(c, &lockSpec{
			Lock: pqT + ".mu", Fields: []string{pqT + ".queue", pqT + ".keys"}, ReadNeedsW: true,
			CallerHolds: map[string]eng.LockMode{"(*" + pqT + ").enqueueNoLock": eng.LockW},
			Exempt:      map[string]string{"dht/provider/internal/queue.NewProvideQueue": "constructor"},
		}, "dht/provider/internal/queue")
		m := checkLockSpec(c, &lockSpec{
			Lock: rqT + ".mu", Fields: []string{rqT + ".queue"}, ReadNeedsW: true,
			Exempt: map[string]string{"dht/provider/internal/queue.NewReprovideQueue": "constructor"},
		}, "dht/provider/internal/queue")
		c.Check("guarded accesses", 0, n >= 8 && m >= 3, "queue state is accessed in many guarded places", "found "+itoa(n)+" / "+itoa(m))
	}

	// R2 paired updates in the prefix queue
	c.Rule("R2")
	{
		const dq = "github.com/gammazero/deque.Deque"
		push := c.Fn("(*" + xqT + ").Push")
		pcf := push.CFG()
		pinfo := push.Info()
		adds, _ := pcf.CallLocs("(*github.com/ipfs/go-libdht/kad/trie.Trie[K, D]).Add")
		nIns := 0
		push.Walk(func(n ast.Node) bool {
			call, ok := n.(*ast.CallExpr)
			if !ok || !recvIsField(pinfo, call, xqT+".queue") {
				return true
			}
			name := eng.CalleeName(pinfo, call)
			if !strings.HasSuffix(name, ").Insert") && !strings.HasSuffix(name, ").PushBack") && !strings.HasSuffix(name, ").PushFront") {
				return true
			}
			nIns++
			targets := append(loopHeads(pcf, p, call), pcf.Exits(false)...)
			ok2, w := pcf.MustPass(pcf.LocOf(call), eng.LocSet(targets...), eng.LocSet(adds...))
			c.CheckW(K(push.Name, "insert paired "+short(call.Fun)), call.Pos(), ok2, "a prefix inserted into the deque is added to the trie before the next prefix is handled", "the iteration can end without the trie insertion", pcf.DescribePath(w))
			return true
		})
		c.Check(K(push.Name, "insert sites"), push.Pos(), nIns == 2 && len(adds) == 2, "Push inserts in two places (absorbing superstrings, appending)", "found "+itoa(nIns)+" deque insertions, "+itoa(len(adds))+" trie insertions")
		// same prefix in deque and trie
		for _, call := range push.Calls("(*github.com/ipfs/go-libdht/kad/trie.Trie[K, D]).Add") {
			var rng *ast.RangeStmt
			for x := p.Parent(call); x != nil; x = p.Parent(x) {
				if r, ok := x.(*ast.RangeStmt); ok {
					rng = r
					break
				}
			}
			c.Check(K(push.Name, "trie add argument"), call.Pos(), rng != nil && eng.SameExpr(pinfo, call.Args[0], rng.Value), "the trie receives the prefix being pushed", "another key")
		}
		// every prefix is considered: no early exit from the loop
		early := false
		push.Walk(func(n ast.Node) bool {
			switch x := n.(type) {
			case *ast.ReturnStmt:
				if len(x.Results) == 0 && x.Pos() < push.Body.Rbrace-1 {
					// only the materialised implicit return is allowed
					if _, isBlock := p.Parent(x).(*ast.BlockStmt); isBlock {
						early = true
					}
				}
			case *ast.BranchStmt:
				if x.Tok == token.BREAK || x.Tok == token.GOTO {
					early = true
				}
			}
			return true
		})
		nret := 0
		push.Walk(func(n ast.Node) bool {
			if _, ok := n.(*ast.ReturnStmt); ok {
				nret++
			}
			return true
		})
		c.Check(K(push.Name, "handles every prefix"), push.Pos(), !early && nret == 0, "Push considers every prefix it is given (no return or break inside its loop)", "early exit from the loop over prefixes")
		// the append branch only when no prefix of it is queued
		for _, call := range push.Calls("(*" + dq + "[T]).PushBack") {
			g, _ := pcf.Guarded(pcf.LocOf(call), func(ft eng.Fact) bool {
				o, truth, isB := ft.BoolVar()
				if !isB || truth {
					return false
				}
				rhs, idx := pcf.LastAssign(ft.B, o)
				_, isFP := eng.IsCallTo(pinfo, defOrNil(rhs), "dht/provider/internal/keyspace.FindPrefixOfKey")
				return isFP && idx == 1
			})
			c.Check(K(push.Name, "append only when uncovered"), call.Pos(), g, "a prefix is appended only when no queued prefix covers it (prefixes never overlap)", "PushBack not guarded by !FindPrefixOfKey")
		}
		pop := c.Fn("(*" + xqT + ").Pop")
		ocf := pop.CFG()
		oinfo := pop.Info()
		pf := pop.Calls("(*" + dq + "[T]).PopFront")
		rm := pop.Calls("(*github.com/ipfs/go-libdht/kad/trie.Trie[K, D]).Remove")
		okPop := len(pf) == 1 && len(rm) == 1
		if okPop {
			var po eng.Object
			if as, ok := p.Parent(pf[0]).(*ast.AssignStmt); ok {
				po = eng.ObjOf(oinfo, as.Lhs[0])
			}
			ok1, _ := ocf.MustPass(ocf.LocOf(pf[0]), eng.LocSet(ocf.Exits(false)...), eng.LocSet(ocf.LocOf(rm[0])))
			okPop = ok1 && po != nil && eng.IsObj(oinfo, rm[0].Args[0], po)
		}
		c.Check(K(pop.Name, "pop paired"), pop.Pos(), okPop, "a prefix popped from the deque is removed from the trie before Pop returns", "trie removal missing, skippable, or of another key")
		rp := c.Fn("(*" + xqT + ").removePrefixesFromQueue")
		rinfo := rp.Info()
		okRm := len(rp.Calls("(*github.com/ipfs/go-libdht/kad/trie.Trie[K, D]).Remove")) == 1 && len(rp.Calls("(*"+dq+"[T]).Remove")) == 1
		if okRm {
			// the deque index removed is the index of the very prefix removed from the trie
			tr := rp.Calls("(*github.com/ipfs/go-libdht/kad/trie.Trie[K, D]).Remove")[0]
			okRm = false
			for _, l := range rp.Lits {
				l.Walk(func(n ast.Node) bool {
					if b, ok := n.(*ast.BinaryExpr); ok && b.Op == token.EQL && (eng.SameExpr(rinfo, b.Y, tr.Args[0]) || eng.SameExpr(rinfo, b.X, tr.Args[0])) {
						okRm = true
					}
					return true
				})
			}
		}
		c.Check(K(rp.Name, "removal paired"), rp.Pos(), okRm, "prefixes removed from the trie are looked up and removed from the deque too", "deque removal missing or for another key")
		cl := c.Fn("(*" + xqT + ").Clear")
		okCl := len(cl.Calls("(*"+dq+"[T]).Clear")) == 1
		resets := 0
		for _, as := range assignsTo(cl, func(l ast.Expr) bool {
			st, ok := eng.Unparen(l).(*ast.StarExpr)
			return ok && eng.IsField(cl.Info(), st.X, xqT+".prefixes")
		}) {
			if _, isCL := eng.Unparen(as.Rhs[0]).(*ast.CompositeLit); isCL {
				resets++
			}
		}
		c.Check(K(cl.Name, "clears both"), cl.Pos(), okCl && resets == 1, "Clear empties the deque and the trie", "one of the two is left untouched")
	}

	// R3 persist / drain codec agreement
	c.Rule("R3")
	{
		w := c.Fn("(*" + pqT + ").Persist")
		winfo := w.Info()
		counts := map[int]bool{}
		var format string
		w.Walk(func(n ast.Node) bool {
			call, ok := n.(*ast.CallExpr)
			if !ok || eng.CalleeName(winfo, call) != "github.com/ipfs/go-datastore.NewKey" {
				return true
			}
			sp, isSp := eng.IsCallTo(winfo, call.Args[0], "fmt.Sprintf")
			if !isSp {
				return true
			}
			tv := winfo.Types[sp.Args[0]]
			if tv.Value == nil || tv.Value.Kind() != constant.String {
				return true
			}
			format = constant.StringVal(tv.Value)
			comps := strings.Split(strings.Trim(format, "/"), "/")
			argi := 1
			minN, maxN := 0, 0
			for _, comp := range comps {
				mayVanish := false
				nverbs := strings.Count(comp, "%")
				lit := comp
				for v := 0; v < nverbs; v++ {
					if argi < len(sp.Args) {
						at := winfo.Types[sp.Args[argi]].Type
						if b, isB := at.Underlying().(*types.Basic); isB && b.Info()&types.IsString != 0 && strings.Contains(comp, "%s") {
							mayVanish = true
						}
					}
					argi++
				}
				// literal text besides the verb keeps the component
				if strings.Trim(strings.ReplaceAll(strings.ReplaceAll(lit, "%s", ""), "%012x", ""), " ") != "" {
					mayVanish = false
				}
				if strings.Contains(comp, "%012x") || strings.Contains(comp, "%d") {
					mayVanish = false
				}
				maxN++
				if !mayVanish {
					minN++
				}
			}
			for k := minN; k <= maxN; k++ {
				if k > 0 {
					counts[k] = true
				}
			}
			return true
		})
		if !c.Check(K(w.Name, "key format"), w.Pos(), format != "" && len(counts) >= 1, "Persist builds its datastore keys from a constant format", "format not found") {
			return
		}
		r := c.Fn("(*" + pqT + ").DrainDatastore")
		rcf := r.CFG()
		rinfo := r.Info()
		var parts eng.Object
		for _, call := range r.Calls("strings.Split") {
			if as, ok := p.Parent(call).(*ast.AssignStmt); ok {
				parts = eng.ObjOf(rinfo, as.Lhs[0])
			}
		}
		enq := r.Calls("(*" + pqT + ").enqueueNoLock")
		if !c.Check(K(r.Name, "reader shape"), r.Pos(), parts != nil && len(enq) == 1, "DrainDatastore splits the key and re-enqueues", "not found") {
			return
		}
		var rng *ast.RangeStmt
		for x := p.Parent(enq[0]); x != nil; x = p.Parent(x) {
			if rg, ok := x.(*ast.RangeStmt); ok {
				rng = rg
				break
			}
		}
		start := rcf.FirstLocIn(rng.Body.List[0])
		for n := range counts {
			n := n
			// an edge is impossible when one of its facts contradicts len(parts) == n
			impossible := func(b *eng.Block, i int) bool {
				if cond := rcf.Cond(b); cond != nil {
					if tv, ok := rinfo.Types[cond]; ok && tv.Value != nil {
						// constant condition: only one edge exists
						return (tv.Value.String() == "true") != (i == 0)
					}
				}
				for _, ft := range rcf.EdgeFacts(b, i) {
					x, op, cst, ok := ft.IntCmp()
					if !ok {
						continue
					}
					la := eng.LenArg(rinfo, x)
					if la == nil || !eng.IsObj(rinfo, la, parts) {
						continue
					}
					holds := false
					switch op {
					case token.EQL:
						holds = int64(n) == cst
					case token.NEQ:
						holds = int64(n) != cst
					case token.LSS:
						holds = int64(n) < cst
					case token.LEQ:
						holds = int64(n) <= cst
					case token.GTR:
						holds = int64(n) > cst
					case token.GEQ:
						holds = int64(n) >= cst
					}
					if !holds {
						return true
					}
				}
				return false
			}
			reach, _ := rcf.Reach(eng.Loc{B: start.B, I: -2}, eng.LocSet(rcf.LocOf(enq[0])), eng.ReachOpt{CutEdge: impossible})
			c.Check(K(r.Name, "accepts "+itoa(n)+"-component keys"), r.Pos(), reach,
				"every key shape the writer's format `"+format+"` can produce after datastore key cleaning ("+itoa(n)+" component(s): an empty prefix vanishes) is restored by the reader", "the re-enqueue is unreachable for a key with "+itoa(n)+" component(s)")
		}
		// Persist replaces the persisted state: every successful return passed the delete phase and the write loop
		wcf := w.CFG()
		var qloc, wloop []eng.Loc
		for _, call := range w.Calls("(github.com/ipfs/go-datastore.Read).Query", "(github.com/ipfs/go-datastore.Datastore).Query", "(github.com/ipfs/go-datastore.Batching).Query") {
			qloc = append(qloc, wcf.LocOf(call))
		}
		w.Walk(func(n ast.Node) bool {
			if rg, ok := n.(*ast.RangeStmt); ok {
				if call, isCall := eng.Unparen(rg.X).(*ast.CallExpr); isCall && strings.HasSuffix(eng.CalleeName(winfo, call), ").Iter") {
					wloop = append(wloop, wcf.LocOf(rg.X))
				}
			}
			return true
		})
		for i, ret := range wcf.Returns() {
			if len(ret.Results) != 1 || !isNil(winfo, ret.Results[0]) {
				continue
			}
			ok1, _ := wcf.MustPass(wcf.Entry(), eng.LocSet(wcf.LocOf(ret)), eng.LocSet(qloc...))
			ok2, _ := wcf.MustPass(wcf.Entry(), eng.LocSet(wcf.LocOf(ret)), eng.LocSet(wloop...))
			c.Check(K(w.Name, "return#"+itoa(i)+" replaced state"), ret.Pos(), ok1 && ok2 && len(qloc) >= 1 && len(wloop) == 1, "a successful Persist has deleted what was persisted before and written the current queue (also when the queue is empty)", "a nil return is reachable without the delete phase or the write loop")
		}
		c19CountThenCommit(c, w)
		// written in queue order with all keys of each prefix
		okOrder := false
		w.Walk(func(n ast.Node) bool {
			if rg, ok := n.(*ast.RangeStmt); ok {
				if call, isCall := eng.Unparen(rg.X).(*ast.CallExpr); isCall && strings.HasSuffix(eng.CalleeName(winfo, call), ").Iter") {
					if s, isSel := eng.Unparen(call.Fun).(*ast.SelectorExpr); isSel && eng.IsField(winfo, s.X, xqT+".queue") {
						okOrder = true
					}
				}
			}
			return true
		})
		c.Check(K(w.Name, "queue order"), w.Pos(), okOrder, "prefixes are persisted in queue order (the position is part of the key)", "write loop does not iterate the deque")
	}

	// R4 last key removes prefix
	c.Rule("R4")
	{
		f := c.Fn("(*" + pqT + ").Remove")
		cf := f.CFG()
		info := f.Info()
		n := 0
		for _, as := range assignsTo(f, func(l ast.Expr) bool { id, ok := l.(*ast.Ident); return ok && eng.NameOf(id) == "prefixesToRemove" }) {
			if _, isApp := eng.IsCallTo(info, as.Rhs[0], "builtin.append"); !isApp {
				continue
			}
			n++
			g, _ := cf.Guarded(cf.LocOf(as), func(ft eng.Fact) bool {
				o, truth, isB := ft.BoolVar()
				if !isB || truth {
					return false
				}
				rhs, idx := cf.LastAssign(ft.B, o)
				call, isFS := eng.IsCallTo(info, defOrNil(rhs), "dht/provider/internal/keyspace.FindSubtrie")
				return isFS && idx == 1 && eng.IsField(info, call.Args[0], pqT+".keys")
			})
			c.Check(K(f.Name, "prefix without keys"), as.Pos(), g, "a prefix is dropped exactly when no key under it remains", "not guarded by !FindSubtrie(q.keys, prefix)")
		}
		rm := f.Calls("(*" + xqT + ").removePrefixesFromQueue")
		c.Check(K(f.Name, "drops empty prefixes"), f.Pos(), n == 1 && len(rm) == 1, "Remove collects and drops the prefixes left without keys", "found "+itoa(n)+" collections, "+itoa(len(rm))+" removals")
		for _, call := range rm {
			g, _ := cf.Guarded(cf.LocOf(call), func(ft eng.Fact) bool {
				_, nonEmpty, ok := emptinessFact(ft)
				return ok && nonEmpty
			})
			c.Check(K(f.Name, "non-empty removal list"), call.Pos(), g, "removePrefixesFromQueue (which indexes its last element) is called only with a non-empty list", "call not guarded by len > 0")
		}
		// keys are removed from the key trie
		okK := false
		for _, call := range f.Calls("(*github.com/ipfs/go-libdht/kad/trie.Trie[K, D]).Remove") {
			if recvIsField(info, call, pqT+".keys") {
				okK = true
			}
		}
		c.Check(K(f.Name, "removes keys"), f.Pos(), okK, "Remove deletes each key from the key trie", "no q.keys.Remove")
		dm := c.Fn("(*" + pqT + ").DequeueMatching")
		dinfo := dm.Info()
		okDM := len(dm.Calls("(*"+xqT+").Remove")) >= 1
		okShort := false
		for _, call := range dm.Calls("(*" + xqT + ").Remove") {
			if g, _ := dm.CFG().Guarded(dm.CFG().LocOf(call), func(ft eng.Fact) bool {
				o, truth, isB := ft.BoolVar()
				if !isB || truth {
					return false
				}
				rhs, idx := dm.CFG().LastAssign(ft.B, o)
				fs, isFS := eng.IsCallTo(dinfo, defOrNil(rhs), "dht/provider/internal/keyspace.FindSubtrie")
				return isFS && idx == 1 && eng.IsField(dinfo, fs.Args[0], pqT+".keys") && eng.SameExpr(dinfo, fs.Args[1], call.Args[0])
			}); g {
				okShort = true
			}
		}
		c.Check(K(dm.Name, "drops emptied prefix"), dm.Pos(), okDM && okShort, "DequeueMatching drops the matched prefix, and a covering shorter prefix only when no key remains under it", "removal missing or unguarded")
	}

	// R5 dequeue removes what it returns; a prefix needs keys
	c.Rule("R5")
	{
		for _, fn := range []string{"Dequeue", "DequeueMatching"} {
			f := c.Fn("(*" + pqT + ")." + fn)
			cf := f.CFG()
			info := f.Info()
			fs := f.Calls("dht/provider/internal/keyspace.FindSubtrie")
			pr := f.Calls("dht/provider/internal/keyspace.PruneSubtrie")
			av := f.Calls("dht/provider/internal/keyspace.AllValues")
			if !c.Check(K(f.Name, "shape"), f.Pos(), len(fs) >= 1 && len(pr) == 1 && len(av) == 1, fn+" finds, collects and prunes a subtrie", "found "+itoa(len(fs))+"/"+itoa(len(av))+"/"+itoa(len(pr))) {
				continue
			}
			// same trie and prefix for find and prune; values of the found subtrie
			var sub eng.Object
			if as, ok := p.Parent(fs[0]).(*ast.AssignStmt); ok {
				sub = eng.ObjOf(info, as.Lhs[0])
			}
			okSame := eng.IsField(info, fs[0].Args[0], pqT+".keys") && eng.IsField(info, pr[0].Args[0], pqT+".keys") && eng.SameExpr(info, fs[0].Args[1], pr[0].Args[1]) && sub != nil && eng.IsObj(info, av[0].Args[0], sub)
			c.Check(K(f.Name, "prunes what it returns"), pr[0].Pos(), okSame, "the keys returned are the values of the subtrie found for the prefix, and exactly that subtrie is pruned", "find/collect/prune disagree on trie or prefix")
			var keysObj eng.Object
			if as, ok := p.Parent(av[0]).(*ast.AssignStmt); ok {
				keysObj = eng.ObjOf(info, as.Lhs[0])
			}
			for i, ret := range cf.Returns() {
				returnsKeys := false
				for _, r := range ret.Results {
					if keysObj != nil && eng.IsObj(info, r, keysObj) {
						returnsKeys = true
					}
				}
				if !returnsKeys {
					continue
				}
				ok, w := cf.MustPass(cf.Entry(), eng.LocSet(cf.LocOf(ret)), eng.LocSet(cf.LocOf(pr[0])))
				c.CheckW(K(f.Name, "return#"+itoa(i)+" pruned"), ret.Pos(), ok, "keys handed out were removed from the queue first (no key is dequeued twice)", "keys can be returned without pruning", cf.DescribePath(w))
			}
			if fn == "Dequeue" {
				// the prefix is the one popped
				pop := f.Calls("(*" + xqT + ").Pop")
				okP := len(pop) == 1
				if okP {
					if as, ok := p.Parent(pop[0]).(*ast.AssignStmt); ok {
						okP = eng.IsObj(info, fs[0].Args[1], eng.ObjOf(info, as.Lhs[0]))
					}
				}
				c.Check(K(f.Name, "oldest prefix"), f.Pos(), okP, "Dequeue works on the prefix popped from the front of the deque", "another prefix")
			}
		}
		// a prefix is enqueued only together with at least one key
		sites := p.AllCalls("(*" + pqT + ").enqueueNoLock")
		c.Check("enqueue sites", 0, len(sites) == 2, "Enqueue and DrainDatastore enqueue", "found "+itoa(len(sites)))
		for _, s := range sites {
			info := s.F.Info()
			g, _ := s.F.CFG().Guarded(s.F.CFG().LocOf(s.Node), func(ft eng.Fact) bool {
				x, nonEmpty, ok := emptinessFact(ft)
				return ok && nonEmpty && eng.SameExpr(info, x, s.Call().Args[1])
			})
			c.Check(K(s.F.Name, "enqueue with keys only"), s.Node.Pos(), g, "a prefix enters the queue only together with at least one key (a key-less prefix would make Dequeue hand out foreign keys)", "enqueueNoLock not guarded by len(keys) != 0")
		}
		en := c.Fn("(*" + pqT + ").enqueueNoLock")
		einfo := en.Info()
		okPush := false
		for _, call := range en.Calls("(*" + xqT + ").Push") {
			okPush = eng.IsObj(einfo, call.Args[0], paramObj(en, "prefix"))
		}
		okAdd := false
		for _, call := range en.Calls("(*github.com/ipfs/go-libdht/kad/trie.Trie[K, D]).AddMany") {
			okAdd = recvIsField(einfo, call, pqT+".keys")
		}
		c.Check(K(en.Name, "adds prefix and keys"), en.Pos(), okPush && okAdd, "enqueueing pushes the prefix and adds all keys to the key trie", "Push/AddMany missing")
	}
}

// c19CountThenCommit: in each batching loop of Persist an operation is staged, then counted,
// then the full-batch test runs — in that order, on every path through a turn.  The final
// commit after the loop is skipped exactly when the count is a multiple of the batch size,
// which is right only if the test inside the loop saw that same count (a test placed before
// the staging sees the previous count and leaves the last full batch uncommitted).
func c19CountThenCommit(c *Ctx, w *eng.Func) {
	p := c.P
	info := w.Info()
	cf := w.CFG()
	hasRem := func(n ast.Node, counter eng.Object) bool {
		found := false
		ast.Inspect(n, func(x ast.Node) bool {
			if b, ok := x.(*ast.BinaryExpr); ok && b.Op == token.REM && (counter == nil || eng.IsObj(info, b.X, counter)) {
				found = true
			}
			return true
		})
		return found
	}
	nLoops := 0
	w.Walk(func(n ast.Node) bool {
		rg, ok := n.(*ast.RangeStmt)
		if !ok {
			return true
		}
		// staging operations of this loop
		var stages []eng.Loc
		ast.Inspect(rg.Body, func(x ast.Node) bool {
			call, isCall := x.(*ast.CallExpr)
			if !isCall {
				return true
			}
			sel, isSel := eng.Unparen(call.Fun).(*ast.SelectorExpr)
			if !isSel || (sel.Sel.Name != "Put" && sel.Sel.Name != "Delete") {
				return true
			}
			if tv, has := info.Types[sel.X]; has && strings.HasSuffix(eng.TypeName(tv.Type), "go-datastore.Batch") {
				stages = append(stages, cf.LocsOf(call)...)
			}
			return true
		})
		if len(stages) == 0 {
			return true
		}
		nLoops++
		var counter eng.Object
		var incs []eng.Loc
		ast.Inspect(rg.Body, func(x ast.Node) bool {
			if st, isInc := x.(*ast.IncDecStmt); isInc && st.Tok == token.INC {
				if o := eng.ObjOf(info, st.X); o != nil {
					counter = o
					incs = append(incs, cf.LocsOf(st)...)
				}
			}
			return true
		})
		if !c.Check(K(w.Name, "loop#"+itoa(nLoops)+" counts"), rg.Pos(), counter != nil && len(incs) == 1, "each turn of a batching loop counts its operation once", "found "+itoa(len(incs))+" increments") {
			return true
		}
		// the full-batch test: a `counter % size` test in the body, directly or in a local closure handed the counter
		var tests []eng.Loc
		ast.Inspect(rg.Body, func(x ast.Node) bool {
			switch y := x.(type) {
			case *ast.FuncLit:
				return false
			case *ast.CallExpr:
				g := p.ClosureOfLocal(w, y.Fun)
				if g == nil {
					g = p.Func(eng.CalleeName(info, y)) // a helper of the package doing the same
				}
				if g != nil && g.Body != nil && hasRem(g.Body, nil) {
					passes := false
					for _, a := range y.Args {
						if eng.IsObj(info, a, counter) {
							passes = true
						}
					}
					if passes {
						tests = append(tests, cf.LocsOf(y)...)
					}
				}
			case *ast.BinaryExpr:
				if y.Op == token.REM && eng.IsObj(info, y.X, counter) {
					tests = append(tests, cf.LocsOf(y)...)
				}
			}
			return true
		})
		// a location belongs to the loop body when its node does, or when it lies in the copy of a
		// helper read in place of a call in the body
		inBody := func(l eng.Loc) bool {
			if l.I >= 0 && l.I < len(l.B.Nodes) && eng.Contains(rg.Body, l.B.Nodes[l.I]) {
				return true
			}
			cs := cf.CallSiteAt(l)
			return cs != nil && eng.Contains(rg.Body, cs)
		}
		w.Walk(func(x ast.Node) bool {
			if b, isB := x.(*ast.BinaryExpr); isB && b.Op == token.REM && !eng.Contains(rg.Body, b) {
				for _, l := range cf.LocsOf(b) {
					if cf.CallSiteAt(l) != nil && inBody(l) && eng.IsObj(info, exprAt(cf, l, b.X), counter) {
						tests = append(tests, l)
					}
				}
			}
			return true
		})
		var outs []eng.Loc
		for _, b := range cf.G.Blocks {
			if !b.Live {
				continue
			}
			for i := range b.Nodes {
				if l := (eng.Loc{B: b, I: i}); !inBody(l) {
					outs = append(outs, l)
				}
			}
		}
		// error returns inside the body leave the function: only turns that go on matter
		var goOn []eng.Loc
		for _, o := range outs {
			if _, isRet := o.B.Nodes[o.I].(*ast.ReturnStmt); !isRet {
				goOn = append(goOn, o)
			}
		}
		ok1, w1 := cf.MustPass(incs[0], eng.LocSet(goOn...), eng.LocSet(tests...))
		r2, w2 := cf.Reach(cf.FirstLocIn(rg.Body), eng.LocSet(tests...), eng.ReachOpt{CutLoc: eng.LocSet(incs...)})
		wit := w1
		if r2 {
			wit = w2
		}
		c.CheckW(K(w.Name, "loop#"+itoa(nLoops)+" counts before the full-batch test"), rg.Pos(), ok1 && !r2 && len(tests) >= 1, "in a turn the operation is counted first and the full-batch test (count % batchSize) runs after it, before the next turn", "the full-batch test can run before the turn's operation is counted, or a turn can end without it", cf.DescribePath(wit))
		return true
	})
	c.Check(K(w.Name, "batching loops"), w.Pos(), nLoops == 2, "Persist has a delete loop and a write loop, both batched", "found "+itoa(nLoops))
}
