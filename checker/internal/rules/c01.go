package rules

import (
	"go/ast"
	"go/token"
	"sort"
	"strings"

	"kadcheck/internal/eng"
)

const (
	qpsT     = "dht/qpeerset.QueryPeerset"
	fnClosN  = "(*dht/qpeerset.QueryPeerset).GetClosestNInStates"
	fnTryAdd = "(*dht/qpeerset.QueryPeerset).TryAdd"
)

func init() {
	register(&Property{
		ID:  "C01",
		Run: runC01,
		Decided: "the lookup result is GetClosestNInStates(bucketSize, Heard, Waiting, Queried) and the estimator list the 4-state call (R1); that selection sorts before iterating, appends only state-matching entries in iteration order and returns the list or its prefix [:n] (R2); sort() sorts and TryAdd invalidates the order on every insertion; the comparator is true exactly when the left distance compares less (three-valued evaluation) (R3); " +
			"TryAdd is called only from updateState, every response-sourced ID crosses a self filter, update lists are built only from the seeds (NearestPeers(key, bucketSize)) or the filtered response (R4); a failed dial or request reports the peer as unreachable and nothing else, a success as queried, and updateState applies those transitions (R5); the response cap and query filter (R6). Added after the seeded rounds: every peer of update.heard other than self reaches TryAdd on every iteration path (R4); the query filter judges the peer on the merged response+peerstore address list that is then stored (R6); the accelerated client's batches are ClosestN(key, table, tried+step)[tried:] with tried advancing by step (R8, shared C16.R5). Round 4: the lookup's per-response IP-group limit is the diversity filter's per-table limit, each of the filter's limits is stored from its own constructor argument and read only where it applies (R6).",
		NotDecided: "the XOR metric itself (library go-keyspace); which peers a network names; event contents beyond slice identity.",
	})
}

// stateConsts returns the sorted names of the qpeerset state constants passed as variadic args.
func stateConsts(info *eng.Info, args []ast.Expr) string {
	var names []string
	for _, a := range args {
		if co := eng.ConstObj(info, a); co != nil {
			names = append(names, co.Name())
		} else {
			names = append(names, "?"+eng.ExprStr(a))
		}
	}
	sort.Strings(names)
	return strings.Join(names, ",")
}

func runC01(c *Ctx) {
	p := c.P
	// R1 result state-set and size
	c.Rule("R1")
	{
		f := c.Fn("(*dht.query).constructLookupResult")
		info := f.Info()
		var lit *ast.CompositeLit
		f.Walk(func(n ast.Node) bool {
			if cl, ok := n.(*ast.CompositeLit); ok {
				if tv, ok := info.Types[cl]; ok && eng.TypeName(tv.Type) == "dht.lookupWithFollowupResult" {
					lit = cl
				}
			}
			return true
		})
		c.Anchor(lit != nil, "constructLookupResult: result literal not found")
		want := map[string]string{"peers": "PeerHeard,PeerQueried,PeerWaiting", "closest": "PeerHeard,PeerQueried,PeerUnreachable,PeerWaiting"}
		for _, el := range lit.Elts {
			kv, ok := el.(*ast.KeyValueExpr)
			if !ok {
				continue
			}
			name := eng.NameOf(kv.Key.(*ast.Ident))
			states, isWanted := want[name]
			if !isWanted {
				continue
			}
			delete(want, name)
			def := kv.Value
			if o := eng.ObjOf(info, def); o != nil {
				if d := f.LocalVarDef(o); d != nil {
					def = d
				}
			}
			call, isCall := eng.IsCallTo(info, def, fnClosN)
			ok = isCall && len(call.Args) >= 2
			detail := "value is not a GetClosestNInStates call"
			if ok {
				got := stateConsts(info, call.Args[1:])
				okN := eng.IsField(info, call.Args[0], "dht.IpfsDHT.bucketSize")
				ok = okN && got == states
				detail = "count=" + short(call.Args[0]) + " states=" + got
			}
			c.Check(K(f.Name, "result."+name), kv.Pos(), ok, "result."+name+" = the bucketSize nearest peers in states {"+states+"}", detail)
		}
		for name := range want {
			c.Check(K(f.Name, "result."+name), lit.Pos(), false, "the lookup result sets "+name, "field not set")
		}
	}

	c01Closest(c)

	// R2 selection shape
	c.Rule("R2")
	{
		f := c.Fn(fnClosN)
		cf := f.CFG()
		info := f.Info()
		n, states := paramObj(f, "n"), paramObj(f, "states")
		result := resultObj(f, "result")
		c.Anchor(n != nil && states != nil && result != nil, "GetClosestNInStates: params/result not found")
		sorts, _ := cf.CallLocs("(*" + qpsT + ").sort")
		loops := elemLoopsOver(f, func(e ast.Expr) bool { return eng.IsField(info, e, qpsT+".all") })
		if c.Check(K(f.Name, "iterates all"), f.Pos(), len(loops) == 1 && len(sorts) == 1, "the selection sorts and iterates the peer list once", "found "+itoa(len(loops))+" loops, "+itoa(len(sorts))+" sort calls") {
			c.Check(K(f.Name, "sort before iteration"), loops[0].Stmt.Pos(), cf.Dominates(sorts[0], cf.LocOf(loops[0].Head)), "the list is sorted before it is iterated", "iteration reachable without sort()")
			// appends
			isElem := loops[0].IsElem
			napp := 0
			for _, as := range assignsTo(f, func(l ast.Expr) bool { return eng.IsObj(info, l, result) }) {
				app, isApp := eng.IsCallTo(info, as.Rhs[0], "builtin.append")
				if !isApp {
					c.Check(K(f.Name, "result = "+short(as.Rhs[0])), as.Pos(), false, "the result is only ever extended by append", "other assignment")
					continue
				}
				napp++
				okEl := len(app.Args) == 2 && eng.IsObj(info, app.Args[0], result)
				if okEl {
					s, isSel := eng.Unparen(app.Args[1]).(*ast.SelectorExpr)
					okEl = isSel && eng.NameOf(s.Sel) == "id" && isElem(s.X) && eng.Contains(loops[0].Body, as)
				}
				// membership: _, ok := m[p.state]; ok  with m filled from states
				var mObj eng.Object
				okMem, _ := cf.Guarded(cf.LocOf(as), func(ft eng.Fact) bool {
					o, truth, isB := ft.BoolVar()
					if !isB || !truth {
						return false
					}
					rhs, idx := cf.LastAssign(ft.B, o)
					ix, isIx := eng.Unparen(defOrNil(rhs)).(*ast.IndexExpr)
					if !isIx || idx != 1 {
						return false
					}
					s, isSel := eng.Unparen(ix.Index).(*ast.SelectorExpr)
					if !isSel || eng.NameOf(s.Sel) != "state" || !isElem(s.X) {
						return false
					}
					mObj = eng.ObjOf(info, ix.X)
					return mObj != nil
				})
				c.Check(K(f.Name, "append element"), as.Pos(), okEl, "the result is extended by the iterated entry's id, in iteration order", "appended value is not <range var>.id inside the loop")
				c.Check(K(f.Name, "append behind state test"), as.Pos(), okMem, "an entry is selected only when its state is one of the requested states", "append not guarded by membership of p.state")
				// the membership set holds exactly the states parameter
				okSet := false
				if mObj != nil {
					for _, st := range assignsTo(f, func(l ast.Expr) bool {
						ix, ok := eng.Unparen(l).(*ast.IndexExpr)
						return ok && eng.IsObj(info, ix.X, mObj)
					}) {
						ix := eng.Unparen(st.Lhs[0]).(*ast.IndexExpr)
						if eng.Mentions(info, ix.Index, states) {
							okSet = true
						}
						// or the loop variable of a range over states
						if o := eng.ObjOf(info, ix.Index); o != nil {
							for _, d := range f.AssignedFrom(o) {
								if d != nil && eng.Mentions(info, d, states) {
									okSet = true
								}
							}
						}
					}
				}
				c.Check(K(f.Name, "state set"), as.Pos(), okSet, "the membership set is built from the states argument", "set not filled from states")
			}
			c.Check(K(f.Name, "appends"), f.Pos(), napp == 1, "the result is built by one append", "found "+itoa(napp))
		}
		for i, ret := range cf.Returns() {
			var e ast.Expr
			if len(ret.Results) == 1 {
				e = eng.Unparen(ret.Results[0])
			}
			switch x := e.(type) {
			case nil:
				// naked return of the named result
				c.Check(K(f.Name, "return#"+itoa(i)), ret.Pos(), true, "returns the result", "")
			case *ast.Ident:
				c.Check(K(f.Name, "return#"+itoa(i)), ret.Pos(), eng.IsObj(info, x, result), "returns the result", "returns "+short(e))
			case *ast.SliceExpr:
				okPre := eng.IsObj(info, x.X, result) && (x.Low == nil || isZero(info, x.Low)) && x.High != nil && eng.IsObj(info, x.High, n) && x.Max == nil
				g, _ := cf.Guarded(cf.LocOf(ret), func(ft eng.Fact) bool {
					a, op, b, ok := ft.Rel()
					if !ok {
						return false
					}
					if la := eng.LenArg(info, a); la != nil && eng.IsObj(info, la, result) && eng.IsObj(info, b, n) && (op == token.GEQ || op == token.GTR || op == token.EQL) {
						return true
					}
					if la := eng.LenArg(info, b); la != nil && eng.IsObj(info, la, result) && eng.IsObj(info, a, n) && (op == token.LEQ || op == token.LSS || op == token.EQL) {
						return true
					}
					return false
				})
				c.Check(K(f.Name, "return#"+itoa(i)+" prefix"), ret.Pos(), okPre && g, "a shortened result is the prefix result[:n], taken only when len(result) >= n", "slice form or guard differs: "+short(e))
			default:
				c.Check(K(f.Name, "return#"+itoa(i)), ret.Pos(), false, "returns the result or its prefix", "returns "+short(e))
			}
		}
		// sort()
		s := c.Fn("(*" + qpsT + ").sort")
		scf := s.CFG()
		sinfo := s.Info()
		sc := s.Calls("sort.Sort", "sort.Stable", "slices.SortFunc", "slices.SortStableFunc", "sort.Slice", "sort.SliceStable")
		okSort := len(sc) == 1
		if okSort {
			// the only way around the sort is the `sorted` flag
			okSort, _ = passOrFact(scf, scf.Entry(), eng.LocSet(scf.Exits(false)...), []eng.Loc{scf.LocOf(sc[0])}, func(ft eng.Fact) bool {
				_, truth, isB := ft.BoolVar()
				return isB && truth && eng.IsField(sinfo, ft.Expr, qpsT+".sorted")
			})
		}
		c.Check(K(s.Name, "sorts unless sorted"), s.Pos(), okSort, "sort() sorts the list unless the sorted flag is set", "a return avoids the sort without the flag")
		okFlag := false
		for _, as := range assignsTo(s, func(l ast.Expr) bool { return eng.IsField(sinfo, l, qpsT+".sorted") }) {
			if isBoolConst(sinfo, as.Rhs[0], true) && len(sc) == 1 && scf.Dominates(scf.LocOf(sc[0]), scf.LocOf(as)) {
				okFlag = true
			}
		}
		c.Check(K(s.Name, "flag after sort"), s.Pos(), okFlag, "the sorted flag is raised only after sorting", "flag set without sorting")
		// the sort runs over the comparator type
		if len(sc) == 1 {
			tv := sinfo.Types[sc[0].Args[0]]
			c.Check(K(s.Name, "comparator"), sc[0].Pos(), strings.Contains(tv.Type.String(), "sortedQueryPeerset"), "the sort uses the distance comparator", "sorts "+tv.Type.String())
		}
		// TryAdd invalidates the order
		t := c.Fn(fnTryAdd)
		tcf := t.CFG()
		tinfo := t.Info()
		var resets []eng.Loc
		for _, as := range assignsTo(t, func(l ast.Expr) bool { return eng.IsField(tinfo, l, qpsT+".sorted") }) {
			if isBoolConst(tinfo, as.Rhs[0], false) {
				resets = append(resets, tcf.LocOf(as))
			}
		}
		napp := 0
		for _, as := range assignsTo(t, func(l ast.Expr) bool { return eng.IsField(tinfo, l, qpsT+".all") }) {
			napp++
			ok, w := tcf.MustPass(tcf.LocOf(as), eng.LocSet(tcf.Exits(true)...), eng.LocSet(resets...))
			c.CheckW(K(t.Name, "insertion invalidates order"), as.Pos(), ok, "an insertion clears the sorted flag before TryAdd returns", "a return is reachable with a stale sorted flag", tcf.DescribePath(w))
			// inserted with state PeerHeard and the computed distance, only when absent
			g, _ := tcf.Guarded(tcf.LocOf(as), func(ft eng.Fact) bool {
				x, op, cst, ok := ft.IntCmp()
				_, isFind := eng.IsCallTo(tinfo, x, "(*"+qpsT+").find")
				return ok && isFind && (op == token.LSS && cst == 0 || op == token.EQL && cst == -1 || op == token.LEQ && cst == -1)
			})
			c.Check(K(t.Name, "insert only when absent"), as.Pos(), g, "a peer is inserted only when not yet present (no duplicates)", "insertion not guarded by find(p) < 0")
			okInit := false
			if app, isApp := eng.IsCallTo(tinfo, as.Rhs[0], "builtin.append"); isApp && len(app.Args) == 2 {
				if cl, isCL := eng.Unparen(app.Args[1]).(*ast.CompositeLit); isCL {
					pp := paramObj(t, "p")
					got := map[string]bool{}
					for _, el := range cl.Elts {
						kv, isKV := el.(*ast.KeyValueExpr)
						if !isKV {
							continue
						}
						switch eng.NameOf(kv.Key.(*ast.Ident)) {
						case "id":
							got["id"] = eng.IsObj(tinfo, kv.Value, pp)
						case "state":
							co := eng.ConstObj(tinfo, kv.Value)
							got["state"] = co != nil && co.Name() == "PeerHeard"
						case "distance":
							dc, isD := eng.IsCallTo(tinfo, kv.Value, "(*"+qpsT+").distanceToKey")
							got["distance"] = isD && len(dc.Args) == 1 && eng.IsObj(tinfo, dc.Args[0], pp)
						}
					}
					okInit = got["id"] && got["state"] && got["distance"]
				}
			}
			c.Check(K(t.Name, "inserted as heard"), as.Pos(), okInit, "a new peer starts in state heard with its distance to the lookup key", "unexpected initial entry")
		}
		c.Check(K(t.Name, "inserts"), t.Pos(), napp == 1, "TryAdd inserts in one place", "found "+itoa(napp))
	}

	// R3 order relation
	c.Rule("R3")
	{
		f := c.Fn("(*dht/qpeerset.sortedQueryPeerset).Less")
		info := f.Info()
		cf := f.CFG()
		var pi, pj eng.Object
		if len(f.Type.Params.List) >= 1 {
			var ids []*ast.Ident
			for _, fl := range f.Type.Params.List {
				ids = append(ids, fl.Names...)
			}
			if len(ids) == 2 {
				pi, pj = info.Defs[ids[0]], info.Defs[ids[1]]
			}
		}
		c.Anchor(pi != nil && pj != nil, "Less: parameters not found")
		rets := cf.Returns()
		ok := false
		detail := "return is not a comparison of (*big.Int).Cmp with a constant"
		if len(rets) == 1 && len(rets[0].Results) == 1 {
			if b, isB := eng.Unparen(rets[0].Results[0]).(*ast.BinaryExpr); isB {
				call, isCmp := eng.IsCallTo(info, b.X, "(*math/big.Int).Cmp")
				cst, isC := eng.ConstInt(info, b.Y)
				op := b.Op
				if !isCmp {
					call, isCmp = eng.IsCallTo(info, b.Y, "(*math/big.Int).Cmp")
					cst, isC = eng.ConstInt(info, b.X)
					op = map[token.Token]token.Token{token.LSS: token.GTR, token.GTR: token.LSS, token.LEQ: token.GEQ, token.GEQ: token.LEQ, token.EQL: token.EQL, token.NEQ: token.NEQ}[op]
				}
				if isCmp && isC {
					// which operand belongs to index i
					idxOf := func(e ast.Expr) eng.Object {
						e = eng.Unparen(e)
						if o := eng.ObjOf(info, e); o != nil {
							if d := f.LocalVarDef(o); d != nil {
								e = d
							}
						}
						var found eng.Object
						ast.Inspect(e, func(n ast.Node) bool {
							if ix, isIx := n.(*ast.IndexExpr); isIx && (eng.IsField(info, ix.X, qpsT+".all") || eng.IsField(info, ix.X, "dht/qpeerset.sortedQueryPeerset.all")) {
								found = eng.ObjOf(info, ix.Index)
							}
							return true
						})
						if !eng.IsField(info, e, "dht/qpeerset.queryPeerState.distance") {
							return nil
						}
						return found
					}
					recv := idxOf(eng.Unparen(call.Fun).(*ast.SelectorExpr).X)
					arg := idxOf(call.Args[0])
					var wantTrue int64
					switch {
					case recv == pi && arg == pj:
						wantTrue = -1
					case recv == pj && arg == pi:
						wantTrue = 1
					default:
						detail = "operands are not all[i].distance and all[j].distance"
					}
					if wantTrue != 0 {
						ok = true
						for _, v := range []int64{-1, 0, 1} {
							var r bool
							switch op {
							case token.EQL:
								r = v == cst
							case token.NEQ:
								r = v != cst
							case token.LSS:
								r = v < cst
							case token.LEQ:
								r = v <= cst
							case token.GTR:
								r = v > cst
							case token.GEQ:
								r = v >= cst
							}
							if r != (v == wantTrue) {
								ok = false
								detail = "comparator is true for Cmp result " + itoa(int(v)) + " / false for the strict-less case"
							}
						}
					}
				}
			}
		}
		c.Check(K(f.Name, "strictly ascending"), f.Pos(), ok, "Less(i, j) is true exactly when distance(i) < distance(j)", detail)
	}

	// R4 provenance and self-exclusion
	c.Rule("R4")
	{
		sites := p.AllCalls(fnTryAdd)
		c.Check("TryAdd callers", 0, len(sites) >= 1, "TryAdd is called", "no call site")
		f1 := false
		for _, s := range sites {
			c.Check(K(s.F.Name, "calls TryAdd"), s.Node.Pos(), s.F.Name == "(*dht.query).updateState", "peers enter a lookup's peer set only through updateState", "TryAdd called from "+s.F.Name)
			info := s.F.Info()
			g, _ := s.F.CFG().Guarded(s.F.CFG().LocOf(s.Node), func(ft eng.Fact) bool {
				x, y, equal, ok := ft.EqFact()
				if !ok || equal {
					return false
				}
				a0 := s.Call().Args[0]
				return (eng.SameExpr(info, x, a0) && eng.IsField(info, y, "dht.IpfsDHT.self")) || (eng.SameExpr(info, y, a0) && eng.IsField(info, x, "dht.IpfsDHT.self"))
			})
			if g {
				f1 = true
			}
		}
		rc := findRespColl(c)
		qp := rc.F
		qinfo := qp.Info()
		qcf := qp.CFG()
		var saw eng.Object
		// the update sent on success: heard: saw
		var lits []*ast.CompositeLit
		for _, f := range p.Funcs() {
			info := f.Info()
			f.Walk(func(n ast.Node) bool {
				if cl, ok := n.(*ast.CompositeLit); ok {
					if tv, ok := info.Types[cl]; ok && eng.TypeName(tv.Type) == "dht.queryUpdate" {
						lits = append(lits, cl)
						root := f.Root().Name
						for _, el := range cl.Elts {
							kv, isKV := el.(*ast.KeyValueExpr)
							if !isKV || eng.NameOf(kv.Key.(*ast.Ident)) != "heard" {
								continue
							}
							okSrc := false
							switch root {
							case "(*dht.query).run":
								okSrc = eng.IsField(info, kv.Value, "dht.query.seedPeers")
							case "(*dht.query).queryPeer":
								if o := eng.ObjOf(info, kv.Value); o != nil && o == rc.SawQ && rc.Saw != nil {
									saw = rc.Saw
									okSrc = true
								}
							}
							c.Check(K(f.Name, "update.heard = "+short(kv.Value)), kv.Pos(), okSrc, "heard lists are the lookup's seeds or the filtered response of the peer just queried", "unexpected source in "+root)
						}
					}
				}
				return true
			})
		}
		c.Check("queryUpdate literals", 0, len(lits) >= 2, "seed update, two failure updates and the success update exist", "found "+itoa(len(lits)))
		f2 := false
		if c.Check(K(qp.Name, "success update carries response"), qp.Pos(), saw != nil, "the success update carries the peers seen in the response", "no heard list in queryPeer") {
			napp := 0
			for _, as := range assignsTo(qp, func(l ast.Expr) bool { return eng.IsObj(qinfo, l, saw) }) {
				app, isApp := eng.IsCallTo(qinfo, as.Rhs[0], "builtin.append")
				if !isApp {
					// the result of a helper that is read in place
					if call, isCall := eng.Unparen(as.Rhs[0]).(*ast.CallExpr); isCall {
						if h := p.Func(eng.CalleeName(qinfo, call)); h != nil && h.Adopter != nil {
							continue
						}
					}
					// initialisation with an empty list
					if cl, isCL := eng.Unparen(as.Rhs[0]).(*ast.CompositeLit); isCL && len(cl.Elts) == 0 {
						continue
					}
					c.Check(K(qp.Name, "saw = "+short(as.Rhs[0])), as.Pos(), false, "the seen list starts empty and only grows by append", "other assignment")
					continue
				}
				napp++
				// element is <range var over the response>.ID
				okEl := false
				var elemRoot eng.Object
				if len(app.Args) == 2 {
					if s, isSel := eng.Unparen(app.Args[1]).(*ast.SelectorExpr); isSel && eng.NameOf(s.Sel) == "ID" {
						elemRoot = eng.ObjOf(qinfo, s.X)
						for x := p.Parent(as); x != nil; x = p.Parent(x) {
							if rg, isR := x.(*ast.RangeStmt); isR && rg.Value != nil && eng.ObjOf(qinfo, rg.Value) == elemRoot {
								// the ranged list is the queryFn result variable (or the helper parameter bound to it)
								if lo := eng.ObjOf(qinfo, rg.X); lo != nil && lo == rc.Resp {
									okEl = true
								}
							}
						}
					}
				}
				c.Check(K(qp.Name, "seen element"), as.Pos(), okEl, "only IDs named in the response just received are reported as heard", "appended value is not <response element>.ID")
				g, _ := qcf.Guarded(qcf.LocOf(as), func(ft eng.Fact) bool {
					x, y, equal, ok := ft.EqFact()
					if !ok || equal {
						return false
					}
					isEl := func(e ast.Expr) bool {
						s, isSel := eng.Unparen(e).(*ast.SelectorExpr)
						return isSel && eng.NameOf(s.Sel) == "ID" && elemRoot != nil && eng.ObjOf(qinfo, s.X) == elemRoot
					}
					return (isEl(x) && eng.IsField(qinfo, y, "dht.IpfsDHT.self")) || (isEl(y) && eng.IsField(qinfo, x, "dht.IpfsDHT.self"))
				})
				if g {
					f2 = true
				}
			}
			c.Check(K(qp.Name, "collects response"), qp.Pos(), napp == 1, "the response is collected by one append", "found "+itoa(napp))
		}
		// every heard peer other than self reaches TryAdd: no other test may drop one
		{
			u := c.Fn("(*dht.query).updateState")
			uinfo := u.Info()
			ucf := u.CFG()
			loops := elemLoopsOver(u, func(e ast.Expr) bool { return eng.IsField(uinfo, e, "dht.queryUpdate.heard") })
			c.Check(K(u.Name, "heard loop"), u.Pos(), len(loops) == 1, "updateState goes over the heard list once", "found "+itoa(len(loops))+" loops")
			for _, lp := range loops {
				var adds []eng.Loc
				for _, call := range u.Calls(fnTryAdd) {
					if eng.Contains(lp.Body, call) || !eng.Contains(u.Body, call) {
						adds = append(adds, ucf.LocOf(call))
					}
				}
				head := lp.HeadLoc(ucf)
				ok, w := passOrFact(ucf, head, eng.LocSet(head), adds, func(ft eng.Fact) bool {
					x, y, equal, isEq := ft.EqFact()
					if !isEq || !equal {
						return false
					}
					return (lp.IsElem(x) && eng.IsField(uinfo, y, "dht.IpfsDHT.self")) || (lp.IsElem(y) && eng.IsField(uinfo, x, "dht.IpfsDHT.self"))
				})
				c.CheckW(K(u.Name, "every heard peer is added"), lp.Stmt.Pos(), ok && len(adds) >= 1 && head.Valid(), "every peer of update.heard other than the local node is handed to TryAdd (a peer dropped here can be missing from the K nearest when a nearer one fails later)", "an iteration of the heard loop can skip TryAdd for a peer that is not self", ucf.DescribePath(w))
			}
		}
		c.Check("self filter", 0, f1 || f2, "every response-sourced ID crosses at least one `!= self` filter before TryAdd", "neither the filter in queryPeer nor the one in updateState is present")
		// seeds
		rq := c.Fn("(*dht.IpfsDHT).runQuery")
		rinfo := rq.Info()
		np := rq.Calls("(*github.com/libp2p/go-libp2p-kbucket.RoutingTable).NearestPeers")
		okSeed := len(np) == 1 && len(np[0].Args) == 2 && eng.IsField(rinfo, np[0].Args[1], "dht.IpfsDHT.bucketSize")
		c.Check(K(rq.Name, "seeds"), rq.Pos(), okSeed, "a lookup is seeded with the bucketSize nearest routing-table peers", "NearestPeers count is not dht.bucketSize")
		okFlow := false
		if okSeed {
			if as, isAs := p.Parent(np[0]).(*ast.AssignStmt); isAs {
				so := eng.ObjOf(rinfo, as.Lhs[0])
				rq.Walk(func(n ast.Node) bool {
					if kv, ok := n.(*ast.KeyValueExpr); ok {
						if id, isID := kv.Key.(*ast.Ident); isID && eng.NameOf(id) == "seedPeers" && eng.IsObj(rinfo, kv.Value, so) {
							okFlow = true
						}
					}
					return true
				})
			}
		}
		c.Check(K(rq.Name, "seeds flow into query"), rq.Pos(), okFlow, "the query's seedPeers are exactly the NearestPeers result", "seedPeers set from something else")
	}

	// R5 failure => unreachable
	c.Rule("R5")
	c01R5(c)

	// R6 cap and filter
	c.Rule("R6")
	c10R4(c)
	c15QueryFilter(c)
	c01DiversityPlumbing(c)

	// R8 the accelerated client: order, non-overlapping batches, diversity counting (shared with C16.R5)
	c.Rule("R8")
	c16R5(c)

	// R7 published events mirror the state update and are delivered, not dropped
	c.Rule("R7")
	{
		u := c.Fn("(*dht.query).updateState")
		uinfo := u.Info()
		up := paramObj(u, "up")
		calls := u.Calls("dht.NewLookupUpdateEvent")
		okEv := len(calls) == 1 && len(calls[0].Args) == 6
		if okEv {
			fld := func(e ast.Expr, name string) bool {
				s, ok := eng.Unparen(e).(*ast.SelectorExpr)
				return ok && eng.NameOf(s.Sel) == name && eng.IsObj(uinfo, s.X, up)
			}
			a := calls[0].Args
			okEv = fld(a[0], "cause") && fld(a[2], "heard") && isNil(uinfo, a[3]) && fld(a[4], "queried") && fld(a[5], "unreachable")
		}
		c.Check(K(u.Name, "event mirrors update"), u.Pos(), okEv, "the published update event carries exactly the heard/queried/unreachable lists the state update applies", "event arguments differ from the update's lists")
		// the event is published before the state changes on every path
		pub, _ := u.CFG().CallLocs("dht.PublishLookupEvent")
		for _, call := range u.Calls(fnTryAdd, "(*"+qpsT+").SetState") {
			ok := false
			for _, pl := range pub {
				if u.CFG().Dominates(pl, u.CFG().LocOf(call)) {
					ok = true
				}
			}
			c.Check(K(u.Name, "published before "+short(call.Fun)), call.Pos(), ok, "every state change is preceded by its published event", "state change reachable without the event")
		}
		s := c.Fn("(*dht.lookupEventChannel).send")
		sinfo := s.Info()
		sels := s.Selects()
		okSel := len(sels) == 1
		detail := "expected one select"
		if okSel {
			nsend := 0
			for _, sc := range eng.SelectCases(sinfo, sels[0]) {
				switch sc.Kind {
				case "send":
					if eng.IsField(sinfo, sc.Chan, "dht.lookupEventChannel.ch") {
						nsend++
					}
				case "ctx":
				default:
					okSel = false
					detail = "select has a " + sc.Kind + " arm: an event can be dropped while its subscriber is alive"
				}
			}
			if nsend != 1 {
				okSel = false
				detail = "no send arm"
			}
		}
		c.Check(K(s.Name, "delivers or context ends"), s.Pos(), okSel, "an event is dropped only when a context ended, never because the subscriber is slow", detail)
	}
}

// c01R5: update contents per outcome and their application.
func c01R5(c *Ctx) {
	f := c.Fn("(*dht.query).queryPeer")
	info := f.Info()
	cf := f.CFG()
	ch, peerP := paramObj(f, "ch"), paramObj(f, "p")
	c.Anchor(ch != nil && peerP != nil, "queryPeer: params ch/p not found")
	nfail, nok := 0, 0
	for _, s := range f.SendsOn(ch) {
		if s.F != f {
			continue
		}
		u, _ := eng.Unparen(s.Send.Value).(*ast.UnaryExpr)
		var cl *ast.CompositeLit
		if u != nil {
			cl, _ = u.X.(*ast.CompositeLit)
		}
		if !c.Check(K(f.Name, "update literal"), s.Send.Pos(), cl != nil, "updates are literals", "not a &queryUpdate{...} literal") {
			continue
		}
		fields := map[string]ast.Expr{}
		for _, el := range cl.Elts {
			if kv, ok := el.(*ast.KeyValueExpr); ok {
				fields[eng.NameOf(kv.Key.(*ast.Ident))] = kv.Value
			}
		}
		onlyP := func(e ast.Expr) bool {
			l, ok := eng.Unparen(e).(*ast.CompositeLit)
			return ok && len(l.Elts) == 1 && eng.IsObj(info, l.Elts[0], peerP)
		}
		failed, _ := cf.Guarded(cf.LocOf(s.Send), func(ft eng.Fact) bool {
			return ft.ErrOf(false, "(*dht.IpfsDHT).dialPeer", "field:dht.query.queryFn")
		})
		if failed {
			nfail++
			ok := fields["unreachable"] != nil && onlyP(fields["unreachable"]) && fields["queried"] == nil && fields["heard"] == nil && eng.IsObj(info, fields["cause"], peerP)
			c.Check(K(f.Name, "failure update#"+itoa(nfail)), s.Send.Pos(), ok, "a failed dial or request reports exactly the queried peer as unreachable", "update fields: "+short(s.Send.Value))
		} else {
			nok++
			succ, _ := cf.Guarded(cf.LocOf(s.Send), func(ft eng.Fact) bool { return ft.ErrOf(true, "field:dht.query.queryFn") })
			ok := succ && fields["queried"] != nil && onlyP(fields["queried"]) && fields["unreachable"] == nil && eng.IsObj(info, fields["cause"], peerP)
			c.Check(K(f.Name, "success update"), s.Send.Pos(), ok, "a successful request reports exactly the queried peer as queried", "update fields: "+short(s.Send.Value))
		}
	}
	// (that a failing run sends a failure update follows from: exactly one update per run, and the success update needs a nil error)
	c.Check(K(f.Name, "failure updates"), f.Pos(), nfail >= 1 && nok == 1, "failure and success each send their own update", "found "+itoa(nfail)+" failure and "+itoa(nok)+" success updates")
	// exactly one update per run
	var sl []eng.Loc
	for _, s := range f.SendsOn(ch) {
		if s.F == f {
			sl = append(sl, cf.LocOf(s.Send))
		}
	}
	min, max, inLoop, _, _ := cf.CountOnPaths(eng.LocSet(sl...), true)
	c.Check(K(f.Name, "one update per run"), f.Pos(), min == 1 && max == 1 && !inLoop, "every run of queryPeer sends exactly one update", "min="+itoa(min)+" max="+itoa(max))
	// updateState applies the transitions
	u := c.Fn("(*dht.query).updateState")
	uinfo := u.Info()
	ucf := u.CFG()
	want := map[string]string{"queried": "PeerQueried", "unreachable": "PeerUnreachable"}
	seen := map[string]bool{}
	for _, call := range u.Calls("(*" + qpsT + ").SetState") {
		// one verdict per standing place of the call (a helper extracted for both loops stands in two)
		for _, at := range ucf.LocsOf(call) {
			st := eng.ConstObj(uinfo, exprAt(ucf, at, call.Args[1]))
			if st == nil {
				continue
			}
			peerArg := exprAt(ucf, at, call.Args[0])
			var anchor ast.Node = call
			if cs := ucf.CallSiteAt(at); cs != nil {
				anchor = cs
			}
			// enclosing range over up.<field>
			for x := c.P.Parent(anchor); x != nil; x = c.P.Parent(x) {
				rg, ok := x.(*ast.RangeStmt)
				if !ok {
					continue
				}
				s, isSel := eng.Unparen(rg.X).(*ast.SelectorExpr)
				if !isSel {
					break
				}
				fld := eng.NameOf(s.Sel)
				okT := want[fld] == st.Name() && rg.Value != nil && eng.SameExpr(uinfo, peerArg, rg.Value)
				g := ucf.GuardedAt(at, func(ft eng.Fact) bool {
					x, y, equal, isEq := ft.EqFact()
					if !isEq || !equal {
						return false
					}
					w := func(e ast.Expr) bool { co := eng.ConstObj(uinfo, e); return co != nil && co.Name() == "PeerWaiting" }
					return w(x) || w(y)
				})
				c.Check(K(u.Name, fld+" -> "+st.Name()), call.Pos(), okT && g, "every peer of update."+fld+" moves from waiting to "+want[fld], "wrong target state, wrong peer, or not from waiting")
				if okT {
					seen[fld] = true
				}
				break
			}
		}
	}
	for fld := range want {
		c.Check(K(u.Name, "applies "+fld), u.Pos(), seen[fld], "updateState applies update."+fld, "no transition found")
	}
}

// c15QueryFilter: the query filter (or being the target) dominates adding a response peer.
func c15QueryFilter(c *Ctx) {
	rc := findRespColl(c)
	f := rc.F
	info := f.Info()
	cf := f.CFG()
	n := 0
	for _, as := range assignsTo(f, func(l ast.Expr) bool { return rc.Saw != nil && eng.IsObj(info, l, rc.Saw) }) {
		if _, isApp := eng.IsCallTo(info, as.Rhs[0], "builtin.append"); !isApp {
			continue
		}
		n++
		at := func(leaf ast.Expr) (string, bool, bool) {
			if call, ok := eng.Unparen(leaf).(*ast.CallExpr); ok && eng.CalleeName(info, call) == "field:dht.IpfsDHT.queryPeerFilter" {
				return "filter", true, true
			}
			if o := eng.ObjOf(info, leaf); o != nil {
				if d := f.LocalVarDef(o); d != nil {
					if b, isB := eng.Unparen(d).(*ast.BinaryExpr); isB && b.Op == token.EQL && (eng.IsField(info, b.Y, "dht.query.key") || eng.IsField(info, b.X, "dht.query.key")) {
						return "isTarget", true, true
					}
				}
			}
			return "", false, false
		}
		// the filter judges the peer on the address list that is then stored: the response's
		// addresses merged with what the peerstore already knows (a peer the node can reach
		// through a known address must not be dropped because this response omitted it)
		for _, fc := range f.Calls("field:dht.IpfsDHT.queryPeerFilter") {
			okArg := false
			if len(fc.Args) == 2 {
				if cl, isCL := eng.Unparen(fc.Args[1]).(*ast.CompositeLit); isCL {
					for _, el := range cl.Elts {
						kv, isKV := el.(*ast.KeyValueExpr)
						if !isKV || eng.NameOf(kv.Key.(*ast.Ident)) != "Addrs" {
							continue
						}
						ao := eng.ObjOf(info, kv.Value)
						for _, ma := range f.Calls("(*dht.IpfsDHT).maybeAddAddrs") {
							if ao != nil && len(ma.Args) >= 2 && eng.IsObj(info, ma.Args[1], ao) {
								// and that list includes the peerstore's addresses
								for _, d := range f.AssignedFrom(ao) {
									merged := false
									ast.Inspect(defOrNil(d), func(x ast.Node) bool {
										if se, isSel := x.(*ast.SelectorExpr); isSel && eng.NameOf(se.Sel) == "Addrs" {
											if do := eng.ObjOf(info, se.X); do != nil {
												for _, dd := range f.AssignedFrom(do) {
													if _, isPS := eng.IsCallTo(info, defOrNil(dd), "(github.com/libp2p/go-libp2p/core/peerstore.PeerMetadata).Get", "(github.com/libp2p/go-libp2p/core/peerstore.Peerstore).PeerInfo", "(github.com/libp2p/go-libp2p/core/peerstore.AddrBook).Addrs"); isPS {
														merged = true
													}
												}
											}
										}
										return true
									})
									if merged {
										okArg = true
									}
								}
							}
						}
					}
				}
			}
			c.Check(K(f.Name, "filter sees merged addresses"), fc.Pos(), okArg, "the query filter is applied to {ID, response addresses + peerstore addresses}, the same list maybeAddAddrs stores", "the filter's argument is not AddrInfo{ID, <merged list handed to maybeAddAddrs>}")
		}
		ok := cf.ImpliedAt(cf.LocOf(as), at, []string{"filter", "isTarget"}, func(v map[string]bool) bool { return v["filter"] || v["isTarget"] })
		c.Check(K(f.Name, "response peer behind query filter"), as.Pos(), ok, "a response peer is followed only if it passes the query filter or is the lookup target", "append not guarded by `isTarget || queryPeerFilter(...)`")
		// the same guard covers the peerstore write
		for _, call := range f.Calls("(*dht.IpfsDHT).maybeAddAddrs") {
			ok2 := cf.ImpliedAt(cf.LocOf(call), at, []string{"filter", "isTarget"}, func(v map[string]bool) bool { return v["filter"] || v["isTarget"] })
			c.Check(K(f.Name, "addresses behind query filter"), call.Pos(), ok2, "addresses of a response peer are stored only if the peer passes the query filter or is the target", "maybeAddAddrs not guarded")
		}
	}
	c.Check(K(f.Name, "collects"), f.Pos(), n == 1, "one append collects response peers", "found "+itoa(n))
}

// c01Closest: the 4-state list is only for network-size tracking; public results are the 3-state list.
func c01Closest(c *Ctx) {
	p := c.P
	n := 0
	for _, f := range p.Funcs() {
		info := f.Info()
		for _, acc := range f.FieldAccesses("dht.lookupWithFollowupResult.closest") {
			if acc.Write {
				continue
			}
			n++
			ok := flowsOnlyInto(p, info, acc.Sel, "(*dht/netsize.Estimator).Track")
			c.Check(K(f.Name, "reads result.closest"), acc.Sel.Pos(), ok, "the list that includes failed peers is used only for network-size tracking", "result.closest used outside Estimator.Track")
		}
	}
	c.Check("closest readers", 0, n >= 2, "both lookups track the network size", "found "+itoa(n))
	g := c.Fn("(*dht.IpfsDHT).GetClosestPeers")
	ginfo := g.Info()
	for i, ret := range g.CFG().Returns() {
		if len(ret.Results) != 2 || isNil(ginfo, ret.Results[0]) {
			continue
		}
		c.Check(K(g.Name, "return#"+itoa(i)), ret.Pos(), eng.IsField(ginfo, ret.Results[0], "dht.lookupWithFollowupResult.peers"), "GetClosestPeers returns the lookup's non-failed result list", "returns "+short(ret.Results[0]))
	}
}

// c01DiversityPlumbing: the per-response IP-group limit of a lookup is the routing table's
// per-table limit of the configured diversity filter, and the filter's two limits are what its
// constructor was given, each read where it is meant to be read.
func c01DiversityPlumbing(c *Ctx) {
	p := c.P
	const fT = "dht.rtPeerIPGroupFilter"
	f := c.Fn("(*dht.IpfsDHT).runQuery")
	info := f.Info()
	n := 0
	f.Walk(func(x ast.Node) bool {
		cl, ok := x.(*ast.CompositeLit)
		if !ok {
			return true
		}
		if tv, has := info.Types[cl]; !has || eng.TypeName(tv.Type) != "dht.query" {
			return true
		}
		for _, el := range cl.Elts {
			kv, isKV := el.(*ast.KeyValueExpr)
			if !isKV {
				continue
			}
			id, isID := kv.Key.(*ast.Ident)
			if !isID || eng.NameOf(id) != "maxPeersPerIPGroup" {
				continue
			}
			n++
			// every value the field can receive is the filter's per-table limit (or the zero of `var`)
			var srcs []ast.Expr
			if o := eng.ObjOf(info, kv.Value); o != nil && localDef(f, kv.Value) == nil {
				for _, d := range f.AssignedFrom(o) {
					if d != nil {
						srcs = append(srcs, d)
					}
				}
			} else {
				srcs = append(srcs, resolveLocal(f, kv.Value))
			}
			ok := len(srcs) >= 1
			for _, d := range srcs {
				if !eng.IsField(info, resolveLocal(f, d), fT+".maxForTable") {
					ok = false
				}
			}
			c.Check(K(f.Name, "response diversity limit"), kv.Pos(), ok, "a lookup drops a response naming more peers of one IP group than the diversity filter's per-table limit (maxForTable) — the limit the caller configured for the table, not the per-bucket one", "query.maxPeersPerIPGroup does not come from rtPeerIPGroupFilter.maxForTable")
		}
		return true
	})
	c.Check(K(f.Name, "sets the response diversity limit"), f.Pos(), n == 1, "runQuery hands the limit to the query", "found "+itoa(n)+" settings")
	ctor := c.Fn("dht.NewRTPeerDiversityFilter")
	cinfo := ctor.Info()
	seen := 0
	ctor.Walk(func(x ast.Node) bool {
		cl, ok := x.(*ast.CompositeLit)
		if !ok {
			return true
		}
		if tv, has := cinfo.Types[cl]; !has || eng.TypeName(tv.Type) != fT {
			return true
		}
		for _, el := range cl.Elts {
			kv, isKV := el.(*ast.KeyValueExpr)
			if !isKV {
				continue
			}
			id, isID := kv.Key.(*ast.Ident)
			if !isID {
				continue
			}
			name := eng.NameOf(id)
			if name != "maxPerCpl" && name != "maxForTable" {
				continue
			}
			seen++
			c.Check(K(ctor.Name, "stores "+name), kv.Pos(), eng.IsObj(cinfo, kv.Value, paramObj(ctor, name)), "the filter's "+name+" is the constructor's argument of that name", "field set from "+short(kv.Value))
		}
		return true
	})
	c.Check(K(ctor.Name, "stores both limits"), ctor.Pos(), seen == 2, "the constructor stores both limits", "found "+itoa(seen))
	readers := map[string]map[string]bool{
		"maxPerCpl":   {"(*dht.rtPeerIPGroupFilter).Allow": true},
		"maxForTable": {"(*dht.rtPeerIPGroupFilter).Allow": true, "(*dht.IpfsDHT).runQuery": true},
	}
	for fld, okIn := range readers {
		for _, g := range p.Funcs() {
			if eng.Short(g.Pkg.PkgPath) != "dht" {
				continue
			}
			for _, acc := range g.FieldAccesses(fT + "." + fld) {
				c.Check(K(g.Root().Name, "reads "+fld), acc.Sel.Pos(), !acc.Write && okIn[g.Root().Name], "the filter's "+fld+" is read only where that limit applies", "accessed in "+g.Root().Name)
			}
		}
	}
}
