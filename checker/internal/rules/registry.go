package rules

// Property describes one property's rule set.
type Property struct {
	ID          string
	Run         func(c *Ctx)
	NeedSSA     bool
	Decided     string // the structural clauses decided
	NotDecided  string // what the check does not decide
	Assumptions []string
}

var registry = map[string]*Property{}

func register(p *Property) { registry[p.ID] = p }

// Get returns the property's rule set or nil.
func Get(id string) *Property { return registry[id] }

// IDs lists the registered properties.
func IDs() []string {
	var out []string
	for id := range registry {
		out = append(out, id)
	}
	return out
}

// CommonAssumptions is the trusted base shared by all checks (DESIGN.md appendix F).
var CommonAssumptions = []string{
	"the Go type checker and golang.org/x/tools v0.50.0 (go/packages, go/cfg, go/ssa, VTA) under go1.26.8 are correct",
	"lock identity is per (type, field), not per instance",
	"third-party libraries behave as documented (kbucket NearestPeers and go-libp2p-xor ClosestN nearest-first; protobuf-go never yields nil elements in repeated message fields; MessageSender.SendRequest returns a non-nil message with a nil error; context, sync, go-datastore)",
	"the frozen instance tables in the rule sources were confirmed by reading the pinned tree",
	"a local variable assigned exactly once is read as its defining expression; fields and never-reassigned variables read by that expression are taken to be unchanged between the definition and the use",
	"a function, field, parameter or local whose pinned name disappeared is identified with the single new name of the same owner and type (canonical naming); ambiguous cases are not mapped and leave the rule undecided",
}
