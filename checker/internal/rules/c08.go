package rules

import (
	"go/ast"
	"go/token"

	"kadcheck/internal/eng"
)

func init() {
	register(&Property{
		ID:  "C08",
		Run: runC08,
		Decided: "every send on the provider result channel is on the true edge of the dedup-and-count gate called on the value sent (R1); inside the gate the set update is under its mutex and its condition implies (absent, or present without addresses while the new record has some) and (size < count or find-all), decided by truth-table over the condition's atoms so `<=`/`>=0` variants fail (R2); " +
			"the stop function is equivalent to `!findAll && size >= count`, the per-peer function and the local phase return early under the same condition, and the follow-up stage is not entered once the stop condition holds (R3); yielded values are elements of the local provider store's answer or of the queried peer's provider list (R4); " +
			"the dual merge yields only unseen IDs while `zeroCount || count > 0`, records the ID and decrements in the same select arm, and closes the channel and cancels the request context by defer (R5); the result channel is closed by a defer registered before any return (R6). Added after the seeded rounds: every return of the gate that may be true is dominated by the store (R2); after a locally yielded provider the lookup starts only behind a test of the accepted count (R3); the dual merger yields only what it has just received from an inner search, and both inner searches run under the request context (R5).",
		NotDecided: "arrival-order dependent counts; what remote peers report.",
	})
}

// rootObj strips *, &, selectors and index expressions down to the base identifier's object.
func rootObj(info *eng.Info, e ast.Expr) eng.Object {
	for {
		e = eng.Unparen(e)
		switch x := e.(type) {
		case *ast.StarExpr:
			e = x.X
		case *ast.UnaryExpr:
			e = x.X
		case *ast.SelectorExpr:
			if _, isPkg := info.Uses[identOf(x.X)].(*eng.PkgName); isPkg {
				return info.Uses[x.Sel]
			}
			e = x.X
		case *ast.IndexExpr:
			e = x.X
		case *ast.Ident:
			return eng.ObjOf(info, x)
		default:
			return nil
		}
	}
}

func identOf(e ast.Expr) *ast.Ident {
	id, _ := eng.Unparen(e).(*ast.Ident)
	return id
}

// cmpNorm returns (x, op, y) of a comparison leaf with a constant folded to the right when present.
func cmpNorm(e ast.Expr) (ast.Expr, token.Token, ast.Expr, bool) {
	b, ok := eng.Unparen(e).(*ast.BinaryExpr)
	if !ok {
		return nil, 0, nil, false
	}
	switch b.Op {
	case token.EQL, token.NEQ, token.LSS, token.LEQ, token.GTR, token.GEQ:
		return b.X, b.Op, b.Y, true
	}
	return nil, 0, nil, false
}

// emptiness classifies `len(X) op const` as empty / non-empty.
func emptiness(info *eng.Info, leaf ast.Expr) (x ast.Expr, nonEmpty bool, ok bool) {
	a, op, b, isCmp := cmpNorm(leaf)
	if !isCmp {
		return nil, false, false
	}
	la := eng.LenArg(info, a)
	cst, isC := eng.ConstInt(info, b)
	if la == nil || !isC {
		return nil, false, false
	}
	switch {
	case op == token.EQL && cst == 0, op == token.LSS && cst == 1, op == token.LEQ && cst == 0:
		return la, false, true
	case op == token.GTR && cst == 0, op == token.NEQ && cst == 0, op == token.GEQ && cst == 1:
		return la, true, true
	}
	return nil, false, false
}

func runC08(c *Ctx) {
	p := c.P
	sends := 0
	for _, tw := range []string{"(*dht.IpfsDHT).findProvidersAsyncRoutine", "(*dht/fullrt.FullRT).findProvidersAsyncRoutine"} {
		f := c.Fn(tw)
		info := f.Info()
		peerOut, count := paramObj(f, "peerOut"), paramObj(f, "count")
		c.Anchor(peerOut != nil && count != nil, "%s: params not found", tw)
		// locals: findAll, ps, psTryAdd, psSize
		var findAll, ps, tryAdd, psSize eng.Object
		var tryLit, sizeLit *eng.Func
		f.Walk(func(n ast.Node) bool {
			as, ok := n.(*ast.AssignStmt)
			if !ok || len(as.Lhs) != 1 || len(as.Rhs) != 1 || as.Tok != token.DEFINE {
				return true
			}
			o := eng.ObjOf(info, as.Lhs[0])
			switch rhs := eng.Unparen(as.Rhs[0]).(type) {
			case *ast.BinaryExpr:
				if rhs.Op == token.EQL && eng.IsObj(info, rhs.X, count) && isConstVal(info, rhs.Y, 0) {
					findAll = o
				}
			case *ast.CallExpr:
				if isMake := eng.NameIn(eng.CalleeName(info, rhs), "builtin.make"); isMake {
					if tv, ok := info.Types[rhs]; ok {
						if _, isMap := tv.Type.Underlying().(*eng.MapType); isMap && ps == nil {
							ps = o
						}
					}
				}
			case *ast.FuncLit:
				g := p.FuncOfLit(rhs)
				if g.Type.Results != nil && len(g.Type.Results.List) == 1 {
					rt := info.Types[g.Type.Results.List[0].Type].Type.String()
					if rt == "bool" && tryAdd == nil {
						tryAdd, tryLit = o, g
					}
					if rt == "int" && psSize == nil {
						psSize, sizeLit = o, g
					}
				}
			}
			return true
		})
		c.Anchor(findAll != nil && ps != nil && tryAdd != nil && psSize != nil, "%s: findAll/ps/psTryAdd/psSize not identified", tw)

		// atoms shared by the rules of this twin
		isSize := func(g *eng.Func, e ast.Expr) bool {
			gi := g.Info()
			if la := eng.LenArg(gi, e); la != nil && eng.IsObj(gi, la, ps) {
				return true
			}
			if call, ok := eng.Unparen(e).(*ast.CallExpr); ok && len(call.Args) == 0 && eng.IsObj(gi, call.Fun, psSize) {
				return true
			}
			return false
		}
		sizeAtom := func(g *eng.Func, leaf ast.Expr) (string, bool, bool) {
			gi := g.Info()
			if eng.IsObj(gi, leaf, findAll) {
				return "findAll", true, true
			}
			a, op, b, ok := cmpNorm(leaf)
			if !ok {
				return "", false, false
			}
			if isSize(g, b) && eng.IsObj(gi, a, count) {
				a, b = b, a
				op = map[token.Token]token.Token{token.LSS: token.GTR, token.GTR: token.LSS, token.LEQ: token.GEQ, token.GEQ: token.LEQ, token.EQL: token.EQL, token.NEQ: token.NEQ}[op]
			}
			if isSize(g, a) && eng.IsObj(gi, b, count) {
				switch op {
				case token.LSS:
					return "below", true, true
				case token.GEQ:
					return "below", false, true
				}
			}
			return "", false, false
		}
		reached := func(val map[string]bool) bool { return !val["findAll"] && !val["below"] }

		// R3 the local phase hands over to the network only after re-checking the count: every path
		// from a provider yielded from the local store to the lookup passes a size test (a local
		// store holding exactly `count` providers must not trigger any request)
		c.Rule("R3")
		{
			cf := f.CFG()
			lookups, _ := cf.CallLocs("(*dht.IpfsDHT).runLookupWithFollowup", "(*dht/fullrt.FullRT).GetClosestPeers")
			var tests []eng.Loc
			for _, b := range cf.G.Blocks {
				cond := cf.Cond(b)
				if !b.Live || cond == nil {
					continue
				}
				hit := false
				var walk func(e ast.Expr)
				walk = func(e ast.Expr) {
					e = eng.Unparen(e)
					if u, ok := e.(*ast.UnaryExpr); ok && u.Op == token.NOT {
						walk(u.X)
						return
					}
					if be, ok := e.(*ast.BinaryExpr); ok && (be.Op == token.LAND || be.Op == token.LOR) {
						walk(be.X)
						walk(be.Y)
						return
					}
					if name, _, ok := sizeAtom(f, e); ok && name == "below" {
						hit = true
					}
				}
				walk(cond)
				if hit {
					tests = append(tests, eng.Loc{B: b, I: len(b.Nodes) - 1})
				}
			}
			if c.Check(K(f.Name, "lookup"), f.Pos(), len(lookups) == 1, "the routine starts one lookup", "found "+itoa(len(lookups))) {
				for _, s := range f.SendsOn(peerOut) {
					if s.F != f {
						continue // remote phase
					}
					ok, w := cf.MustPass(cf.LocOf(s.Send), eng.LocSet(lookups...), eng.LocSet(tests...))
					c.CheckW(K(f.Name, "count re-checked after local "+short(s.Send.Value)), s.Send.Pos(), ok, "after a provider from the local store is yielded, the lookup starts only behind a test of the accepted count", "the lookup is reachable from the local send without a size test", cf.DescribePath(w))
				}
			}
		}

		// R1 single gate
		c.Rule("R1")
		for _, s := range f.SendsOn(peerOut) {
			sends++
			g := s.F
			gi := g.Info()
			sent := rootObj(gi, s.Send.Value)
			ok, _ := g.CFG().Guarded(g.CFG().LocOf(s.Send), func(ft eng.Fact) bool {
				call, truth, isCall := ft.CallFact("var:" + eng.VarName(tryAdd))
				if !isCall || !truth || len(call.Args) != 1 || !eng.IsObj(gi, call.Fun, tryAdd) {
					return false
				}
				return sent != nil && rootObj(gi, call.Args[0]) == sent
			})
			c.Check(K(g.Name, "send "+short(s.Send.Value)), s.Send.Pos(), ok, "a provider is yielded only when the dedup-and-count gate accepted that very provider", "send not on the true edge of psTryAdd(<the value sent>)")
		}

		// R2 gate content
		c.Rule("R2")
		{
			g := tryLit
			gi := g.Info()
			gcf := g.CFG()
			li := g.Locks()
			var param eng.Object
			if g.Type.Params != nil && len(g.Type.Params.List) == 1 && len(g.Type.Params.List[0].Names) == 1 {
				param = gi.Defs[g.Type.Params.List[0].Names[0]]
			}
			// lookup `v, ok := ps[K]`
			var okObj, oldObj eng.Object
			var keyE ast.Expr
			g.Walk(func(n ast.Node) bool {
				as, isAs := n.(*ast.AssignStmt)
				if !isAs || len(as.Lhs) != 2 || len(as.Rhs) != 1 {
					return true
				}
				if ix, isIx := eng.Unparen(as.Rhs[0]).(*ast.IndexExpr); isIx && eng.IsObj(gi, ix.X, ps) {
					oldObj, okObj, keyE = eng.ObjOf(gi, as.Lhs[0]), eng.ObjOf(gi, as.Lhs[1]), ix.Index
				}
				return true
			})
			stores := assignsTo(g, func(l ast.Expr) bool {
				ix, ok := eng.Unparen(l).(*ast.IndexExpr)
				return ok && eng.IsObj(gi, ix.X, ps)
			})
			c.Check(K(g.Name, "gate shape"), g.Pos(), okObj != nil && len(stores) == 1 && param != nil, "the gate looks the provider up and records it in one place", "lookup or store not found")
			for _, st := range stores {
				held := li.HeldBefore(st)
				c.Check(K(g.Name, "store under lock"), st.Pos(), len(held) >= 1, "the seen-set is updated under its mutex", "no lock held at the store")
				ix := eng.Unparen(st.Lhs[0]).(*ast.IndexExpr)
				c.Check(K(g.Name, "store key"), st.Pos(), keyE != nil && eng.SameExpr(gi, ix.Index, keyE) && rootObj(gi, keyE) == param, "the recorded key is the looked-up key of the offered provider", "keys differ")
				at := func(leaf ast.Expr) (string, bool, bool) {
					if okObj != nil && eng.IsObj(gi, leaf, okObj) {
						return "present", true, true
					}
					if x, nonEmpty, ok := emptiness(gi, leaf); ok {
						if s, isSel := eng.Unparen(x).(*ast.SelectorExpr); isSel && eng.NameOf(s.Sel) == "Addrs" {
							if oldObj != nil && eng.IsObj(gi, s.X, oldObj) {
								return "oldHasAddrs", nonEmpty, true
							}
							if eng.IsObj(gi, s.X, param) {
								return "newHasAddrs", nonEmpty, true
							}
						}
					}
					return sizeAtom(g, leaf)
				}
				ok := gcf.ImpliedAt(gcf.LocOf(st), at, []string{"present", "oldHasAddrs", "newHasAddrs", "below", "findAll"}, func(v map[string]bool) bool {
					fresh := !v["present"] || (!v["oldHasAddrs"] && v["newHasAddrs"])
					return fresh && (v["below"] || v["findAll"])
				})
				c.Check(K(g.Name, "gate condition"), st.Pos(), ok,
					"a provider is accepted only if (unseen, or seen without addresses while now carrying some) and (fewer than count accepted, or find-all)",
					"the conditions dominating the store do not imply that (e.g. `<=` instead of `<`, or a dropped conjunct)")
			}
			// accepted => true, otherwise false
			for _, ret := range gcf.Returns() {
				if len(ret.Results) != 1 {
					continue
				}
				if !isBoolConst(gi, ret.Results[0], false) {
					// `true`, or anything that may be true
					okT := len(stores) == 1 && gcf.Dominates(gcf.LocOf(stores[0]), gcf.LocOf(ret))
					c.Check(K(g.Name, "return "+short(ret.Results[0])), ret.Pos(), okT, "the gate reports acceptance only after recording the provider (an accepted but unrecorded provider is yielded again by the next answer naming it)", "a return that may be true is reachable without the store")
				}
			}
			// size reader under the lock
			sli := sizeLit.Locks()
			// every read of the set's size in the reader happens with the mutex held (the value
			// may be returned after the release)
			var reads []*ast.CallExpr
			for _, lc := range sizeLit.Calls("builtin.len") {
				if len(lc.Args) == 1 {
					if _, isMap := sizeLit.Info().Types[lc.Args[0]].Type.Underlying().(*eng.MapType); isMap {
						reads = append(reads, lc)
					}
				}
			}
			c.Check(K(sizeLit.Name, "reads size"), sizeLit.Pos(), len(reads) >= 1, "the size reader reads the accepted set's size", "no len() of the set")
			for _, lc := range reads {
				var ret ast.Node = lc
				held := sli.HeldBefore(ret)
				c.Check(K(sizeLit.Name, "size under lock"), ret.Pos(), len(held) >= 1, "the accepted count is read under the mutex", "no lock held")
			}
		}

		// R3 early stop
		c.Rule("R3")
		{
			nEarly := 0
			var visit func(g *eng.Func)
			visit = func(g *eng.Func) {
				gi := g.Info()
				gcf := g.CFG()
				at := func(leaf ast.Expr) (string, bool, bool) { return sizeAtom(g, leaf) }
				// stop function: a literal with one *QueryPeerset param returning bool
				if g.Lit != nil && g.Type.Params != nil && len(g.Type.Params.List) == 1 && g.Type.Results != nil {
					if tv, ok := gi.Types[g.Type.Params.List[0].Type]; ok && eng.TypeName(tv.Type) == "dht/qpeerset.QueryPeerset" {
						rets := gcf.Returns()
						okS := len(rets) == 1 && len(rets[0].Results) == 1 && eng.Equivalent(rets[0].Results[0], at, []string{"below", "findAll"}, reached)
						c.Check(K(g.Name, "stop function"), g.Pos(), okS, "the lookup's stop function is `!findAll && size >= count`", "return expression is not equivalent to that")
						nEarly++
					}
				}
				// early returns: conditions whose true edge is exactly the reached condition
				for _, b := range gcf.G.Blocks {
					cond := gcf.Cond(b)
					if !b.Live || cond == nil {
						continue
					}
					atoms := eng.CondAtoms(cond, at)
					rel := false
					for _, a := range atoms {
						if a == "below" {
							rel = true
						}
					}
					if !rel || g == tryLit {
						continue
					}
					eq := eng.Equivalent(cond, at, []string{"below", "findAll"}, reached)
					// the true edge leaves without another send
					var sendLocs []eng.Loc
					for _, s := range g.SendsOn(peerOut) {
						if s.F == g {
							sendLocs = append(sendLocs, gcf.LocOf(s.Send))
						}
					}
					r, _ := gcf.Reach(eng.Loc{B: b.Succs[0], I: -2}, eng.LocSet(sendLocs...), eng.ReachOpt{})
					c.Check(K(g.Name, "early stop "+short(cond)), cond.Pos(), eq && !r, "once count providers were accepted the routine stops yielding and asking", "condition not equivalent to `!findAll && size >= count`, or a send is reachable from its true edge")
					nEarly++
				}
				for _, l := range g.Lits {
					visit(l)
				}
			}
			visit(f)
			want := 3
			if tw == "(*dht/fullrt.FullRT).findProvidersAsyncRoutine" {
				want = 2 // the accelerated client has no lookup, hence no stop function
			}
			c.Check(K(f.Name, "early stops"), f.Pos(), nEarly >= want, "local phase, per-peer function and stop function all test the count", "found "+itoa(nEarly))
		}

		// R4 provenance
		c.Rule("R4")
		for _, s := range f.SendsOn(peerOut) {
			g := s.F
			gi := g.Info()
			ro := rootObj(gi, s.Send.Value)
			ok := false
			// range variable over a list obtained from GetProviders (store or messenger)
			for x := p.Parent(s.Send); x != nil && !ok; x = p.Parent(x) {
				rg, isR := x.(*ast.RangeStmt)
				if !isR || rg.Value == nil || eng.ObjOf(gi, rg.Value) != ro {
					continue
				}
				lst := eng.ObjOf(gi, rg.X)
				for h := g; h != nil && !ok; h = h.Parent {
					for _, d := range h.AssignedFrom(lst) {
						if call, isCall := eng.Unparen(defOrNil(d)).(*ast.CallExpr); isCall {
							n := eng.CalleeName(h.Info(), call)
							if n == "(dht/records.ProviderStore).GetProviders" || n == "(*dht/records.ProviderManager).GetProviders" || n == "(*dht/pb.ProtocolMessenger).GetProviders" {
								ok = true
							}
						}
					}
				}
			}
			c.Check(K(g.Name, "provenance of "+short(s.Send.Value)), s.Send.Pos(), ok, "only providers stored locally or named by the peer just queried are yielded", "sent value is not an element of a GetProviders result")
		}

		// R6 closed channel
		c.Rule("R6")
		{
			cf := f.CFG()
			var defs []eng.Loc
			f.Walk(func(n ast.Node) bool {
				if d, ok := n.(*ast.DeferStmt); ok && eng.NameIn(eng.CalleeName(info, d.Call), "builtin.close") && eng.IsObj(info, d.Call.Args[0], peerOut) {
					defs = append(defs, cf.LocOf(d))
				}
				return true
			})
			ok, w := cf.MustPass(cf.Entry(), eng.LocSet(cf.Exits(false)...), eng.LocSet(defs...))
			c.CheckW(K(f.Name, "defer close(peerOut)"), f.Pos(), ok && len(defs) == 1, "the result channel is closed on every exit of the routine", "an exit is reachable before the deferred close is registered", cf.DescribePath(w))
		}
	}
	c.Rule("R1")
	c.Check("provider sends", 0, sends >= 2, "provider sends (local+remote, both clients) exist", "found "+itoa(sends))
	// the public entry points close the channel on the early branch and otherwise start the routine
	c.Rule("R6")
	c08EntryOwnsChannel(c)

	// R3 (cont.) the lookup's follow-up stage honours the stop function
	c.Rule("R3")
	c02R4(c)

	// R5 dual merge
	c.Rule("R5")
	c08Dual(c)
}

// c08Dual: the merged provider stream of the dual client.
func c08Dual(c *Ctx) {
	p := c.P

	f := c.Fn("(*dht/dual.DHT).FindProvidersAsync")
	info := f.Info()
	count := paramObj(f, "count")
	var outCh, zero, cancel eng.Object
	f.Walk(func(n ast.Node) bool {
		as, ok := n.(*ast.AssignStmt)
		if !ok {
			return true
		}
		if len(as.Rhs) == 1 {
			if isMake, _ := eng.MakeChan(info, as.Rhs[0]); isMake && outCh == nil {
				outCh = eng.ObjOf(info, as.Lhs[0])
			}
			if b, isB := eng.Unparen(as.Rhs[0]).(*ast.BinaryExpr); isB && b.Op == token.EQL && eng.IsObj(info, b.X, count) && isConstVal(info, b.Y, 0) {
				zero = eng.ObjOf(info, as.Lhs[0])
			}
			if _, isWC := eng.IsCallTo(info, as.Rhs[0], "context.WithCancel"); isWC && len(as.Lhs) == 2 {
				cancel = eng.ObjOf(info, as.Lhs[1])
			}
		}
		return true
	})
	c.Anchor(outCh != nil && zero != nil && cancel != nil, "dual.FindProvidersAsync: outCh/zeroCount/cancel not identified")
	// the inner searches run under the request context the merger cancels when it is done
	{
		var reqCtx eng.Object
		f.Walk(func(n ast.Node) bool {
			if as, ok := n.(*ast.AssignStmt); ok && len(as.Lhs) == 2 && len(as.Rhs) == 1 {
				if _, isWC := eng.IsCallTo(info, as.Rhs[0], "context.WithCancel"); isWC && eng.ObjOf(info, as.Lhs[1]) == cancel {
					reqCtx = eng.ObjOf(info, as.Lhs[0])
				}
			}
			return true
		})
		inner := f.Calls("(*dht.IpfsDHT).FindProvidersAsync")
		c.Check(K(f.Name, "inner searches"), f.Pos(), len(inner) == 2 && reqCtx != nil, "the dual search starts the WAN and the LAN search", "found "+itoa(len(inner)))
		for _, call := range inner {
			ok := reqCtx != nil && len(call.Args) >= 1 && ctxDerives(f, call.Args[0], reqCtx, 0)
			c.Check(K(f.Name, "inner search under the request context "+short(call.Fun)), call.Pos(), ok, "both inner searches run under a context derived from the request context, which the merger cancels on every exit (so reaching count, or the caller leaving, ends them and closes their channels)", "the context handed to the inner search can be one that the merger's cancel does not reach")
		}
	}
	sends := f.SendsOn(outCh)
	c.Check(K(f.Name, "sends"), f.Pos(), len(sends) == 1, "the merger yields in one place", "found "+itoa(len(sends)))
	for _, s := range sends {
		g := s.F
		gi := g.Info()
		gcf := g.CFG()
		loc := gcf.LocOf(s.Send)
		// not already found: nearest assignment of the tested variable is a lookup in a map keyed by the sent value's ID
		var foundMap eng.Object
		okNew, _ := gcf.Guarded(loc, func(ft eng.Fact) bool {
			o, truth, isB := ft.BoolVar()
			if !isB || truth {
				return false
			}
			rhs, idx := gcf.LastAssign(ft.B, o)
			ix, isIx := eng.Unparen(defOrNil(rhs)).(*ast.IndexExpr)
			if !isIx || idx != 1 {
				return false
			}
			if rootObj(gi, ix.Index) != rootObj(gi, s.Send.Value) {
				return false
			}
			foundMap = eng.ObjOf(gi, ix.X)
			return foundMap != nil
		})
		c.Check(K(g.Name, "yield only unseen"), s.Send.Pos(), okNew, "a provider is yielded at most once", "send not guarded by absence from the found set")
		// what is yielded was received from an inner search in this very iteration: within one
		// iteration the send is unreachable without a receive from a provider channel (an
		// event arm, or a closed-channel arm, must go back to the loop head)
		{
			var provArms, heads []eng.Loc
			var sendVal = rootObj(gi, s.Send.Value)
			for _, sel := range g.Selects() {
				for _, sc := range eng.SelectCases(gi, sel) {
					as, isAs := sc.Clause.Comm.(*ast.AssignStmt)
					if sc.Kind != "recv" || !isAs || len(as.Lhs) == 0 {
						continue
					}
					if tv, ok := gi.Types[sc.Chan]; ok && eng.TypeKey(tv.Type) == "<-chan github.com/libp2p/go-libp2p/core/peer.AddrInfo" && rootObj(gi, as.Lhs[0]) == sendVal {
						provArms = append(provArms, gcf.LocOf(sc.Clause.Comm))
					}
				}
			}
			heads = loopHeads(gcf, p, s.Send)
			okFrom := len(provArms) == 2 && len(heads) >= 1
			var wit []eng.Loc
			if okFrom {
				for _, h := range heads {
					r, w := gcf.Reach(h, eng.LocSet(loc), eng.ReachOpt{CutLoc: eng.LocSet(provArms...)})
					if r {
						okFrom, wit = false, w
					}
				}
			}
			c.CheckW(K(g.Name, "yields only what an inner search sent"), s.Send.Pos(), okFrom, "within one iteration the merger yields only a value it has just received from the WAN or the LAN search", "the send is reachable in an iteration that received no provider (e.g. from the event arm)", gcf.DescribePath(wit))
		}
		at := func(leaf ast.Expr) (string, bool, bool) {
			if eng.IsObj(gi, leaf, zero) {
				return "zeroCount", true, true
			}
			a, op, b, ok := cmpNorm(leaf)
			if ok && eng.IsObj(gi, a, count) && isConstVal(gi, b, 0) {
				switch op {
				case token.GTR:
					return "countPos", true, true
				case token.LEQ:
					return "countPos", false, true
				}
			}
			return "", false, false
		}
		okCnt := gcf.ImpliedAt(loc, at, []string{"zeroCount", "countPos"}, func(v map[string]bool) bool { return v["zeroCount"] || v["countPos"] })
		c.Check(K(g.Name, "yield only while count left"), s.Send.Pos(), okCnt, "a provider is yielded only while `zeroCount || count > 0`", "the loop condition does not imply that (e.g. `>=`)")
		// same arm records and decrements
		cc := p.EnclosingSelectClause(s.Send)
		rec, dec := false, false
		if cc != nil {
			for _, st := range cc.Body {
				switch x := st.(type) {
				case *ast.AssignStmt:
					if ix, ok := eng.Unparen(x.Lhs[0]).(*ast.IndexExpr); ok && foundMap != nil && eng.IsObj(gi, ix.X, foundMap) && rootObj(gi, ix.Index) == rootObj(gi, s.Send.Value) {
						rec = true
					}
					if x.Tok == token.SUB_ASSIGN && eng.IsObj(gi, x.Lhs[0], count) && isConstVal(gi, x.Rhs[0], 1) {
						dec = true
					}
				case *ast.IncDecStmt:
					if x.Tok == token.DEC && eng.IsObj(gi, x.X, count) {
						dec = true
					}
				}
			}
		}
		c.Check(K(g.Name, "records and counts the yield"), s.Send.Pos(), rec && dec, "a yielded provider is recorded as found and counted in the same select arm", "recorded="+btoa(rec)+" counted="+btoa(dec))
		// defers
		var dClose, dCancel []eng.Loc
		g.Walk(func(n ast.Node) bool {
			if d, ok := n.(*ast.DeferStmt); ok {
				if eng.NameIn(eng.CalleeName(gi, d.Call), "builtin.close") && eng.IsObj(gi, d.Call.Args[0], outCh) {
					dClose = append(dClose, gcf.LocOf(d))
				}
				if eng.IsObj(gi, d.Call.Fun, cancel) {
					dCancel = append(dCancel, gcf.LocOf(d))
				}
			}
			return true
		})
		ok1, _ := gcf.MustPass(gcf.Entry(), eng.LocSet(gcf.Exits(false)...), eng.LocSet(dClose...))
		ok2, _ := gcf.MustPass(gcf.Entry(), eng.LocSet(gcf.Exits(false)...), eng.LocSet(dCancel...))
		c.Check(K(g.Name, "defer close(outCh)"), g.Pos(), ok1 && len(dClose) == 1, "the merged channel is closed on every exit", "deferred close missing or registered late")
		c.Check(K(g.Name, "defer cancel()"), g.Pos(), ok2 && len(dCancel) == 1, "the inner searches are cancelled when the merger ends", "deferred cancel missing or registered late")
	}
	// both inner searches get the same count and the cancellable context
	for _, name := range []string{"WAN", "LAN"} {
		n := 0
		f.Walk(func(x ast.Node) bool {
			call, ok := x.(*ast.CallExpr)
			if !ok || eng.CalleeName(info, call) != "(*dht.IpfsDHT).FindProvidersAsync" {
				return true
			}
			if s, ok := eng.Unparen(call.Fun).(*ast.SelectorExpr); ok && eng.IsField(info, s.X, "dht/dual.DHT."+name) {
				n++
				c.Check(K(f.Name, name+" count"), call.Pos(), len(call.Args) == 3 && eng.IsObj(info, call.Args[2], count), "each inner search is bounded by the same count", "count argument differs")
			}
			return true
		})
		c.Check(K(f.Name, name+" searched"), f.Pos(), n == 1, "the "+name+" DHT is searched", "found "+itoa(n)+" calls")
	}
}

// c08EntryOwnsChannel: FindProvidersAsync closes the channel it returns on the early branch
// and otherwise hands it to the routine that closes it.
func c08EntryOwnsChannel(c *Ctx) {
	for _, fn := range []string{"(*dht.IpfsDHT).FindProvidersAsync", "(*dht/fullrt.FullRT).FindProvidersAsync"} {
		f := c.Fn(fn)
		cf := f.CFG()
		info := f.Info()
		nret := 0
		for _, ret := range cf.Returns() {
			if len(ret.Results) != 1 {
				continue
			}
			out := eng.ObjOf(info, ret.Results[0])
			if out == nil {
				continue
			}
			nret++
			var via []eng.Loc
			f.Walk(func(n ast.Node) bool {
				switch x := n.(type) {
				case *ast.GoStmt:
					if len(x.Call.Args) >= 1 && eng.IsObj(info, x.Call.Args[len(x.Call.Args)-1], out) {
						via = append(via, cf.LocOf(x))
					}
				case *ast.CallExpr:
					if eng.NameIn(eng.CalleeName(info, x), "builtin.close") && eng.IsObj(info, x.Args[0], out) {
						via = append(via, cf.LocOf(x))
					}
				}
				return true
			})
			ok, w := cf.MustPass(cf.Entry(), eng.LocSet(cf.LocOf(ret)), eng.LocSet(via...))
			c.CheckW(K(f.Name, "channel always owned#"+itoa(nret)), ret.Pos(), ok, "the returned channel is either closed at once or handed to the routine that closes it", "a return is reachable with the channel neither closed nor owned", cf.DescribePath(w))
		}
		c.Check(K(f.Name, "returns channel"), f.Pos(), nret >= 1, "FindProvidersAsync returns a channel variable", "none found")
	}
}

// c08RoutineClosesChannel: the provider search routine of both clients closes its result
// channel by a defer registered before any exit (shared with C03.R4).
func c08RoutineClosesChannel(c *Ctx) {
	for _, fn := range []string{"(*dht.IpfsDHT).findProvidersAsyncRoutine", "(*dht/fullrt.FullRT).findProvidersAsyncRoutine"} {
		f := c.Fn(fn)
		info := f.Info()
		cf := f.CFG()
		peerOut := paramObj(f, "peerOut")
		c.Anchor(peerOut != nil, "%s: result channel parameter not found", fn)
		var defs []eng.Loc
		f.Walk(func(n ast.Node) bool {
			if d, ok := n.(*ast.DeferStmt); ok && eng.NameIn(eng.CalleeName(info, d.Call), "builtin.close") && eng.IsObj(info, d.Call.Args[0], peerOut) {
				defs = append(defs, cf.LocOf(d))
			}
			return true
		})
		ok, w := cf.MustPass(cf.Entry(), eng.LocSet(cf.Exits(false)...), eng.LocSet(defs...))
		c.CheckW(K(f.Name, "defer close(peerOut)"), f.Pos(), ok && len(defs) == 1, "the result channel is closed on every exit of the routine", "an exit is reachable before the deferred close is registered", cf.DescribePath(w))
	}
}
