package rules

import (
	"go/ast"
	"go/token"

	"kadcheck/internal/eng"
)

func init() {
	register(&Property{
		ID:  "C15",
		Run: runC15,
		Decided: "Provide and PutValue of the dual client call the WAN DHT on the true edge and the LAN DHT on the false edge of WANActive(), which is `WAN.RoutingTable().Size() > 0` (R1); GetValue returns the WAN value when the WAN lookup succeeded, else the LAN value when that succeeded, else the combined error, cancels LAN only after WAN success and always awaits it (R2); " +
			"the constructor installs the public filters/address filter on the WAN list and the LAN extension, private filters and non-loopback filter on the LAN list before the user's options, each list goes to its own DHT, and the option setters and makeDHT wire them to the fields the DHT consults (R3); " +
			"the DHT writes peer addresses to the peerstore only through maybeAddAddrs with filterAddrs applied, reads host addresses only to filter them, stores/serves provider addresses filtered, and follows a response peer only if it passes the query filter or is the target (R4); the merged provider stream and FindPeer's union/error rule (R5). Added after the seeded rounds: a return of dual.GetValue that is not one of the three decided outcomes is a violation (R2); every ADD_PROVIDER names {self, FilteredAddrs()} (R4).",
		NotDecided: "correctness of the public/private/loopback/relay classifiers themselves (pure functions over IP values).",
	})
}

func runC15(c *Ctx) {
	p := c.P
	// R1 write routing
	c.Rule("R1")
	for _, m := range []string{"Provide", "PutValue"} {
		f := c.Fn("(*dht/dual.DHT)." + m)
		cf := f.CFG()
		info := f.Info()
		nW, nL := 0, 0
		for _, ret := range cf.Returns() {
			if len(ret.Results) != 1 {
				continue
			}
			call, isCall := eng.Unparen(ret.Results[0]).(*ast.CallExpr)
			if !isCall || eng.CalleeName(info, call) != "(*dht.IpfsDHT)."+m {
				c.Check(K(f.Name, "return "+short(ret.Results[0])), ret.Pos(), false, "the dual write returns the result of the chosen DHT's write", "unexpected return")
				continue
			}
			s := eng.Unparen(call.Fun).(*ast.SelectorExpr)
			var want bool
			switch {
			case eng.IsField(info, s.X, "dht/dual.DHT.WAN"):
				want = true
				nW++
			case eng.IsField(info, s.X, "dht/dual.DHT.LAN"):
				want = false
				nL++
			default:
				c.Check(K(f.Name, "target "+short(s.X)), ret.Pos(), false, "writes go to WAN or LAN", "unexpected receiver")
				continue
			}
			g, _ := cf.Guarded(cf.LocOf(ret), func(ft eng.Fact) bool {
				_, truth, ok := ft.CallFact("(*dht/dual.DHT).WANActive")
				return ok && truth == want
			})
			which := map[bool]string{true: "WAN", false: "LAN"}[want]
			c.Check(K(f.Name, which), ret.Pos(), g, "the "+which+" DHT is written exactly when WANActive() is "+btoa(want), "call not on that edge of WANActive()")
			// arguments forwarded unchanged
			okArgs := true
			i := 0
			for _, fl := range f.Type.Params.List {
				for _, id := range fl.Names {
					if i >= len(call.Args) || !eng.IsObj(info, call.Args[i], info.Defs[id]) {
						// ctx is re-bound by the tracer; accept the same name
						if aid, ok := call.Args[i].(*ast.Ident); !ok || aid.Name != id.Name {
							okArgs = false
						}
					}
					i++
				}
			}
			c.Check(K(f.Name, which+" arguments"), ret.Pos(), okArgs, "the write is forwarded with the caller's arguments", "arguments differ")
		}
		c.Check(K(f.Name, "both targets"), f.Pos(), nW == 1 && nL == 1, "one WAN and one LAN write exist", "found "+itoa(nW)+" WAN / "+itoa(nL)+" LAN")
	}
	{
		f := c.Fn("(*dht/dual.DHT).WANActive")
		info := f.Info()
		rets := f.CFG().Returns()
		ok := false
		if len(rets) == 1 && len(rets[0].Results) == 1 {
			if b, isB := eng.Unparen(rets[0].Results[0]).(*ast.BinaryExpr); isB {
				sz, isSz := eng.IsCallTo(info, b.X, "(*github.com/libp2p/go-libp2p-kbucket.RoutingTable).Size")
				cst, isC := eng.ConstInt(info, b.Y)
				if isSz && isC && ((b.Op == token.GTR && cst == 0) || (b.Op == token.NEQ && cst == 0) || (b.Op == token.GEQ && cst == 1)) {
					// of the WAN routing table
					if rt, isRT := eng.IsCallTo(info, eng.Unparen(sz.Fun).(*ast.SelectorExpr).X, "(*dht.IpfsDHT).RoutingTable"); isRT {
						ok = eng.IsField(info, eng.Unparen(rt.Fun).(*ast.SelectorExpr).X, "dht/dual.DHT.WAN")
					}
				}
			}
		}
		c.Check(K(f.Name, "definition"), f.Pos(), ok, "WANActive is `WAN routing table size > 0`", "different expression")
	}

	// R2 read priority
	c.Rule("R2")
	{
		f := c.Fn("(*dht/dual.DHT).GetValue")
		cf := f.CFG()
		info := f.Info()
		var wanVal, wanErr, lanVal, lanErr eng.Object
		for _, s := range f.CallsDeep("(*dht.IpfsDHT).GetValue") {
			as, ok := p.Parent(s.Node).(*ast.AssignStmt)
			if !ok || len(as.Lhs) != 2 {
				continue
			}
			sel := eng.Unparen(s.Call().Fun).(*ast.SelectorExpr)
			if eng.IsField(info, sel.X, "dht/dual.DHT.WAN") {
				wanVal, wanErr = eng.ObjOf(info, as.Lhs[0]), eng.ObjOf(info, as.Lhs[1])
			}
			if eng.IsField(info, sel.X, "dht/dual.DHT.LAN") {
				lanVal, lanErr = eng.ObjOf(info, as.Lhs[0]), eng.ObjOf(info, as.Lhs[1])
			}
		}
		c.Anchor(wanVal != nil && lanVal != nil && wanErr != nil && lanErr != nil, "dual.GetValue: WAN/LAN results not found")
		errIs := func(o eng.Object, wantNil bool) func(eng.Fact) bool {
			return func(ft eng.Fact) bool {
				x, isNilF, ok := ft.NilFact()
				return ok && isNilF == wantNil && eng.IsObj(info, x, o)
			}
		}
		waits, _ := cf.CallLocs("(*sync.WaitGroup).Wait")
		seen := map[string]bool{}
		for i, ret := range cf.Returns() {
			if len(ret.Results) != 2 {
				// e.g. `return d.LAN.GetValue(...)`: one DHT's answer handed back without consulting the other
				c.Check(K(f.Name, "return#"+itoa(i)+" shape"), ret.Pos(), false, "every return of GetValue is one of the three outcomes decided after both lookups ran", "returns "+short(ret.Results[0])+" directly")
				continue
			}
			loc := cf.LocOf(ret)
			ok := false
			kind := ""
			switch {
			case eng.IsObj(info, ret.Results[0], wanVal):
				kind = "WAN value"
				g, _ := cf.Guarded(loc, errIs(wanErr, true))
				ok = g && isNil(info, ret.Results[1])
			case eng.IsObj(info, ret.Results[0], lanVal):
				kind = "LAN value"
				g1, _ := cf.Guarded(loc, errIs(lanErr, true))
				g2, _ := cf.Guarded(loc, errIs(wanErr, false))
				ok = g1 && g2 && isNil(info, ret.Results[1])
			case isNil(info, ret.Results[0]):
				kind = "error"
				g1, _ := cf.Guarded(loc, errIs(lanErr, false))
				g2, _ := cf.Guarded(loc, errIs(wanErr, false))
				call, isCE := eng.IsCallTo(info, ret.Results[1], "dht/dual.combineErrors")
				ok = g1 && g2 && isCE && eng.IsObj(info, call.Args[0], wanErr) && eng.IsObj(info, call.Args[1], lanErr)
			}
			seen[kind] = true
			c.Check(K(f.Name, "return#"+itoa(i)+" "+kind), ret.Pos(), ok, "WAN result when the WAN lookup succeeded, else LAN result when that succeeded, else the combined error", "guards or values differ")
			okW := false
			for _, w := range waits {
				if cf.Dominates(w, loc) {
					okW = true
				}
			}
			c.Check(K(f.Name, "return#"+itoa(i)+" after LAN finished"), ret.Pos(), okW, "the LAN lookup is always awaited before returning", "return reachable without lanWaiter.Wait()")
		}
		c.Check(K(f.Name, "three outcomes"), f.Pos(), seen["WAN value"] && seen["LAN value"] && seen["error"], "all three outcomes exist", "missing return")
		// LAN is cancelled early only after WAN success
		for _, call := range f.Calls("var:cancelLan") {
			if _, isDefer := p.Parent(call).(*ast.DeferStmt); isDefer {
				continue
			}
			g, _ := cf.Guarded(cf.LocOf(call), errIs(wanErr, true))
			c.Check(K(f.Name, "cancel LAN only after WAN success"), call.Pos(), g, "the LAN lookup is cut short only when the WAN lookup already succeeded", "cancelLan() not guarded by wanErr == nil")
		}
	}

	// R3 option layering
	c.Rule("R3")
	{
		f := c.Fn("dht/dual.New")
		cf := f.CFG()
		info := f.Info()
		var userApply *ast.CallExpr
		var wanOpt, lanOpt *ast.CallExpr
		for _, call := range f.Calls("(*dht/dual.config).apply") {
			if call.Ellipsis.IsValid() {
				userApply = call
				continue
			}
			if len(call.Args) == 1 {
				if w, ok := eng.IsCallTo(info, call.Args[0], "dht/dual.WanDHTOption"); ok {
					wanOpt = w
				}
				if l, ok := eng.IsCallTo(info, call.Args[0], "dht/dual.LanDHTOption"); ok {
					lanOpt = l
				}
			}
		}
		c.Anchor(userApply != nil && wanOpt != nil && lanOpt != nil, "dual.New: option applications not found")
		has := func(opt *ast.CallExpr, setter string, argOK func(ast.Expr) bool) bool {
			for _, a := range opt.Args {
				if call, ok := eng.IsCallTo(info, a, setter); ok && len(call.Args) == 1 && argOK(call.Args[0]) {
					return true
				}
			}
			return false
		}
		isObjQ := func(q string) func(ast.Expr) bool {
			return func(e ast.Expr) bool { o := eng.ObjOf(info, e); return o != nil && o == p.LookupObj(q) }
		}
		litUses := func(fn string, negated bool) func(ast.Expr) bool {
			return func(e ast.Expr) bool {
				lit, ok := eng.Unparen(e).(*ast.FuncLit)
				if !ok {
					return false
				}
				found := false
				ast.Inspect(lit, func(n ast.Node) bool {
					if negated {
						if u, isU := n.(*ast.UnaryExpr); isU && u.Op == token.NOT {
							if call, isCall := eng.Unparen(u.X).(*ast.CallExpr); isCall && eng.CalleeName(info, call) == fn {
								found = true
							}
						}
						return true
					}
					if id, isID := n.(*ast.Ident); isID {
						if o, isF := info.Uses[id].(*eng.TFunc); isF && eng.CanonFunc(eng.Short(o.FullName())) == fn {
							found = true
						}
					}
					return true
				})
				// and it filters its own argument
				g := p.FuncOfLit(lit)
				okArg := false
				for _, call := range g.CallsDeep("github.com/multiformats/go-multiaddr.FilterAddrs") {
					if len(call.Call().Args) == 2 && len(g.Type.Params.List) == 1 && eng.IsObj(info, call.Call().Args[0], info.Defs[g.Type.Params.List[0].Names[0]]) {
						okArg = true
					}
				}
				return found && okArg
			}
		}
		checks := []struct {
			side   string
			opt    *ast.CallExpr
			setter string
			arg    func(ast.Expr) bool
			desc   string
		}{
			{"WAN", wanOpt, "dht.QueryFilter", isObjQ("dht.PublicQueryFilter"), "the WAN DHT follows only referrals with a public address"},
			{"WAN", wanOpt, "dht.RoutingTableFilter", isObjQ("dht.PublicRoutingTableFilter"), "the WAN routing table admits only publicly reachable peers"},
			{"WAN", wanOpt, "dht.AddressFilter", litUses("github.com/multiformats/go-multiaddr/net.IsPublicAddr", false), "the WAN DHT stores and advertises only public addresses"},
			{"LAN", lanOpt, "dht.ProtocolExtension", isObjQ("dht/dual.LanExtension"), "the LAN DHT speaks the /lan protocol"},
			{"LAN", lanOpt, "dht.QueryFilter", isObjQ("dht.PrivateQueryFilter"), "the LAN DHT follows only referrals with a private address"},
			{"LAN", lanOpt, "dht.RoutingTableFilter", isObjQ("dht.PrivateRoutingTableFilter"), "the LAN routing table admits only peers on the local network"},
			{"LAN", lanOpt, "dht.AddressFilter", litUses("github.com/multiformats/go-multiaddr/net.IsIPLoopback", true), "the LAN DHT stores and advertises everything but loopback addresses"},
		}
		for _, ch := range checks {
			c.Check(K(f.Name, ch.side+" "+ch.setter), ch.opt.Pos(), has(ch.opt, ch.setter, ch.arg), ch.desc, "option missing or with a different argument")
		}
		ul := cf.LocOf(userApply)
		c.Check(K(f.Name, "defaults before user options"), userApply.Pos(), cf.Dominates(cf.LocOf(wanOpt), ul) && cf.Dominates(cf.LocOf(lanOpt), ul), "the scoping options are installed on every path before the user's options are applied", "user options can be applied without them")
		// each list goes to its own DHT
		var wanNew, lanNew *ast.CallExpr
		for _, call := range f.Calls("dht.New") {
			if len(call.Args) == 2 && call.Ellipsis.IsValid() {
				if eng.IsField(info, call.Args[1], "dht/dual.config.wan") {
					wanNew = call
				}
				if eng.IsField(info, call.Args[1], "dht/dual.config.lan") {
					lanNew = call
				}
			}
		}
		okWire := wanNew != nil && lanNew != nil
		if okWire {
			okWire = cf.Dominates(ul, cf.LocOf(wanNew)) && cf.Dominates(ul, cf.LocOf(lanNew))
			// results end up in the right fields
			var wanObj, lanObj eng.Object
			if as, ok := p.Parent(wanNew).(*ast.AssignStmt); ok {
				wanObj = eng.ObjOf(info, as.Lhs[0])
			}
			if as, ok := p.Parent(lanNew).(*ast.AssignStmt); ok {
				lanObj = eng.ObjOf(info, as.Lhs[0])
			}
			okFields := false
			f.Walk(func(n ast.Node) bool {
				if cl, ok := n.(*ast.CompositeLit); ok {
					if tv, ok := info.Types[cl]; ok && eng.TypeName(tv.Type) == "dht/dual.DHT" && len(cl.Elts) == 2 {
						if kv0, isKV := cl.Elts[0].(*ast.KeyValueExpr); isKV {
							kv1 := cl.Elts[1].(*ast.KeyValueExpr)
							vals := map[string]ast.Expr{eng.NameOf(kv0.Key.(*ast.Ident)): kv0.Value, eng.NameOf(kv1.Key.(*ast.Ident)): kv1.Value}
							okFields = eng.IsObj(info, vals["WAN"], wanObj) && eng.IsObj(info, vals["LAN"], lanObj)
						} else {
							okFields = eng.IsObj(info, cl.Elts[0], wanObj) && eng.IsObj(info, cl.Elts[1], lanObj)
						}
					}
				}
				return true
			})
			okWire = okWire && okFields
		}
		c.Check(K(f.Name, "lists wired to their DHTs"), f.Pos(), okWire, "the WAN option list builds the WAN DHT and the LAN list the LAN DHT", "lists or fields swapped")
		// dual option setters append to the right list
		for fn, flds := range map[string][]string{"dht/dual.WanDHTOption": {"wan"}, "dht/dual.LanDHTOption": {"lan"}, "dht/dual.DHTOption": {"lan", "wan"}} {
			g := c.Fn(fn)
			got := map[string]bool{}
			for _, l := range g.Lits {
				for _, as := range assignsTo(l, func(e ast.Expr) bool { return true }) {
					if s, ok := eng.Unparen(as.Lhs[0]).(*ast.SelectorExpr); ok {
						if app, isApp := eng.IsCallTo(l.Info(), as.Rhs[0], "builtin.append"); isApp && eng.SameExpr(l.Info(), app.Args[0], as.Lhs[0]) {
							got[eng.NameOf(s.Sel)] = true
						}
					}
				}
			}
			ok := len(got) == len(flds)
			for _, fl := range flds {
				ok = ok && got[fl]
			}
			c.Check(K(g.Name, "appends"), g.Pos(), ok, fn+" extends exactly its own option list(s)", "appends to other lists")
		}
		// option setters and makeDHT wiring
		for setter, fld := range map[string]string{"dht.QueryFilter": "QueryPeerFilter", "dht.AddressFilter": "AddressFilter", "dht.RoutingTableFilter": "PeerFilter"} {
			g := c.Fn(setter)
			ok := false
			for _, l := range g.Lits {
				for _, as := range assignsTo(l, func(e ast.Expr) bool { return true }) {
					if s, isSel := eng.Unparen(as.Lhs[0]).(*ast.SelectorExpr); isSel && eng.NameOf(s.Sel) == fld && eng.IsObj(l.Info(), as.Rhs[0], g.Info().Defs[g.Type.Params.List[0].Names[0]]) {
						ok = true
					}
				}
			}
			c.Check(K(g.Name, "sets "+fld), g.Pos(), ok, setter+" stores its argument in Config."+fld, "setter writes another field")
		}
		mk := c.Fn("dht.makeDHT")
		minfo := mk.Info()
		wired := map[string]bool{}
		mk.Walk(func(n ast.Node) bool {
			kv, ok := n.(*ast.KeyValueExpr)
			if !ok {
				return true
			}
			id, isID := kv.Key.(*ast.Ident)
			s, isSel := eng.Unparen(kv.Value).(*ast.SelectorExpr)
			if !isID || !isSel {
				return true
			}
			_ = minfo
			switch eng.NameOf(id) {
			case "queryPeerFilter":
				wired[eng.NameOf(id)] = eng.NameOf(s.Sel) == "QueryPeerFilter"
			case "routingTablePeerFilter":
				wired[eng.NameOf(id)] = eng.NameOf(s.Sel) == "PeerFilter"
			case "addrFilter":
				wired[eng.NameOf(id)] = eng.NameOf(s.Sel) == "AddressFilter"
			}
			return true
		})
		c.Check(K(mk.Name, "wires filters"), mk.Pos(), wired["queryPeerFilter"] && wired["routingTablePeerFilter"] && wired["addrFilter"], "the configured filters reach the fields the DHT consults", "a filter field is initialised from another option")
	}

	// R4 address filter on every store and advertisement
	c.Rule("R4")
	{
		n := 0
		for _, s := range p.AllCalls("(github.com/libp2p/go-libp2p/core/peerstore.AddrBook).AddAddrs", "(github.com/libp2p/go-libp2p/core/peerstore.AddrBook).AddAddr", "(github.com/libp2p/go-libp2p/core/peerstore.AddrBook).SetAddrs", "(github.com/libp2p/go-libp2p/core/peerstore.AddrBook).SetAddr") {
			if eng.Short(s.F.Pkg.PkgPath) != "dht" {
				continue
			}
			n++
			info := s.F.Info()
			ok := s.F.Name == "(*dht.IpfsDHT).maybeAddAddrs"
			if ok {
				fc, isF := eng.IsCallTo(info, s.Call().Args[1], "(*dht.IpfsDHT).filterAddrs")
				ok = isF && eng.IsObj(info, fc.Args[0], paramObj(s.F, "addrs"))
			}
			c.Check(K(s.F.Name, "peerstore write"), s.Node.Pos(), ok, "the DHT writes peer addresses to the peerstore only through maybeAddAddrs, after the address filter", "unfiltered or foreign peerstore write")
		}
		c.Check("peerstore writes in dht", 0, n >= 1, "the DHT stores learned addresses", "no write found")
		c15QueryFilter(c)
		// provider addresses: shared with C09.R7
		h := c.Fn("(*dht.IpfsDHT).handleAddProvider")
		okF := false
		for _, call := range h.Calls("(*dht.IpfsDHT).filterAddrs") {
			_ = call
			okF = true
		}
		c.Check(K(h.Name, "filters provider addresses"), h.Pos(), okF, "provider addresses stored from the network pass the address filter", "no filterAddrs call")
		g := c.Fn("(*dht.IpfsDHT).handleGetProviders")
		c.Check(K(g.Name, "filters served addresses"), g.Pos(), len(g.CallsDeep("(*dht.IpfsDHT).filterAddrs")) >= 1, "provider addresses served to the network pass the address filter", "no filterAddrs call")
		// advertisement: FilteredAddrs (C06.R3), in every ADD_PROVIDER the DHT builds
		c06FilteredAddrs(c)
		c06ProviderRecordContent(c)
		for _, s := range p.AllCalls("(github.com/libp2p/go-libp2p/core/host.Host).Addrs") {
			if eng.Short(s.F.Pkg.PkgPath) != "dht" {
				continue
			}
			okReader := s.F.Name == "(*dht.IpfsDHT).FilteredAddrs" || s.F.Name == "dht.privRTFilter"
			c.Check(K(s.F.Name, "reads host addresses"), s.Node.Pos(), okReader, "own addresses are read only to be filtered (or to classify a connection)", "host.Addrs() read in "+s.F.Name)
		}
	}

	// R5 merge
	c.Rule("R5")
	{
		f := c.Fn("(*dht/dual.DHT).FindPeer")
		cf := f.CFG()
		info := f.Info()
		var wanErr, lanErr eng.Object
		for _, s := range f.CallsDeep("(*dht.IpfsDHT).FindPeer") {
			if as, ok := p.Parent(s.Node).(*ast.AssignStmt); ok && len(as.Lhs) == 2 {
				sel := eng.Unparen(s.Call().Fun).(*ast.SelectorExpr)
				if eng.IsField(info, sel.X, "dht/dual.DHT.WAN") {
					wanErr = eng.ObjOf(info, as.Lhs[1])
				} else if eng.IsField(info, sel.X, "dht/dual.DHT.LAN") {
					lanErr = eng.ObjOf(info, as.Lhs[1])
				}
			}
		}
		c.Anchor(wanErr != nil && lanErr != nil, "dual.FindPeer: inner results not found")
		at := func(leaf ast.Expr) (string, bool, bool) {
			b, ok := eng.Unparen(leaf).(*ast.BinaryExpr)
			if !ok || !isNil(info, b.Y) {
				return "", false, false
			}
			if eng.IsObj(info, b.X, wanErr) {
				return "wanOK", b.Op == token.EQL, true
			}
			if eng.IsObj(info, b.X, lanErr) {
				return "lanOK", b.Op == token.EQL, true
			}
			return "", false, false
		}
		for i, ret := range cf.Returns() {
			if len(ret.Results) != 2 {
				continue
			}
			if isNil(info, ret.Results[1]) {
				ok := cf.ImpliedAt(cf.LocOf(ret), at, []string{"wanOK", "lanOK"}, func(v map[string]bool) bool { return v["wanOK"] || v["lanOK"] })
				c.Check(K(f.Name, "return#"+itoa(i)+" success"), ret.Pos(), ok, "FindPeer succeeds only when at least one DHT found the peer", "nil error reachable when both failed")
			} else {
				ok := cf.ImpliedAt(cf.LocOf(ret), at, []string{"wanOK", "lanOK"}, func(v map[string]bool) bool { return !v["wanOK"] && !v["lanOK"] })
				c.Check(K(f.Name, "return#"+itoa(i)+" failure"), ret.Pos(), ok, "FindPeer fails only when both DHTs failed", "error returned although one DHT succeeded")
			}
		}
		// union of addresses: both lists feed the result on the combine branch, and each alone when the other is empty
		var wanInfo, lanInfo eng.Object
		for _, s := range f.CallsDeep("(*dht.IpfsDHT).FindPeer") {
			if as, ok := p.Parent(s.Node).(*ast.AssignStmt); ok && len(as.Lhs) == 2 {
				sel := eng.Unparen(s.Call().Fun).(*ast.SelectorExpr)
				if eng.IsField(s.F.Info(), sel.X, "dht/dual.DHT.WAN") {
					wanInfo = eng.ObjOf(s.F.Info(), as.Lhs[0])
				} else if eng.IsField(s.F.Info(), sel.X, "dht/dual.DHT.LAN") {
					lanInfo = eng.ObjOf(s.F.Info(), as.Lhs[0])
				}
			}
		}
		c.Anchor(wanInfo != nil && lanInfo != nil, "dual.FindPeer: inner address results not found")
		addrsOf := func(obj eng.Object) func(ast.Expr) bool {
			return func(e ast.Expr) bool {
				s, ok := eng.Unparen(e).(*ast.SelectorExpr)
				return ok && eng.IsField(info, s, "github.com/libp2p/go-libp2p/core/peer.AddrInfo.Addrs") && eng.IsObj(info, s.X, obj)
			}
		}
		uses := map[string]int{}
		f.Walk(func(n ast.Node) bool {
			e, ok := n.(ast.Expr)
			if !ok {
				return true
			}
			switch e.(type) {
			case *ast.SelectorExpr, *ast.Ident:
			default:
				return true
			}
			if call, isCall := p.Parent(e).(*ast.CallExpr); isCall && eng.NameIn(eng.CalleeName(info, call), "builtin.len") {
				return true
			}
			// the definition of an alias is not itself a contribution to the result
			if as, isAs := p.Parent(e).(*ast.AssignStmt); isAs {
				for i, r := range as.Rhs {
					if r == e && i < len(as.Lhs) && localDef(f, as.Lhs[i]) == e {
						return true
					}
				}
				for _, l := range as.Lhs {
					if l == e {
						return true
					}
				}
			}
			if se, isSel := p.Parent(e).(*ast.SelectorExpr); isSel && se.X == e {
				return true // the struct variable inside wanInfo.Addrs, counted at the selector
			}
			if aliasOf(f, e, addrsOf(wanInfo)) {
				uses["wan"]++
			}
			if aliasOf(f, e, addrsOf(lanInfo)) {
				uses["lan"]++
			}
			return true
		})
		c.Check(K(f.Name, "union of addresses"), f.Pos(), uses["wan"] >= 2 && uses["lan"] >= 2, "both address sets contribute to the result (alone when the other is empty, merged otherwise)", "an address set is not used in the merge: uses wan="+itoa(uses["wan"])+" lan="+itoa(uses["lan"]))
	}
	c.Rule("R5")
	c08Dual(c)
}
