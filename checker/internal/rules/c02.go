package rules

import (
	"go/ast"
	"go/token"

	"kadcheck/internal/eng"
)

func init() {
	register(&Property{
		ID:  "C02",
		Run: runC02,
		Decided: "the end-condition mechanics the convergence argument rests on: the Kademlia end condition looks at exactly the beta nearest peers in states heard/waiting/queried and holds only if each of them is queried (R1); starvation is `no heard and no waiting` (R2); the next peers asked are the nearest merely-heard ones, the readiness test precedes every spawn round and a terminated query spawns nothing (R3); " +
			"the follow-up asks exactly the heard/waiting peers of the result, one worker each, is skipped and marked incomplete when the context ended or the stop function fired, counts each finished worker before any exit of its select arm and drains the rest (R4); network-size tracking and refresh-timer resets happen only for completed, uncancelled lookups, and `completed` is `end condition or starvation` (R5); the configured Resiliency, Concurrency and BucketSize reach the lookup unchanged (R7). Added after the seeded rounds: a successful return that skips the follow-up is implied by `no selected peer or stopped or cancelled` (R4). Round 4: a failed request is reported as unreachable, never as answered (R8, shared C01.R5).",
		NotDecided: "convergence on any topology (a statement about runtime values: which peers exist and what they answer); optimal termination time.",
	})
}

func stateAtom(info *eng.Info, leaf ast.Expr, subject func(ast.Expr) bool) (string, bool, bool) {
	b, ok := eng.Unparen(leaf).(*ast.BinaryExpr)
	if !ok || (b.Op != token.EQL && b.Op != token.NEQ) {
		return "", false, false
	}
	x, y := b.X, b.Y
	if eng.ConstObj(info, x) != nil {
		x, y = y, x
	}
	co := eng.ConstObj(info, y)
	if co == nil || !subject(x) {
		return "", false, false
	}
	return "is" + co.Name(), b.Op == token.EQL, true
}

// c02ConfigPlumbing: the lookup parameters the caller configured are the ones the lookup runs
// with: New and makeDHT never rewrite Resiliency / Concurrency / BucketSize, and makeDHT copies
// them into beta / alpha / bucketSize.
func c02ConfigPlumbing(c *Ctx) {
	p := c.P
	for _, fld := range []string{"Resiliency", "Concurrency", "BucketSize"} {
		q := "dht/internal/config.Config." + fld
		n := 0
		for _, f := range p.Funcs() {
			for _, acc := range f.FieldAccesses(q) {
				if !acc.Write {
					continue
				}
				n++
				root := f.Root()
				// option constructors (their closures run before validation) and the config package's defaults
				okW := eng.Short(root.Pkg.PkgPath) == "dht/internal/config" || (f.Lit != nil && root.Obj != nil && root.Obj.Exported() && root.Name != "dht.New")
				c.Check(K(f.Name, "writes "+fld), acc.Sel.Pos(), okW, "the configured "+fld+" is written only by option functions and defaults, never adjusted by the constructor", "config."+fld+" assigned in "+root.Name)
			}
		}
		_ = n
	}
	mk := c.Fn("dht.makeDHT")
	minfo := mk.Info()
	want := map[string]string{"beta": "Resiliency", "alpha": "Concurrency", "bucketSize": "BucketSize"}
	got := map[string]bool{}
	mk.Walk(func(n ast.Node) bool {
		kv, ok := n.(*ast.KeyValueExpr)
		if !ok {
			return true
		}
		id, isID := kv.Key.(*ast.Ident)
		if !isID {
			return true
		}
		if cfgFld, ok := want[eng.NameOf(id)]; ok {
			if eng.IsField(minfo, kv.Value, "dht/internal/config.Config."+cfgFld) {
				got[eng.NameOf(id)] = true
			}
		}
		return true
	})
	for k, v := range want {
		c.Check(K(mk.Name, k+" = cfg."+v), mk.Pos(), got[k], "the DHT's "+k+" is the configured "+v, "makeDHT does not initialise "+k+" from cfg."+v)
	}
}

func runC02(c *Ctx) {
	p := c.P
	// R1 Kademlia end condition
	c.Rule("R1")
	{
		f := c.Fn("(*dht.query).isLookupTermination")
		info := f.Info()
		cf := f.CFG()
		calls := f.Calls(fnClosN)
		ok := len(calls) == 1 && len(calls[0].Args) >= 2
		detail := "no single GetClosestNInStates call"
		var cand eng.Object
		if ok {
			got := stateConsts(info, calls[0].Args[1:])
			ok = eng.IsField(info, calls[0].Args[0], "dht.IpfsDHT.beta") && got == "PeerHeard,PeerQueried,PeerWaiting"
			detail = "count=" + short(calls[0].Args[0]) + " states=" + got
			if as, isAs := p.Parent(calls[0]).(*ast.AssignStmt); isAs {
				cand = eng.ObjOf(info, as.Lhs[0])
			}
		}
		c.Check(K(f.Name, "candidates"), f.Pos(), ok, "the end condition looks at the beta nearest peers in states heard/waiting/queried", detail)
		// return true only if no candidate is in another state than queried
		var loop *ast.RangeStmt
		f.Walk(func(n ast.Node) bool {
			if r, isR := n.(*ast.RangeStmt); isR && cand != nil && eng.IsObj(info, r.X, cand) {
				loop = r
			}
			return true
		})
		if c.Check(K(f.Name, "examines every candidate"), f.Pos(), loop != nil && loop.Value != nil, "every candidate is examined", "no loop over the candidates") {
			subj := func(e ast.Expr) bool {
				call, isCall := eng.IsCallTo(info, e, "(*"+qpsT+").GetState")
				return isCall && len(call.Args) == 1 && eng.SameExpr(info, call.Args[0], loop.Value)
			}
			at := func(leaf ast.Expr) (string, bool, bool) { return stateAtom(info, leaf, subj) }
			// from the loop body, `return true` / continuing is possible only if the candidate is queried
			nFalse := 0
			for _, ret := range cf.Returns() {
				if len(ret.Results) != 1 {
					continue
				}
				if isBoolConst(info, ret.Results[0], false) && eng.Contains(loop.Body, ret) {
					nFalse++
				}
				if isBoolConst(info, ret.Results[0], true) {
					c.Check(K(f.Name, "true only after the loop"), ret.Pos(), !eng.Contains(loop.Body, ret), "the end condition holds only after all candidates were examined", "`return true` inside the loop")
				}
			}
			c.Check(K(f.Name, "refuses"), f.Pos(), nFalse >= 1, "a candidate that is not queried refuses termination", "no `return false` in the loop")
			// the back edge (next candidate) is taken only when the current one is queried:
			// every path from the loop body start to the loop head implies isPeerQueried
			body := cf.LocOf(loop.Body.List[0])
			okAll := true
			if body.Valid() {
				// cut all edges that establish "state == PeerQueried"; the loop head must then be unreachable from the body start
				head := eng.Loc{}
				for _, b := range cf.G.Blocks {
					if b.Live && b.Kind.String() == "RangeLoop" && b.Stmt == ast.Stmt(loop) {
						head = eng.Loc{B: b, I: -1}
					}
				}
				r, _ := cf.Reach(eng.Loc{B: body.B, I: -2}, eng.LocSet(head), eng.ReachOpt{CutEdge: func(b *eng.Block, i int) bool {
					cond := cf.Cond(b)
					if cond == nil {
						return false
					}
					return eng.Implied([]eng.CondEdge{{Cond: cond, Truth: i == 0}}, at, []string{"isPeerQueried"}, func(v map[string]bool) bool { return v["isPeerQueried"] })
				}})
				okAll = head.Valid() && !r
			}
			c.Check(K(f.Name, "all queried"), loop.Pos(), okAll, "the loop proceeds past a candidate only if its state is queried", "the next iteration is reachable for a candidate in another state")
		}
	}

	// R2 starvation
	c.Rule("R2")
	{
		f := c.Fn("(*dht.query).isStarvationTermination")
		info := f.Info()
		rets := f.CFG().Returns()
		at := func(leaf ast.Expr) (string, bool, bool) {
			a, op, b, ok := cmpNorm(leaf)
			if !ok || !isConstVal(info, b, 0) {
				return "", false, false
			}
			name := ""
			if _, isH := eng.IsCallTo(info, a, "(*"+qpsT+").NumHeard"); isH {
				name = "noHeard"
			}
			if _, isW := eng.IsCallTo(info, a, "(*"+qpsT+").NumWaiting"); isW {
				name = "noWaiting"
			}
			if name == "" {
				return "", false, false
			}
			switch op {
			case token.EQL, token.LEQ:
				return name, true, true
			case token.NEQ, token.GTR:
				return name, false, true
			}
			return "", false, false
		}
		ok := len(rets) == 1 && len(rets[0].Results) == 1 && eng.Equivalent(rets[0].Results[0], at, []string{"noHeard", "noWaiting"}, func(v map[string]bool) bool { return v["noHeard"] && v["noWaiting"] })
		c.Check(K(f.Name, "starvation"), f.Pos(), ok, "starvation is `NumHeard() == 0 && NumWaiting() == 0`", "return expression not equivalent")
	}

	// R3 next peers and order of checks
	c.Rule("R3")
	{
		f := c.Fn("(*dht.query).isReadyToTerminate")
		info := f.Info()
		calls := f.Calls(fnClosN)
		ok := len(calls) == 1
		detail := "no single GetClosestNInStates call"
		if ok {
			got := stateConsts(info, calls[0].Args[1:])
			ok = got == "PeerHeard" && eng.IsObj(info, calls[0].Args[0], paramObj(f, "nPeersToQuery"))
			detail = "count=" + short(calls[0].Args[0]) + " states=" + got
		}
		c.Check(K(f.Name, "next peers"), f.Pos(), ok, "the peers asked next are the nearest ones merely heard of, at most as many as there are free slots", detail)
		// the three termination tests are all consulted before peers are handed out
		for _, callee := range []string{"field:dht.query.stopFn", "(*dht.query).isStarvationTermination", "(*dht.query).isLookupTermination"} {
			cs := f.Calls(callee)
			okT := len(cs) == 1 && len(calls) == 1 && f.CFG().Dominates(f.CFG().LocOf(cs[0]), f.CFG().LocOf(calls[0]))
			if okT {
				// its true edge returns ready=true
				okT = false
				for _, e := range factEdges(f.CFG(), func(ft eng.Fact) bool {
					call, truth, isCall := ft.CallFact(callee)
					return isCall && truth && call == cs[0]
				}) {
					for _, ret := range f.CFG().Returns() {
						if g, _ := f.CFG().GuardedFrom(f.CFG().Entry(), f.CFG().LocOf(ret), func(ft eng.Fact) bool {
							call, truth, isCall := ft.CallFact(callee)
							return isCall && truth && call == cs[0]
						}); g && len(ret.Results) == 3 && isBoolConst(info, ret.Results[0], true) {
							okT = true
						}
					}
					_ = e
				}
			}
			c.Check(K(f.Name, "consults "+callee), f.Pos(), okT, "stop function, starvation and end condition are each consulted and end the lookup when they hold", "test missing, after the peer selection, or not returning ready")
		}
		r := c.Fn("(*dht.query).run")
		rinfo := r.Info()
		rcf := r.CFG()
		ready := r.Calls("(*dht.query).isReadyToTerminate")
		spawns := r.Calls("(*dht.query).spawnQuery")
		if c.Check(K(r.Name, "shape"), r.Pos(), len(ready) == 1 && len(spawns) == 1, "run has one readiness test and one spawn site", "found "+itoa(len(ready))+" / "+itoa(len(spawns))) {
			sl, rl := rcf.LocOf(spawns[0]), rcf.LocOf(ready[0])
			c.Check(K(r.Name, "readiness before spawn"), spawns[0].Pos(), rcf.Dominates(rl, sl), "no peer is asked before the termination conditions were evaluated", "spawn reachable without isReadyToTerminate")
			// a new spawn round needs a new readiness test ...
			var rng *ast.RangeStmt
			for x := p.Parent(spawns[0]); x != nil; x = p.Parent(x) {
				if rg, ok := x.(*ast.RangeStmt); ok {
					rng = rg
					break
				}
			}
			okRound := false
			if rng != nil {
				// from the end of the spawn loop, the loop is re-entered only through the readiness test
				var done eng.Loc
				for _, b := range rcf.G.Blocks {
					if b.Live && b.Kind.String() == "RangeDone" && b.Stmt == ast.Stmt(rng) {
						done = eng.Loc{B: b, I: -2}
					}
				}
				if done.Valid() {
					rr, _ := rcf.Reach(done, eng.LocSet(sl), eng.ReachOpt{CutLoc: eng.LocSet(rl)})
					okRound = !rr
				}
				// the spawned peers are the third result of the readiness test
				if as, isAs := p.Parent(ready[0]).(*ast.AssignStmt); isAs && len(as.Lhs) == 3 {
					c.Check(K(r.Name, "spawns the selected peers"), rng.Pos(), eng.IsObj(rinfo, rng.X, eng.ObjOf(rinfo, as.Lhs[2])) && rng.Value != nil && eng.SameExpr(rinfo, spawns[0].Args[2], rng.Value),
						"exactly the peers selected by the readiness test are asked", "spawn loop ranges over something else")
					// terminate on ready
					readyObj := eng.ObjOf(rinfo, as.Lhs[0])
					okTerm := false
					for _, t := range r.Calls("(*dht.query).terminate") {
						if g, _ := rcf.Guarded(rcf.LocOf(t), func(ft eng.Fact) bool {
							o, truth, isB := ft.BoolVar()
							return isB && truth && o == readyObj
						}); g && len(t.Args) == 3 && eng.IsObj(rinfo, t.Args[2], eng.ObjOf(rinfo, as.Lhs[1])) {
							okTerm = true
						}
					}
					c.Check(K(r.Name, "terminates when ready"), ready[0].Pos(), okTerm, "a lookup whose termination condition holds is terminated with that reason", "no terminate(…, reason) on the ready edge")
				}
			}
			c.Check(K(r.Name, "readiness per round"), spawns[0].Pos(), okRound, "each spawn round is preceded by a fresh readiness test", "a second round is reachable without re-testing")
			g, _ := rcf.Guarded(sl, func(ft eng.Fact) bool {
				_, truth, isB := ft.BoolVar()
				return isB && !truth && eng.IsField(rinfo, ft.Expr, "dht.query.terminated")
			})
			c.Check(K(r.Name, "terminated query spawns nothing"), spawns[0].Pos(), g, "a terminated lookup asks no further peer", "spawn not guarded by !q.terminated")
		}
		// spawnQuery marks waiting before the go
		s := c.Fn("(*dht.query).spawnQuery")
		sinfo := s.Info()
		scf := s.CFG()
		qpeer := paramObj(s, "queryPeer")
		var goStmt *ast.GoStmt
		s.Walk(func(n ast.Node) bool {
			if g, ok := n.(*ast.GoStmt); ok {
				goStmt = g
			}
			return true
		})
		okW := false
		if goStmt != nil {
			for _, st := range s.Calls("(*" + qpsT + ").SetState") {
				co := eng.ConstObj(sinfo, st.Args[1])
				if co != nil && co.Name() == "PeerWaiting" && eng.IsObj(sinfo, st.Args[0], qpeer) && scf.Dominates(scf.LocOf(st), scf.LocOf(goStmt)) {
					okW = true
				}
			}
			okW = okW && eng.CalleeName(sinfo, goStmt.Call) == "(*dht.query).queryPeer" && len(goStmt.Call.Args) == 3 && eng.IsObj(sinfo, goStmt.Call.Args[2], qpeer)
		}
		c.Check(K(s.Name, "waiting before go"), s.Pos(), okW, "a peer is marked waiting before its request goroutine starts, and that goroutine asks this very peer", "SetState(queryPeer, PeerWaiting) does not dominate `go q.queryPeer(…, queryPeer)`")
	}

	// R4 follow-up
	c.Rule("R4")
	c02R4(c)

	// R6 a completed lookup hands out the non-failed list
	c.Rule("R6")
	c01Closest(c)

	// R7 the configured beta / alpha / K are the ones the lookup runs with
	c.Rule("R7")
	c02ConfigPlumbing(c)

	// R5 side effects only on completed lookups
	// R8 a failed request counts as unreachable, never as answered: the termination test counts
	// answered peers only (C01.R5)
	c.Rule("R8")
	c.Share("C01", "R5")

	c.Rule("R5")
	{
		completedTrue := func(info *eng.Info) func(eng.Fact) bool {
			return func(ft eng.Fact) bool {
				_, truth, isB := ft.BoolVar()
				return isB && truth && eng.IsField(info, ft.Expr, "dht.lookupWithFollowupResult.completed")
			}
		}
		ctxAlive := func(f *eng.Func) func(eng.Fact) bool {
			info := f.Info()
			return func(ft eng.Fact) bool {
				x, isNilF, ok := ft.NilFact()
				if !ok || !isNilF {
					return false
				}
				if _, isErr := eng.IsCallTo(info, x, "(context.Context).Err"); isErr {
					return true
				}
				if o := eng.ObjOf(info, x); o != nil {
					rhs, _ := ft.C.LastAssign(ft.B, o)
					_, isErr := eng.IsCallTo(info, defOrNil(rhs), "(context.Context).Err")
					return isErr
				}
				return false
			}
		}
		n := 0
		for _, site := range p.AllCalls("(*dht/netsize.Estimator).Track", "(*github.com/libp2p/go-libp2p-kbucket.RoutingTable).ResetCplRefreshedAtForID") {
			f := site.F
			if eng.Short(f.Pkg.PkgPath) != "dht" {
				continue
			}
			n++
			cf := f.CFG()
			g1, _ := cf.Guarded(cf.LocOf(site.Node), completedTrue(f.Info()))
			c.Check(K(f.Name, "effect "+short(site.Call().Fun)+" only when completed"), site.Node.Pos(), g1, "network-size tracking and refresh-timer resets happen only for lookups that completed", "call not guarded by lookupRes.completed")
			if f.Name == "(*dht.IpfsDHT).refreshRTIfNoShortcut" {
				continue
			}
			g2, _ := cf.Guarded(cf.LocOf(site.Node), ctxAlive(f))
			c.Check(K(f.Name, "effect "+short(site.Call().Fun)+" only when not cancelled"), site.Node.Pos(), g2, "… and whose context was not cancelled", "call not guarded by ctx.Err() == nil")
		}
		c.Check("side-effect sites", 0, n >= 2, "at least 2 tracking/reset sites exist", "found "+itoa(n))
		for _, site := range p.AllCalls("(*dht.IpfsDHT).refreshRTIfNoShortcut") {
			g, _ := site.F.CFG().Guarded(site.F.CFG().LocOf(site.Node), ctxAlive(site.F))
			c.Check(K(site.F.Name, "refresh only when not cancelled"), site.Node.Pos(), g, "the refresh timer is reset only when the operation's context is alive", "call not guarded by ctx.Err() == nil")
		}
		// completed = end condition || starvation
		f := c.Fn("(*dht.query).constructLookupResult")
		info := f.Info()
		okC := false
		f.Walk(func(x ast.Node) bool {
			kv, ok := x.(*ast.KeyValueExpr)
			if !ok {
				return true
			}
			if id, isID := kv.Key.(*ast.Ident); !isID || eng.NameOf(id) != "completed" {
				return true
			}
			e := kv.Value
			if o := eng.ObjOf(info, e); o != nil {
				if d := f.LocalVarDef(o); d != nil {
					e = d
				}
			}
			at := func(leaf ast.Expr) (string, bool, bool) {
				if _, ok := eng.IsCallTo(info, leaf, "(*dht.query).isLookupTermination"); ok {
					return "end", true, true
				}
				if _, ok := eng.IsCallTo(info, leaf, "(*dht.query).isStarvationTermination"); ok {
					return "starved", true, true
				}
				return "", false, false
			}
			okC = eng.Equivalent(e, at, []string{"end", "starved"}, func(v map[string]bool) bool { return v["end"] || v["starved"] })
			return true
		})
		c.Check(K(f.Name, "completed"), f.Pos(), okC, "`completed` is `end condition || starvation`", "computed differently")
	}
}

// c02R4: the follow-up stage of runLookupWithFollowup.
func c02R4(c *Ctx) {
	p := c.P
	f := c.Fn("(*dht.IpfsDHT).runLookupWithFollowup")
	info := f.Info()
	cf := f.CFG()
	queryFn, stopFn, ctx := paramObj(f, "queryFn"), paramObj(f, "stopFn"), paramObj(f, "ctx")
	c.Anchor(queryFn != nil && stopFn != nil && ctx != nil, "runLookupWithFollowup: params not found")
	// selection
	var qpeers eng.Object
	var selLoop *ast.RangeStmt
	f.Walk(func(n ast.Node) bool {
		if rg, ok := n.(*ast.RangeStmt); ok && eng.IsField(info, rg.X, "dht.lookupWithFollowupResult.peers") {
			selLoop = rg
		}
		return true
	})
	if c.Check(K(f.Name, "selection loop"), f.Pos(), selLoop != nil && selLoop.Key != nil && selLoop.Value != nil, "the follow-up set is chosen from the lookup's result list", "no loop over lookupRes.peers") {
		n := 0
		for _, as := range assignsTo(f, func(l ast.Expr) bool { return true }) {
			app, isApp := eng.IsCallTo(info, as.Rhs[0], "builtin.append")
			if !isApp || !eng.Contains(selLoop.Body, as) {
				continue
			}
			n++
			qpeers = eng.ObjOf(info, as.Lhs[0])
			okEl := len(app.Args) == 2 && eng.SameExpr(info, app.Args[1], selLoop.Value)
			subj := func(e ast.Expr) bool {
				if o := eng.ObjOf(info, e); o != nil {
					rhs, _ := cf.LastAssign(cf.BlockOf(as), o)
					if rhs == nil {
						for _, d := range f.AssignedFrom(o) {
							rhs = d
						}
					}
					e = defOrNil(rhs)
				}
				ix, ok := eng.Unparen(e).(*ast.IndexExpr)
				return ok && eng.IsField(info, ix.X, "dht.lookupWithFollowupResult.state") && eng.SameExpr(info, ix.Index, selLoop.Key)
			}
			at := func(leaf ast.Expr) (string, bool, bool) { return stateAtom(info, leaf, subj) }
			want := func(v map[string]bool) bool { return v["isPeerHeard"] || v["isPeerWaiting"] }
			// exactly: selected iff heard or waiting (the two are mutually exclusive states of one variable)
			conds := cf.DominatingConds(cf.LocOf(as))
			var inner []eng.CondEdge
			for _, ce := range conds {
				if eng.Contains(selLoop.Body, ce.Cond) {
					inner = append(inner, ce)
				}
			}
			okSel := len(inner) == 1 && inner[0].Truth && eng.Equivalent(inner[0].Cond, at, []string{"isPeerHeard", "isPeerWaiting"}, want)
			c.Check(K(f.Name, "follow-up selection"), as.Pos(), okEl && okSel, "the follow-up asks exactly the result peers still in state heard or waiting", "selection condition is not `state == heard || state == waiting` on the peer's own state")
		}
		c.Check(K(f.Name, "selects"), f.Pos(), n == 1, "one append builds the follow-up set", "found "+itoa(n))
	}
	// spawn
	var goStmt *ast.GoStmt
	f.Walk(func(n ast.Node) bool {
		if g, ok := n.(*ast.GoStmt); ok {
			goStmt = g
		}
		return true
	})
	c.Anchor(goStmt != nil && qpeers != nil, "runLookupWithFollowup: follow-up spawn not found")
	{
		var rng *ast.RangeStmt
		for x := p.Parent(goStmt); x != nil; x = p.Parent(x) {
			if rg, ok := x.(*ast.RangeStmt); ok {
				rng = rg
				break
			}
		}
		lit, _ := eng.Unparen(goStmt.Call.Fun).(*ast.FuncLit)
		okSpawn := rng != nil && eng.IsObj(info, rng.X, qpeers) && lit != nil
		if okSpawn {
			g := p.FuncOfLit(lit)
			qc := g.Calls("var:queryFn")
			okSpawn = len(qc) == 1 && len(qc[0].Args) == 2
			if okSpawn {
				// the peer argument is (a copy of) the loop variable
				o := eng.ObjOf(info, qc[0].Args[1])
				okSpawn = o == eng.ObjOf(info, rng.Value)
				if !okSpawn {
					if d := f.LocalVarDef(o); d != nil && eng.SameExpr(info, d, rng.Value) {
						okSpawn = true
					}
				}
			}
			// each worker signals exactly once
			var doneCh eng.Object
			var sl []eng.Loc
			g.Walk(func(n ast.Node) bool {
				if s, ok := n.(*ast.SendStmt); ok {
					doneCh = eng.ObjOf(info, s.Chan)
					sl = append(sl, g.CFG().LocOf(s))
				}
				return true
			})
			min, max, inLoop, _, _ := g.CFG().CountOnPaths(eng.LocSet(sl...), false)
			c.Check(K(g.Name, "signals once"), lit.Pos(), min == 1 && max == 1 && !inLoop && doneCh != nil, "every follow-up worker signals completion exactly once", "min="+itoa(min)+" max="+itoa(max))
			if doneCh != nil {
				def := f.LocalVarDef(doneCh)
				isMake, capE := eng.MakeChan(info, defOrNil(def))
				var la ast.Expr
				if capE != nil {
					la = lenOf(f, capE)
				}
				c.Check(K(f.Name, "done channel capacity"), goStmt.Pos(), isMake && la != nil && eng.IsObj(info, la, qpeers), "the completion channel can hold one signal per worker", "capacity is not len(queryPeers)")
				c02Drain(c, f, doneCh, qpeers, stopFn)
			}
		}
		c.Check(K(f.Name, "one worker per selected peer"), goStmt.Pos(), okSpawn, "one follow-up request is started for every selected peer, asking that peer", "spawn loop or queryFn argument differs")
	}
	// the follow-up is skipped only for an empty selection, a stop verdict or a dead context:
	// every successful return that does not lie behind the spawn loop is implied by one of them
	{
		at := func(leaf ast.Expr) (string, bool, bool) {
			if x, nonEmpty, ok := emptiness(info, leaf); ok && eng.IsObj(info, x, qpeers) {
				return "selected", nonEmpty, true
			}
			if call, ok := eng.Unparen(leaf).(*ast.CallExpr); ok && eng.IsObj(info, call.Fun, stopFn) {
				return "stopped", true, true
			}
			if b, ok := eng.Unparen(leaf).(*ast.BinaryExpr); ok && (isNil(info, b.Y) || isNil(info, b.X)) {
				x := b.X
				if isNil(info, b.X) {
					x = b.Y
				}
				if _, isErr := eng.IsCallTo(info, x, "(context.Context).Err"); isErr {
					return "cancelled", b.Op == token.NEQ, true
				}
			}
			return "", false, false
		}
		heads := loopHeads(cf, p, goStmt)
		for i, ret := range cf.Returns() {
			if len(ret.Results) != 2 || !isNil(info, ret.Results[1]) || len(heads) == 0 {
				continue
			}
			// behind the spawn loop: not a skip
			if cf.Dominates(heads[0], cf.LocOf(ret)) {
				continue
			}
			ok := cf.ImpliedAt(cf.LocOf(ret), at, []string{"selected", "stopped", "cancelled"}, func(v map[string]bool) bool {
				return !v["selected"] || v["stopped"] || v["cancelled"]
			})
			c.Check(K(f.Name, "return#"+itoa(i)+" skips the follow-up only when allowed"), ret.Pos(), ok, "the follow-up is skipped only when no result peer is still unasked, the stop function fired, or the context ended", "a successful return before the follow-up is reachable with selected peers, no stop and a live context")
		}
	}
	// not entered when stopped or cancelled
	gl := cf.LocOf(goStmt)
	gStop, _ := cf.Guarded(gl, func(ft eng.Fact) bool {
		call, truth, ok := ft.CallFact("var:stopFn")
		return ok && !truth && eng.IsObj(info, call.Fun, stopFn)
	})
	gCtx, _ := cf.Guarded(gl, func(ft eng.Fact) bool {
		x, isNilF, ok := ft.NilFact()
		_, isErr := eng.IsCallTo(info, x, "(context.Context).Err")
		return ok && isNilF && isErr
	})
	c.Check(K(f.Name, "no follow-up after stop"), goStmt.Pos(), gStop, "no follow-up request is sent once the stop function holds", "spawn not guarded by !stopFn(qps)")
	c.Check(K(f.Name, "no follow-up after cancel"), goStmt.Pos(), gCtx, "no follow-up request is sent once the context ended", "spawn not guarded by ctx.Err() == nil")
	// early exits clear `completed`
	var clears []eng.Loc
	for _, as := range assignsTo(f, func(l ast.Expr) bool { return eng.IsField(info, l, "dht.lookupWithFollowupResult.completed") }) {
		if isBoolConst(info, as.Rhs[0], false) {
			clears = append(clears, cf.LocOf(as))
		} else {
			c.Check(K(f.Name, "completed only cleared"), as.Pos(), false, "the follow-up never sets completed to true", "assignment of "+short(as.Rhs[0]))
		}
	}
	for _, e := range factEdges(cf, func(ft eng.Fact) bool {
		// the skip test before the follow-up: stopFn(qps) true / ctx.Err() != nil, as a disjunction
		return false
	}) {
		_ = e
	}
	for _, b := range cf.G.Blocks {
		cond := cf.Cond(b)
		if !b.Live || cond == nil || !cf.Dominates(cf.LocOf(cond), gl) {
			continue
		}
		mentionsStop := false
		ast.Inspect(cond, func(n ast.Node) bool {
			if call, ok := n.(*ast.CallExpr); ok && eng.IsObj(info, call.Fun, stopFn) {
				mentionsStop = true
			}
			return true
		})
		if !mentionsStop {
			continue
		}
		// on the edge that skips the follow-up, completed is cleared before returning
		for si := 0; si < 2; si++ {
			start := eng.Loc{B: b.Succs[si], I: -2}
			if r, _ := cf.Reach(start, eng.LocSet(gl), eng.ReachOpt{}); r {
				continue
			}
			ok, w := cf.MustPass(start, eng.LocSet(cf.Exits(true)...), eng.LocSet(clears...))
			c.CheckW(K(f.Name, "skipped follow-up is incomplete"), cond.Pos(), ok, "a lookup whose follow-up was skipped is reported as not completed", "a return is reachable with completed still set", cf.DescribePath(w))
		}
	}
}

// c02Drain: the wait loop counts every finished worker and the remaining ones are drained.
func c02Drain(c *Ctx, f *eng.Func, doneCh, qpeers, stopFn eng.Object) {
	p := c.P
	info := f.Info()
	cf := f.CFG()
	// the select arm receiving from doneCh
	var arm *ast.CommClause
	var ctxArm *ast.CommClause
	for _, sel := range f.Selects() {
		for _, sc := range eng.SelectCases(info, sel) {
			if sc.Kind == "recv" && eng.IsObj(info, sc.Chan, doneCh) {
				arm = sc.Clause
			}
			if sc.Kind == "ctx" {
				ctxArm = sc.Clause
			}
		}
	}
	if !c.Check(K(f.Name, "wait select"), f.Pos(), arm != nil && ctxArm != nil, "the wait for the workers can be left through the context", "no select over {done signal, ctx.Done()}") {
		return
	}
	// the counter
	var counter eng.Object
	var incLoc eng.Loc
	for _, st := range arm.Body {
		if inc, ok := st.(*ast.IncDecStmt); ok && inc.Tok == token.INC {
			counter = eng.ObjOf(info, inc.X)
			incLoc = cf.LocOf(inc)
		}
	}
	ast.Inspect(arm, func(n ast.Node) bool {
		if inc, ok := n.(*ast.IncDecStmt); ok && inc.Tok == token.INC && counter == nil {
			counter = eng.ObjOf(info, inc.X)
			incLoc = cf.LocOf(inc)
		}
		return true
	})
	if !c.Check(K(f.Name, "counts completions"), arm.Pos(), counter != nil, "finished workers are counted", "no counter increment in the done arm") {
		return
	}
	// every way out of the done arm passes the increment
	armStart := cf.LocOf(arm.Comm)
	var outs []eng.Loc
	outs = append(outs, cf.Exits(false)...)
	for _, b := range cf.G.Blocks {
		if !b.Live {
			continue
		}
		for i, n := range b.Nodes {
			if !eng.Contains(arm, n) {
				outs = append(outs, eng.Loc{B: b, I: i})
			}
		}
	}
	ok, w := cf.MustPass(armStart, eng.LocSet(outs...), eng.LocSet(incLoc))
	c.CheckW(K(f.Name, "count before leaving the arm"), arm.Pos(), ok, "a received completion is counted before the arm can be left (otherwise the drain waits for a signal that never comes)", "the arm can be left without counting the completion", cf.DescribePath(w))
	// leaving the wait through the context marks the lookup incomplete
	{
		var clears []eng.Loc
		for _, as := range assignsTo(f, func(l ast.Expr) bool { return eng.IsField(info, l, "dht.lookupWithFollowupResult.completed") }) {
			if isBoolConst(info, as.Rhs[0], false) {
				clears = append(clears, cf.LocOf(as))
			}
		}
		var couts []eng.Loc
		couts = append(couts, cf.Exits(false)...)
		for _, b := range cf.G.Blocks {
			if !b.Live {
				continue
			}
			for i, n := range b.Nodes {
				if !eng.Contains(ctxArm, n) {
					couts = append(couts, eng.Loc{B: b, I: i})
				}
			}
		}
		okc, wc := cf.MustPass(cf.LocOf(ctxArm.Comm), eng.LocSet(couts...), eng.LocSet(clears...))
		c.CheckW(K(f.Name, "cancelled wait is incomplete"), ctxArm.Pos(), okc, "a follow-up cut short by the context is reported as not completed", "the ctx.Done() arm can be left with completed still set", cf.DescribePath(wc))
	}
	// drain: a loop that runs len(queryPeers)-counter times and receives once per turn
	okDrain := false
	f.Walk(func(n ast.Node) bool {
		st, isStmt := n.(ast.Stmt)
		if !isStmt {
			return true
		}
		lo, hi, isLoop := tripCount(info, st)
		if !isLoop || lo == nil || !eng.IsObj(info, lo, counter) {
			return true
		}
		if la := lenOf(f, hi); la == nil || !eng.IsObj(info, la, qpeers) {
			return true
		}
		var body *ast.BlockStmt
		switch lp := st.(type) {
		case *ast.ForStmt:
			body = lp.Body
		case *ast.RangeStmt:
			body = lp.Body
		}
		nrecv, other := 0, false
		ast.Inspect(body, func(x ast.Node) bool {
			switch u := x.(type) {
			case *ast.UnaryExpr:
				if u.Op == token.ARROW && eng.IsObj(info, u.X, doneCh) {
					nrecv++
				}
			case *ast.BranchStmt, *ast.ReturnStmt:
				other = true
			case *ast.IncDecStmt:
				if eng.IsObj(info, u.X, counter) {
					other = true
				}
			case *ast.AssignStmt:
				for _, l := range u.Lhs {
					if eng.IsObj(info, l, counter) {
						other = true
					}
				}
			}
			return true
		})
		if nrecv == 1 && !other {
			okDrain = true
		}
		return true
	})
	c.Check(K(f.Name, "drains the rest"), f.Pos(), okDrain, "workers not yet counted are awaited before returning (`for i := completed; i < len(queryPeers); i++ { <-done }`)", "drain loop not found or bounds differ")
	// stop inside the wait: cancel + mark incomplete unless it was the last worker
	_ = p
	_ = stopFn
}
