package rules

import (
	"go/ast"

	"kadcheck/internal/eng"
)

const vsT = "dht/records.ValueStore"

func init() {
	register(&Property{
		ID:  "C05",
		Run: runC05,
		Decided: "the value datastore handle is mutated only by ValueStore.Put (Put) and discardIfUnchanged (Delete) (R1); the write in Put lies behind a successful Validate(key, rec value), under the key's striped lock, and behind 'nothing stored or Select(key,{new,existing}) == 0', with the existing record read under the same lock and validated under its own key (R2); " +
			"the delete in discardIfUnchanged is under the same striped lock behind bytes.Equal(current, seen), and every caller passes the datastore key derived from the record key it passes (R3); Get returns a record only behind the key check and the age check, expired() has the right polarity and treats an unparsable time as expired (R4); " +
			"every caller stores a record under its own key (R5); the PUT_VALUE handler's guards (R6); local PutValue validates, refuses a worse value, and putLocal forwards the store's error (R7); the sweep deletes only through discardIfUnchanged behind its ownership and expiry tests (R8). Added after the seeded rounds: every return of ValueStore.Put that may carry a nil error is the write's own result or lies behind its success (R2); the lookup of PutValue lies on the nil-error edge of the local store, whatever the error test looks like (R7).",
		NotDecided: "linearizability of interleavings as histories (R2/R3 give mutual exclusion of read-select-write per key stripe, for all schedules); clock arithmetic; the datastore's own atomicity.",
	})
}

func runC05(c *Ctx) {
	p := c.P
	// R1 single writer
	c.Rule("R1")
	{
		allowed := map[string]string{"Put": "(*" + vsT + ").Put", "Delete": "(*" + vsT + ").discardIfUnchanged"}
		readers := map[string]bool{"Get": true, "Has": true, "GetSize": true, "Query": true, "Sync": true, "Close": true}
		n := 0
		for _, f := range p.Funcs() {
			info := f.Info()
			f.Walk(func(x ast.Node) bool {
				call, ok := x.(*ast.CallExpr)
				if !ok {
					return true
				}
				sel, ok := eng.Unparen(call.Fun).(*ast.SelectorExpr)
				if !ok || !eng.IsField(info, sel.X, vsT+".ds") {
					return true
				}
				n++
				c.Funcs[f.Name] = true
				m := eng.NameOf(sel.Sel)
				if readers[m] {
					return true
				}
				want, isMut := allowed[m]
				c.Check(K(f.Name, "ds."+m), call.Pos(), isMut && f.Root().Name == want && f.Lit == nil,
					"the value datastore is mutated only by ValueStore.Put (Put) and discardIfUnchanged (Delete)", "mutator "+m+" called in "+f.Name)
				return true
			})
			// the handle must not escape: any other use of the field (passing it on, assigning it) is reported
			for _, acc := range f.FieldAccesses(vsT + ".ds") {
				par := p.Parent(acc.Sel)
				if s, ok := par.(*ast.SelectorExpr); ok && s.X == ast.Expr(acc.Sel) {
					continue // method call handled above
				}
				c.Check(K(f.Name, "ds escapes"), acc.Sel.Pos(), false, "the datastore handle is used only through method calls on the field", "handle used as a value")
			}
		}
		c.Check("ds calls", 0, n >= 3, "at least 3 datastore calls exist in ValueStore", "found "+itoa(n))
	}

	// R2 Put
	c.Rule("R2")
	{
		f := c.Fn("(*" + vsT + ").Put")
		info := f.Info()
		cf := f.CFG()
		key, rec := paramObj(f, "key"), paramObj(f, "rec")
		c.Anchor(key != nil && rec != nil, "Put: params key/rec not found")
		puts := dsCalls(f, "Put")
		c.Check(K(f.Name, "writes"), f.Pos(), len(puts) == 1, "ValueStore.Put writes the datastore in exactly one place", "found "+itoa(len(puts)))
		li := f.Locks()
		for _, put := range puts {
			// (a) validate
			okV, _ := cf.Guarded(cf.LocOf(put), func(ft eng.Fact) bool {
				call, isNilE, isErr := ft.ErrCall()
				return isErr && isNilE && eng.NameIn(eng.CalleeName(info, call), fnValidate) && len(call.Args) == 2 &&
					eng.IsObj(info, call.Args[0], key) && isGetterOf(info, call.Args[1], recGetVal, rec)
			})
			c.Check(K(f.Name, "write behind Validate"), put.Pos(), okV, "the write is dominated by a successful Validate(key, rec.GetValue())", "no such dominating test")
			// (b) striped lock of the key
			lockOK, lockVar := stripedLockHeld(f, li, put, key)
			c.Check(K(f.Name, "write under key lock"), put.Pos(), lockOK, "the write happens with putLocks[lockIndex(key)] held", "lock "+lockVar+" not held or not derived from key")
			// (c) select
			var existing eng.Object
			var existCall *ast.CallExpr
			for _, call := range f.Calls("(*" + vsT + ").existingForSelect") {
				existCall = call
				if as, ok := p.Parent(call).(*ast.AssignStmt); ok && len(as.Lhs) >= 1 {
					existing = eng.ObjOf(info, as.Lhs[0])
				}
			}
			if !c.Check(K(f.Name, "reads existing"), f.Pos(), existing != nil, "Put reads the stored record for comparison", "existingForSelect call not found") {
				continue
			}
			held := li.HeldBefore(existCall)
			_, isHeld := held[lockVarID(f, put, key)]
			c.Check(K(f.Name, "existing read under key lock"), existCall.Pos(), isHeld, "the existing record is read under the same striped lock", "locks held: "+held.String())
			// same datastore key for read and write, derived from key
			if len(existCall.Args) == 2 && len(put.Args) >= 2 {
				same := eng.SameExpr(info, existCall.Args[1], put.Args[1]) && derivedBy(f, put.Args[1], "dht/records.valueDsKey", key)
				c.Check(K(f.Name, "same datastore key"), put.Pos(), same, "read and write use valueDsKey(key)", "datastore keys differ or are not valueDsKey(key)")
			}
			okS := cf.GuardedBySet(cf.LocOf(put), func(ft eng.Fact) bool {
				if x, isNilF, ok := ft.NilFact(); ok && isNilF && eng.IsObj(info, x, existing) {
					return true
				}
				x, op, cst, ok := ft.IntCmp()
				if !ok || op != eng.EQL || cst != 0 {
					return false
				}
				def := f.LocalVarDef(eng.ObjOf(info, x))
				call, isSel := eng.IsCallTo(info, defOrNil(def), fnSelect)
				if !isSel || len(call.Args) != 2 || !eng.IsObj(info, call.Args[0], key) {
					return false
				}
				cl, isCL := eng.Unparen(call.Args[1]).(*ast.CompositeLit)
				return isCL && len(cl.Elts) == 2 && isGetterOf(info, cl.Elts[0], recGetVal, rec) && isGetterOf(info, cl.Elts[1], recGetVal, existing)
			})
			c.Check(K(f.Name, "write behind Select"), put.Pos(), okS, "the write happens only when nothing valid is stored or Select(key, {new, existing}) returned 0", "write reachable without that test")
		}
		// existingForSelect validates the stored record under its own key
		g := c.Fn("(*" + vsT + ").existingForSelect")
		ginfo := g.Info()
		gcf := g.CFG()
		nret := 0
		for _, ret := range gcf.Returns() {
			if len(ret.Results) != 2 || isNil(ginfo, ret.Results[0]) {
				continue
			}
			nret++
			robj := eng.ObjOf(ginfo, ret.Results[0])
			ok, _ := gcf.Guarded(gcf.LocOf(ret), func(ft eng.Fact) bool {
				call, isNilE, isErr := ft.ErrCall()
				if !isErr || !isNilE || !eng.NameIn(eng.CalleeName(ginfo, call), fnValidate) || len(call.Args) != 2 {
					return false
				}
				conv, isConv := eng.Unparen(call.Args[0]).(*ast.CallExpr)
				if !isConv || len(conv.Args) != 1 || eng.CalleeName(ginfo, conv) != "conv:string" {
					return false
				}
				return isGetterOf(ginfo, conv.Args[0], recGetKey, robj) && isGetterOf(ginfo, call.Args[1], recGetVal, robj)
			})
			c.Check(K(g.Name, "return "+short(ret.Results[0])), ret.Pos(), ok,
				"the stored record takes part in Select only if it validates under its own embedded key", "record returned without Validate(string(rec.GetKey()), rec.GetValue())")
		}
		c.Check(K(g.Name, "returns record"), g.Pos(), nret >= 1, "existingForSelect returns the stored record", "no non-nil return")
	}

	// R3 delete-if-unchanged
	// R2 (continued): an acknowledged Put has written
	{
		f := c.Fn("(*" + vsT + ").Put")
		info := f.Info()
		cf := f.CFG()
		puts := dsCalls(f, "Put")
		for i, ret := range cf.Returns() {
			if len(ret.Results) != 1 || len(puts) != 1 {
				continue
			}
			e := eng.Unparen(ret.Results[0])
			ok, why := false, "returns "+short(e)
			switch {
			case e == ast.Expr(puts[0]):
				ok = true // the write's own result
			case isNil(info, e):
				ok, _ = cf.Guarded(cf.LocOf(ret), func(ft eng.Fact) bool {
					call, isNilE, isErr := ft.ErrCall()
					return isErr && isNilE && call == puts[0]
				})
				why = "`return nil` is reachable without a successful datastore write"
			default:
				ok = knownNonNilError(cf, ret, e)
				why = "a return whose error may be nil is reachable without the datastore write: " + short(e)
			}
			c.Check(K(f.Name, "return#"+itoa(i)+" acknowledges only a write"), ret.Pos(), ok, "Put reports success only when the record was written (an acknowledged put is stored and stamped now)", why)
		}
	}

	c.Rule("R3")
	{
		f := c.Fn("(*" + vsT + ").discardIfUnchanged")
		info := f.Info()
		cf := f.CFG()
		key, dskey, seen := paramObj(f, "key"), paramObj(f, "dskey"), paramObj(f, "seen")
		c.Anchor(key != nil && dskey != nil && seen != nil, "discardIfUnchanged: params not found")
		dels := dsCalls(f, "Delete")
		c.Check(K(f.Name, "deletes"), f.Pos(), len(dels) == 1, "discardIfUnchanged deletes in exactly one place", "found "+itoa(len(dels)))
		li := f.Locks()
		for _, del := range dels {
			lockOK, lv := stripedLockHeld(f, li, del, key)
			c.Check(K(f.Name, "delete under key lock"), del.Pos(), lockOK, "the delete happens with putLocks[lockIndex(key)] held", "lock "+lv+" not held or not derived from key")
			okEq, _ := cf.Guarded(cf.LocOf(del), func(ft eng.Fact) bool {
				call, truth, ok := ft.CallFact("bytes.Equal")
				if !ok || !truth || len(call.Args) != 2 {
					return false
				}
				isCur := func(e ast.Expr) bool {
					o := eng.ObjOf(info, e)
					if o == nil {
						return false
					}
					def := f.LocalVarDef(o)
					get, isCall := eng.Unparen(defOrNil(def)).(*ast.CallExpr)
					if !isCall {
						return false
					}
					s, isSel := eng.Unparen(get.Fun).(*ast.SelectorExpr)
					if !isSel || eng.NameOf(s.Sel) != "Get" || !eng.IsField(info, s.X, vsT+".ds") || len(get.Args) != 2 || !eng.IsObj(info, get.Args[1], dskey) {
						return false
					}
					// re-read under the lock
					_, held := li.HeldBefore(get)[lockVarID(f, del, key)]
					return held
				}
				return (isCur(call.Args[0]) && eng.IsObj(info, call.Args[1], seen)) || (isCur(call.Args[1]) && eng.IsObj(info, call.Args[0], seen))
			})
			c.Check(K(f.Name, "delete behind bytes.Equal"), del.Pos(), okEq, "the delete happens only while the stored bytes (re-read under the lock) equal the bytes the reader saw", "no dominating bytes.Equal(current, seen)")
			c.Check(K(f.Name, "delete key"), del.Pos(), len(del.Args) == 2 && eng.IsObj(info, del.Args[1], dskey), "the delete targets the datastore key that was re-read", "different key")
		}
		// call sites: dskey argument is valueDsKey(key argument)
		sites := p.AllCalls("(*" + vsT + ").discardIfUnchanged")
		c.Check("discard call sites", 0, len(sites) >= 2, "discardIfUnchanged has at least 2 callers", "found "+itoa(len(sites)))
		for i, s := range sites {
			call := s.Call()
			sinfo := s.F.Info()
			ok := false
			if len(call.Args) == 4 {
				if ko := eng.ObjOf(sinfo, call.Args[1]); ko != nil {
					ok = derivedBy(s.F, call.Args[2], "dht/records.valueDsKey", ko)
				}
			}
			c.Check(K(s.F.Name, "discard#"+itoa(i)+" key/dskey agree"), call.Pos(), ok,
				"the record key passed (which selects the lock stripe) is the one the datastore key passed was derived from", "dskey argument is not valueDsKey(<key argument>)")
		}
	}

	// R4 read path
	c.Rule("R4")
	{
		f := c.Fn("(*" + vsT + ").Get")
		info := f.Info()
		cf := f.CFG()
		key := paramObj(f, "key")
		n := 0
		for _, ret := range cf.Returns() {
			if len(ret.Results) != 2 || isNil(info, ret.Results[0]) {
				continue
			}
			n++
			robj := eng.ObjOf(info, ret.Results[0])
			okKey, _ := cf.Guarded(cf.LocOf(ret), func(ft eng.Fact) bool {
				x, y, equal, isEq := ft.EqFact()
				if !isEq || !equal {
					return false
				}
				isRK := func(e ast.Expr) bool {
					conv, isConv := eng.Unparen(e).(*ast.CallExpr)
					return isConv && len(conv.Args) == 1 && eng.CalleeName(info, conv) == "conv:string" && isGetterOf(info, conv.Args[0], recGetKey, robj)
				}
				return (isRK(x) && eng.IsObj(info, y, key)) || (isRK(y) && eng.IsObj(info, x, key))
			})
			okAge, _ := cf.Guarded(cf.LocOf(ret), func(ft eng.Fact) bool {
				call, truth, ok := ft.CallFact("(*" + vsT + ").expired")
				return ok && !truth && len(call.Args) == 1 && eng.IsObj(info, call.Args[0], robj)
			})
			c.Check(K(f.Name, "return behind key check"), ret.Pos(), okKey, "a record is returned only when its embedded key equals the requested key", "no dominating string(rec.GetKey()) == key")
			c.Check(K(f.Name, "return behind age check"), ret.Pos(), okAge, "a record is returned only when it is not expired", "no dominating !v.expired(rec)")
			// the record returned is the one unmarshalled from what the datastore holds under valueDsKey(key)
			gets := dsCalls(f, "Get")
			okSrc := len(gets) == 1 && len(gets[0].Args) == 2 && derivedBy(f, gets[0].Args[1], "dht/records.valueDsKey", key)
			c.Check(K(f.Name, "reads valueDsKey(key)"), ret.Pos(), okSrc, "Get reads the datastore at valueDsKey(key)", "datastore key not derived from the key parameter")
		}
		c.Check(K(f.Name, "returns record"), f.Pos(), n == 1, "Get returns a stored record in one place", "found "+itoa(n))

		e := c.Fn("(*" + vsT + ").expired")
		einfo := e.Info()
		ecf := e.CFG()
		// parse error => true
		for _, ed := range errEdges(ecf, false, "dht/internal.ParseRFC3339") {
			allTrue := true
			cnt := 0
			for _, ret := range ecf.Returns() {
				if r, _ := ecf.Reach(ed.Start(), eng.LocSet(ecf.LocOf(ret)), eng.ReachOpt{}); r {
					// only returns dominated by the error edge
					if g, _ := ecf.Guarded(ecf.LocOf(ret), func(ft eng.Fact) bool { return ft.ErrOf(false, "dht/internal.ParseRFC3339") }); g {
						cnt++
						if len(ret.Results) != 1 || !isBoolConst(einfo, ret.Results[0], true) {
							allTrue = false
						}
					}
				}
			}
			c.Check(K(e.Name, "unparsable time"), ed.Fact.Pos(), allTrue && cnt >= 1, "a record without a parsable receive time counts as expired", "error edge does not return true")
		}
		// age comparison
		okCmp := false
		for _, ret := range ecf.Returns() {
			if len(ret.Results) != 1 {
				continue
			}
			b, isBin := eng.Unparen(ret.Results[0]).(*ast.BinaryExpr)
			if !isBin {
				continue
			}
			isAge := func(x ast.Expr) bool {
				call, ok := eng.Unparen(x).(*ast.CallExpr)
				if !ok {
					return false
				}
				n := eng.CalleeName(einfo, call)
				return n == "time.Since" || n == "(time.Time).Sub"
			}
			isMax := func(x ast.Expr) bool { return eng.IsField(einfo, x, vsT+".maxRecordAge") }
			if (isAge(b.X) && isMax(b.Y) && (b.Op == eng.GTR || b.Op == eng.GEQ)) || (isMax(b.X) && isAge(b.Y) && (b.Op == eng.LSS || b.Op == eng.LEQ)) {
				okCmp = true
			}
		}
		c.Check(K(e.Name, "age comparison"), e.Pos(), okCmp, "expired() is `age > maxRecordAge`", "no return of that form")
		// the only `return false` is behind maxRecordAge <= 0
		for _, ret := range ecf.Returns() {
			if len(ret.Results) == 1 && isBoolConst(einfo, ret.Results[0], false) {
				g, _ := ecf.Guarded(ecf.LocOf(ret), func(ft eng.Fact) bool {
					x, op, cst, ok := ft.IntCmp()
					return ok && eng.IsField(einfo, x, vsT+".maxRecordAge") && eng.ImpliesAtMost(op, cst, 0)
				})
				c.Check(K(e.Name, "return false"), ret.Pos(), g, "expired() is unconditionally false only when age expiry is disabled", "`return false` not behind maxRecordAge <= 0")
			}
		}
	}

	// R5 stored under own key, at every call site
	c.Rule("R5")
	{
		sites := p.AllCalls("(*"+vsT+").Put", "(*dht.IpfsDHT).putLocal", "(*dht/fullrt.FullRT).putLocal")
		c.Check("store call sites", 0, len(sites) >= 3, "at least 3 call sites of ValueStore.Put / putLocal exist", "found "+itoa(len(sites)))
		for i, s := range sites {
			call := s.Call()
			info := s.F.Info()
			if len(call.Args) != 3 {
				continue
			}
			kArg, rArg := call.Args[1], call.Args[2]
			ok := false
			why := "key argument is neither string(rec.GetKey()) of the record argument nor the key the record was made with"
			// forwarders: putLocal(ctx, key, rec) { return valueStore.Put(ctx, key, rec) } with its own params
			root := s.F.Root()
			if s.F.Lit == nil && (root.Name == "(*dht.IpfsDHT).putLocal" || root.Name == "(*dht/fullrt.FullRT).putLocal") {
				ok = eng.IsObj(info, kArg, paramObj(s.F, "key")) && eng.IsObj(info, rArg, paramObj(s.F, "rec"))
				why = "putLocal does not forward its own parameters"
			} else if conv, isConv := eng.Unparen(kArg).(*ast.CallExpr); isConv && len(conv.Args) == 1 && eng.CalleeName(info, conv) == "conv:string" {
				if ro := eng.ObjOf(info, rArg); ro != nil && isGetterOf(info, conv.Args[0], recGetKey, ro) {
					ok = true
				}
			} else if ro := eng.ObjOf(info, rArg); ro != nil {
				// record made by MakePutRecord(K, ...) with the same K, defined in this function or an enclosing one
				for g := s.F; g != nil && !ok; g = g.Parent {
					if def := g.LocalVarDef(ro); def != nil {
						if mk, isMk := eng.IsCallTo(g.Info(), def, "github.com/libp2p/go-libp2p-record.MakePutRecord"); isMk && len(mk.Args) == 2 && eng.SameExpr(info, mk.Args[0], kArg) {
							ok = true
						}
					}
				}
			}
			c.Check(K(s.F.Name, "store#"+itoa(i)+" "+short(call)), call.Pos(), ok, "a record is stored under its own embedded key", why)
		}
	}

	// R6 PUT_VALUE handler
	c.Rule("R6")
	{
		f := c.Fn("(*dht.IpfsDHT).handlePutValue")
		info := f.Info()
		cf := f.CFG()
		pmes := paramObj(f, "pmes")
		puts := f.Calls("(*" + vsT + ").Put")
		c.Check(K(f.Name, "stores"), f.Pos(), len(puts) == 1, "handlePutValue stores in one place", "found "+itoa(len(puts)))
		for _, put := range puts {
			loc := cf.LocOf(put)
			recObj := eng.ObjOf(info, put.Args[2])
			okKeyLen, _ := cf.Guarded(loc, func(ft eng.Fact) bool {
				x, op, cst, ok := ft.IntCmp()
				if !ok || !eng.ImpliesAtLeast(op, cst, 1) && !(op == eng.NEQ && cst == 0) {
					return false
				}
				la := eng.LenArg(info, x)
				return la != nil && isGetterOf(info, la, "(*dht/pb.Message).GetKey", pmes)
			})
			okRec, _ := cf.Guarded(loc, func(ft eng.Fact) bool {
				x, isNilF, ok := ft.NilFact()
				return ok && !isNilF && eng.IsObj(info, x, recObj)
			})
			okEq, _ := cf.Guarded(loc, func(ft eng.Fact) bool {
				call, truth, ok := ft.CallFact("bytes.Equal")
				if !ok || !truth || len(call.Args) != 2 {
					return false
				}
				a, b := call.Args[0], call.Args[1]
				return (isGetterOf(info, a, "(*dht/pb.Message).GetKey", pmes) && isGetterOf(info, b, recGetKey, recObj)) ||
					(isGetterOf(info, b, "(*dht/pb.Message).GetKey", pmes) && isGetterOf(info, a, recGetKey, recObj))
			})
			// the record stored is the request's record
			fromReq := false
			if def := f.LocalVarDef(recObj); def != nil {
				fromReq = isGetterOf(info, def, "(*dht/pb.Message).GetRecord", pmes)
			}
			c.Check(K(f.Name, "non-empty key"), put.Pos(), okKeyLen, "PUT_VALUE with an empty key is refused", "no dominating len(pmes.GetKey()) != 0")
			c.Check(K(f.Name, "record present"), put.Pos(), okRec, "PUT_VALUE without a record is refused", "no dominating rec != nil")
			c.Check(K(f.Name, "message key equals record key"), put.Pos(), okEq, "PUT_VALUE whose message key differs from the record key is refused", "no dominating bytes.Equal(pmes.GetKey(), rec.GetKey())")
			c.Check(K(f.Name, "stores the request's record"), put.Pos(), fromReq, "the stored record is the one in the request", "record argument is not pmes.GetRecord()")
		}
		// a failed store is reported to the requester (not acknowledged)
		for _, ed := range errEdges(cf, false, "(*"+vsT+").Put") {
			bad := false
			for _, ret := range cf.Returns() {
				if r, _ := cf.Reach(ed.Start(), eng.LocSet(cf.LocOf(ret)), eng.ReachOpt{}); !r {
					continue
				}
				if g, _ := cf.Guarded(cf.LocOf(ret), func(ft eng.Fact) bool { return ft.ErrOf(false, "(*"+vsT+").Put") }); !g {
					continue
				}
				if len(ret.Results) == 2 && isNil(info, ret.Results[1]) {
					bad = true
				}
			}
			c.Check(K(f.Name, "store failure not acknowledged"), ed.Fact.Pos(), !bad, "a refused or failed store is answered with an error, never with the success echo", "a return on the store's error edge carries a nil error")
		}
	}

	// R7 local PutValue
	c.Rule("R7")
	for _, fn := range []string{"(*dht.IpfsDHT).PutValue", "(*dht/fullrt.FullRT).PutValue"} {
		f := c.Fn(fn)
		info := f.Info()
		cf := f.CFG()
		key, value := paramObj(f, "key"), paramObj(f, "value")
		recv := eng.TypeName(info.Defs[f.Decl.Recv.List[0].Names[0]].Type())
		// the local store: putLocal, or the value store's Put itself where putLocal was inlined
		storePats := []string{"(*" + recv + ").putLocal", "(*" + vsT + ").Put"}
		pl := f.Calls(storePats...)
		c.Check(K(f.Name, "stores locally"), f.Pos(), len(pl) == 1, "PutValue stores locally in one place", "found "+itoa(len(pl)))
		for _, call := range pl {
			loc := cf.LocOf(call)
			okV, _ := cf.Guarded(loc, func(ft eng.Fact) bool {
				vc, isNilE, isErr := ft.ErrCall()
				return isErr && isNilE && eng.NameIn(eng.CalleeName(info, vc), fnValidate) && len(vc.Args) == 2 && eng.IsObj(info, vc.Args[0], key) && eng.IsObj(info, vc.Args[1], value)
			})
			c.Check(K(f.Name, "local store behind Validate"), call.Pos(), okV, "PutValue validates the value for the key before storing", "no dominating successful Validate(key, value)")
			var old eng.Object
			for _, gl := range f.Calls("(*" + recv + ").getLocal") {
				if as, ok := c.P.Parent(gl).(*ast.AssignStmt); ok && len(as.Lhs) >= 1 {
					old = eng.ObjOf(info, as.Lhs[0])
				}
			}
			okS := old != nil && cf.GuardedBySet(loc, func(ft eng.Fact) bool {
				if x, isNilF, ok := ft.NilFact(); ok && isNilF && eng.IsObj(info, x, old) {
					return true
				}
				if eq, truth, ok := ft.CallFact("bytes.Equal"); ok && truth && len(eq.Args) == 2 {
					return (isGetterOf(info, eq.Args[0], recGetVal, old) && eng.IsObj(info, eq.Args[1], value)) || (isGetterOf(info, eq.Args[1], recGetVal, old) && eng.IsObj(info, eq.Args[0], value))
				}
				x, op, cst, ok := ft.IntCmp()
				if !ok || op != eng.EQL || cst != 0 {
					return false
				}
				def := f.LocalVarDef(eng.ObjOf(info, x))
				sc, isSel := eng.IsCallTo(info, defOrNil(def), fnSelect)
				if !isSel || len(sc.Args) != 2 || !eng.IsObj(info, sc.Args[0], key) {
					return false
				}
				cl, isCL := eng.Unparen(sc.Args[1]).(*ast.CompositeLit)
				return isCL && len(cl.Elts) == 2 && eng.IsObj(info, cl.Elts[0], value) && isGetterOf(info, cl.Elts[1], recGetVal, old)
			})
			c.Check(K(f.Name, "local store behind Select"), call.Pos(), okS, "PutValue is refused when a different, better value is stored", "store reachable without `old == nil || equal || Select(key,{value, old}) == 0`")
			// the network phase lies behind the success of the local store (whatever the error test looks like)
			for _, gcp := range f.Calls("(*" + recv + ").GetClosestPeers") {
				gN, _ := cf.Guarded(cf.LocOf(gcp), func(ft eng.Fact) bool { return ft.ErrOf(true, storePats...) })
				c.Check(K(f.Name, "network only after the store accepted"), gcp.Pos(), gN, "every refusal of the local store (ErrOldRecord included) ends PutValue before anything is sent", "the lookup is not on the nil-error edge of putLocal")
			}
			// failure of the local store ends the operation with that error
			for _, ed := range errEdges(cf, false, storePats...) {
				ok, w := cf.MustPass(ed.Start(), eng.LocSet(locsOf(cf, f.Calls("(*"+recv+").GetClosestPeers"))...), func(eng.Loc) bool { return false })
				c.CheckW(K(f.Name, "local store failure ends PutValue"), ed.Fact.Pos(), ok, "when the local store refuses the record nothing is sent to the network", "the network phase is reachable from the error edge", cf.DescribePath(w))
			}
		}
	}
	for _, fn := range []string{"(*dht.IpfsDHT).putLocal", "(*dht/fullrt.FullRT).putLocal"} {
		if c.P.Func(fn) == nil {
			// inlined into its callers: they call ValueStore.Put directly and see its error themselves
			c.Notes = append(c.Notes, fn+" does not exist in this tree (its callers are checked against ValueStore.Put directly)")
			continue
		}
		f := c.Fn(fn)
		info := f.Info()
		cf := f.CFG()
		calls := f.Calls("(*" + vsT + ").Put")
		ok := len(calls) == 1
		if ok {
			// either `return store.Put(...)`, or every return on the error edge returns that error
			if ret, isRet := c.P.Parent(calls[0]).(*ast.ReturnStmt); isRet && len(ret.Results) == 1 {
				ok = true
			} else {
				ok = false
				for _, ed := range errEdges(cf, false, "(*"+vsT+").Put") {
					ok = true
					for _, ret := range cf.Returns() {
						if r, _ := cf.Reach(ed.Start(), eng.LocSet(cf.LocOf(ret)), eng.ReachOpt{}); r {
							if g, _ := cf.Guarded(cf.LocOf(ret), func(ft eng.Fact) bool { return ft.ErrOf(false, "(*"+vsT+").Put") }); g {
								if len(ret.Results) != 1 || isNil(info, ret.Results[0]) {
									ok = false
								}
							}
						}
					}
				}
			}
		}
		c.Check(K(f.Name, "forwards store error"), f.Pos(), ok, "putLocal reports the value store's refusal (ErrOldRecord) to its caller", "the store's error can be swallowed")
	}

	// R8 sweep
	c.Rule("R8")
	{
		f := c.Fn("(*" + vsT + ").sweep")
		info := f.Info()
		cf := f.CFG()
		c.Check(K(f.Name, "no direct delete"), f.Pos(), len(dsCalls(f, "Delete")) == 0, "the sweep deletes only through discardIfUnchanged", "direct ds.Delete in sweep")
		dis := f.Calls("(*" + vsT + ").discardIfUnchanged")
		c.Check(K(f.Name, "discards"), f.Pos(), len(dis) == 1, "the sweep discards expired records in one place", "found "+itoa(len(dis)))
		for _, d := range dis {
			loc := cf.LocOf(d)
			okExp, _ := cf.Guarded(loc, func(ft eng.Fact) bool {
				_, truth, ok := ft.CallFact("(*" + vsT + ").expired")
				return ok && truth
			})
			okOwn, _ := cf.Guarded(loc, func(ft eng.Fact) bool {
				x, y, equal, isEq := ft.EqFact()
				if !isEq || !equal {
					return false
				}
				isEK := func(e ast.Expr) bool {
					s, ok := eng.Unparen(e).(*ast.SelectorExpr)
					return ok && eng.NameOf(s.Sel) == "Key"
				}
				isDK := func(e ast.Expr) bool {
					call, ok := eng.Unparen(e).(*ast.CallExpr)
					if !ok {
						return false
					}
					s, ok := eng.Unparen(call.Fun).(*ast.SelectorExpr)
					return ok && eng.NameOf(s.Sel) == "String" && len(d.Args) == 4 && eng.SameExpr(info, s.X, d.Args[2])
				}
				return (isEK(x) && isDK(y)) || (isEK(y) && isDK(x))
			})
			okProv, _ := cf.Guarded(loc, func(ft eng.Fact) bool {
				call, truth, ok := ft.CallFact("strings.HasPrefix")
				return ok && !truth && len(call.Args) == 2 && eng.IsObj(info, call.Args[1], c.P.LookupObj("dht/records.ProvidersKeyPrefix"))
			})
			c.Check(K(f.Name, "only expired"), d.Pos(), okExp, "the sweep discards only expired records", "no dominating v.expired(rec)")
			c.Check(K(f.Name, "only own entries"), d.Pos(), okOwn, "the sweep touches only entries filed under the datastore key of their own record key", "no dominating dskey.String() == e.Key")
			c.Check(K(f.Name, "skips providers"), d.Pos(), okProv, "the sweep never touches the provider subtree", "no dominating !HasPrefix(e.Key, ProvidersKeyPrefix)")
		}
	}
}

// dsCalls returns the calls v.ds.<method>(...) in f.
func dsCalls(f *eng.Func, method string) []*ast.CallExpr {
	var out []*ast.CallExpr
	info := f.Info()
	f.Walk(func(n ast.Node) bool {
		call, ok := n.(*ast.CallExpr)
		if !ok {
			return true
		}
		s, ok := eng.Unparen(call.Fun).(*ast.SelectorExpr)
		if ok && eng.NameOf(s.Sel) == method && eng.IsField(info, s.X, vsT+".ds") {
			out = append(out, call)
		}
		return true
	})
	return out
}

// isGetterOf: e is the call recvObj.<getter>().
func isGetterOf(info *eng.Info, e ast.Expr, getter string, recvObj eng.Object) bool {
	call, ok := eng.IsCallTo(info, e, getter)
	if !ok || recvObj == nil {
		return false
	}
	s, ok := eng.Unparen(call.Fun).(*ast.SelectorExpr)
	return ok && eng.IsObj(info, s.X, recvObj)
}

// derivedBy: e is (a variable defined once as) fn(arg) with arg resolving to obj.
func derivedBy(f *eng.Func, e ast.Expr, fn string, obj eng.Object) bool {
	info := f.Info()
	e = eng.Unparen(e)
	if id, ok := e.(*ast.Ident); ok {
		def := f.LocalVarDef(eng.ObjOf(info, id))
		if def == nil {
			return false
		}
		e = def
	}
	call, ok := eng.IsCallTo(info, e, fn)
	return ok && len(call.Args) == 1 && eng.IsObj(info, call.Args[0], obj)
}

// stripedLockHeld: at node n a lock variable defined as &v.putLocks[lockIndex(key)] is held.
func stripedLockHeld(f *eng.Func, li *eng.LockInfo, n ast.Node, key eng.Object) (bool, string) {
	id := lockVarID(f, n, key)
	if id == "" {
		return false, "<none derived from key>"
	}
	_, held := li.HeldBefore(n)[id]
	return held, id
}

// lockVarID finds the local lock variable defined as &v.putLocks[lockIndex(key)].
func lockVarID(f *eng.Func, n ast.Node, key eng.Object) string {
	info := f.Info()
	id := ""
	f.Walk(func(x ast.Node) bool {
		as, ok := x.(*ast.AssignStmt)
		if !ok || len(as.Lhs) != 1 || len(as.Rhs) != 1 {
			return true
		}
		u, ok := eng.Unparen(as.Rhs[0]).(*ast.UnaryExpr)
		if !ok {
			return true
		}
		ix, ok := eng.Unparen(u.X).(*ast.IndexExpr)
		if !ok || !eng.IsField(info, ix.X, vsT+".putLocks") {
			return true
		}
		call, ok := eng.IsCallTo(info, ix.Index, "dht/records.lockIndex")
		if !ok || len(call.Args) != 1 || !eng.IsObj(info, call.Args[0], key) {
			return true
		}
		if lid, isID := as.Lhs[0].(*ast.Ident); isID {
			id = "var:" + lid.Name
		}
		return true
	})
	return id
}

// knownNonNilError: the returned expression is certainly a non-nil error: a fresh error
// (fmt.Errorf / errors.New), a package-level sentinel, or a variable tested non-nil on every
// path to the return.
func knownNonNilError(cf *eng.CFG, ret *ast.ReturnStmt, e ast.Expr) bool {
	info := cf.F.Info()
	e = eng.Unparen(e)
	if call, ok := e.(*ast.CallExpr); ok {
		return eng.NameIn(eng.CalleeName(info, call), "fmt.Errorf", "errors.New")
	}
	o := eng.ObjOf(info, e)
	v, isVar := o.(*eng.Var)
	if !isVar {
		return false
	}
	if v.Pkg() != nil && v.Parent() == v.Pkg().Scope() && v.Type().String() == "error" {
		return true // sentinel such as ErrOldRecord
	}
	g, _ := cf.Guarded(cf.LocOf(ret), func(ft eng.Fact) bool {
		x, isNilF, ok := ft.NilFact()
		return ok && !isNilF && eng.IsObj(info, x, o)
	})
	return g
}
