package rules

import (
	"go/ast"
	"go/token"
	"go/types"
	"strings"

	"kadcheck/internal/eng"
)

const frT = "dht/fullrt.FullRT"

func init() {
	register(&Property{
		ID:  "C16",
		Run: runC16,
		Decided: "the crawl snapshot (trie, key map, address map, crawl time) is accessed only under its locks, replaced only with all three write locks held together and taken in the readers' order, GetClosestPeers holds all three read locks for its whole body, and each crawl starts from an emptied result map (R1); no integer division, modulo or loop stride in fullrt/crawler has an unguarded non-constant divisor/stride (R2); function-typed fields of the hand-built DHT config are called only behind a nil test or when set in the literal (R3); " +
			"the crawl work list: every append is paired, in both orders, with the insertion into the seen set behind a not-seen test; every job yields one result and every result one outcome and one decrement (R4); diversity filter: counts live across result pages, a peer is appended after its address loop, is not counted against itself, results are returned in ClosestN order at bucketSize (R5); empty inputs return early, the crawler's prefix loop stays within kbucket's bound (R6); every field of the fullrt option struct is read by the constructor (R7). Added after the seeded rounds: batches of GetClosestPeers do not overlap, and config.ipDiversityFilterLimit is assigned only by its option (R5). Round 4: every installed view is an object allocated after the crawl it describes (R1).",
		NotDecided: "that go-libp2p-xor ClosestN returns nearest-first; equality with a brute-force nearest computation; what a crawl finds.",
	})
}

func isIntType(t types.Type) bool {
	b, ok := t.Underlying().(*types.Basic)
	return ok && b.Info()&types.IsInteger != 0
}

// nonZeroGuard: a dominating fact establishes e != 0 / e >= 1 (for len(x): x non-empty).
func nonZeroGuard(f *eng.Func, loc eng.Loc, e ast.Expr, positive bool) bool {
	info := f.Info()
	cf := f.CFG()
	e = eng.Unparen(e)
	// conversion int(x)
	if call, ok := e.(*ast.CallExpr); ok && len(call.Args) == 1 && hasPrefix(eng.CalleeName(info, call), "conv:") {
		return nonZeroGuard(f, loc, call.Args[0], positive)
	}
	g, _ := cf.Guarded(loc, func(ft eng.Fact) bool {
		x, op, cst, ok := ft.IntCmp()
		if ok && eng.SameExpr(info, x, e) {
			if eng.ImpliesAtLeast(op, cst, 1) {
				return true
			}
			if !positive && op == token.NEQ && cst == 0 {
				return true
			}
		}
		if la := eng.LenArg(info, e); la != nil {
			if y, nonEmpty, ok2 := emptinessFact(ft); ok2 && nonEmpty && eng.SameExpr(info, y, la) {
				return true
			}
		}
		return false
	})
	if g {
		return true
	}
	// a local defined once from an expression that is itself guarded at this point (n := len(m))
	if o := eng.ObjOf(info, e); o != nil {
		if d := f.LocalVarDef(o); d != nil {
			if v, isC := eng.ConstInt(info, d); isC {
				return v != 0 && (!positive || v > 0)
			}
		}
	}
	return false
}

func runC16(c *Ctx) {
	p := c.P
	// R1 consistent snapshot
	c.Rule("R1")
	{
		groups := []struct{ lock, field string }{
			{frT + ".rtLk", frT + ".rt"}, {frT + ".kMapLk", frT + ".keyToPeerMap"}, {frT + ".peerAddrsLk", frT + ".peerAddrs"}, {frT + ".rtLk", frT + ".lastCrawlTime"},
		}
		total := 0
		for _, g := range groups {
			total += checkLockSpec(c, &lockSpec{Lock: g.lock, Fields: []string{g.field}, Exempt: map[string]string{"dht/fullrt.NewFullRT": "constructor"}}, "dht/fullrt")
		}
		c.Check("snapshot accesses", 0, total >= 6, "the snapshot fields are accessed in at least 6 guarded places", "found "+itoa(total))
		// swap: every store to a snapshot field happens with ALL THREE write locks held
		rc := c.Fn("(*" + frT + ").runCrawler")
		li := rc.Locks()
		rinfo := rc.Info()
		nst := 0
		for _, g := range groups[:3] {
			for _, acc := range rc.FieldAccesses(g.field) {
				if !acc.Write {
					continue
				}
				nst++
				held := li.HeldBefore(acc.Sel)
				all := held[frT+".rtLk"] == eng.LockW && held[frT+".kMapLk"] == eng.LockW && held[frT+".peerAddrsLk"] == eng.LockW
				c.Check(K(rc.Name, "swap "+g.field), acc.Sel.Pos(), all, "the three views of a crawl are replaced in one critical section over all three locks (a reader holding all read locks never sees two crawls mixed)", "locks held here: "+held.String())
				// what is installed is an object made for this crawl: readers keep using it under
				// read locks while the next crawl refills (and first empties) the crawler's own
				// working map, so a view that aliases a longer-lived object changes under them
				fresh := false
				if as, isAs := p.Parent(acc.Sel).(*ast.AssignStmt); isAs && len(as.Lhs) == 1 && len(as.Rhs) == 1 {
					if o := eng.ObjOf(rinfo, as.Rhs[0]); o != nil {
						defs := rc.AssignedFrom(o)
						fresh = len(defs) >= 1
						runsC := rc.Calls("(dht/crawler.Crawler).Run")
						for _, d := range defs {
							call, isCall := eng.Unparen(defOrNil(d)).(*ast.CallExpr)
							if !isCall || !eng.NameIn(eng.CalleeName(rinfo, call), "builtin.make", "github.com/libp2p/go-libp2p-xor/trie.New") {
								fresh = false
								continue
							}
							// made after this crawl ran
							if len(runsC) != 1 || !rc.CFG().Dominates(rc.CFG().LocOf(runsC[0]), rc.CFG().LocOf(call)) {
								fresh = false
							}
						}
					}
				}
				c.Check(K(rc.Name, "swap installs a fresh "+g.field), acc.Sel.Pos(), fresh, "each installed view is an object created after the crawl it describes (make / trie.New), never an alias of the crawler's reusable working map", "the installed value is not a fresh allocation of this crawl")
			}
		}
		c.Check(K(rc.Name, "swaps"), rc.Pos(), nst == 3, "runCrawler replaces trie, key map and address map", "found "+itoa(nst)+" stores")
		// acquisition order = readers' order
		order := []string{frT + ".rtLk", frT + ".kMapLk", frT + ".peerAddrsLk"}
		for _, fn := range []struct {
			f      *eng.Func
			callee string
		}{{rc, "(*sync.RWMutex).Lock"}, {c.Fn("(*" + frT + ").GetClosestPeers"), "(*sync.RWMutex).RLock"}} {
			cf := fn.f.CFG()
			var locs []eng.Loc
			okAll := true
			for _, lk := range order {
				var l eng.Loc
				for _, call := range fn.f.Calls(fn.callee) {
					if s, ok := eng.Unparen(call.Fun).(*ast.SelectorExpr); ok && eng.IsField(fn.f.Info(), s.X, lk) {
						l = cf.LocOf(call)
					}
				}
				if !l.Valid() {
					okAll = false
				}
				locs = append(locs, l)
			}
			if okAll {
				okAll = cf.Dominates(locs[0], locs[1]) && cf.Dominates(locs[1], locs[2])
			}
			c.Check(K(fn.f.Name, "lock order"), fn.f.Pos(), okAll, "the three snapshot locks are always taken in the order rtLk, kMapLk, peerAddrsLk (writer and readers agree, so they cannot deadlock)", "order differs or a lock is missing")
		}
		// GetClosestPeers: read locks held to the end (deferred unlocks)
		gcp := c.Fn("(*" + frT + ").GetClosestPeers")
		nDef := 0
		gcp.Walk(func(n ast.Node) bool {
			if d, ok := n.(*ast.DeferStmt); ok && eng.CalleeName(gcp.Info(), d.Call) == "(*sync.RWMutex).RUnlock" {
				nDef++
			}
			return true
		})
		c.Check(K(gcp.Name, "holds to the end"), gcp.Pos(), nDef == 3, "GetClosestPeers keeps all three read locks until it returns", "found "+itoa(nDef)+" deferred RUnlocks")
		// each crawl starts from an emptied result map
		var found eng.Object
		runs := rc.Calls("(dht/crawler.Crawler).Run")
		rc.Walk(func(n ast.Node) bool {
			if as, ok := n.(*ast.AssignStmt); ok && len(as.Lhs) == 1 && len(as.Rhs) == 1 {
				if id, isID := as.Lhs[0].(*ast.Ident); isID && eng.NameOf(id) == "foundPeers" {
					found = eng.ObjOf(rinfo, id)
				}
			}
			return true
		})
		if c.Check(K(rc.Name, "crawl call"), rc.Pos(), len(runs) == 1 && found != nil, "runCrawler runs the crawler and collects into a result map", "not found") {
			cf := rc.CFG()
			var clears []eng.Loc
			for _, call := range rc.Calls("builtin.clear") {
				if eng.IsObj(rinfo, call.Args[0], found) {
					clears = append(clears, cf.LocOf(call))
				}
			}
			for _, as := range assignsTo(rc, func(l ast.Expr) bool { return eng.IsObj(rinfo, l, found) }) {
				if _, isMk := eng.IsCallTo(rinfo, as.Rhs[0], "builtin.make"); isMk {
					// the initial make is before the loop; a make inside the loop would also reset
					if r, _ := cf.Reach(cf.LocOf(runs[0]), eng.LocSet(cf.LocOf(as)), eng.ReachOpt{}); r {
						clears = append(clears, cf.LocOf(as))
					}
				}
			}
			r, w := cf.Reach(cf.LocOf(runs[0]), eng.LocSet(cf.LocOf(runs[0])), eng.ReachOpt{CutLoc: eng.LocSet(clears...)})
			c.CheckW(K(rc.Name, "fresh result map per crawl"), runs[0].Pos(), !r, "every crawl starts from an emptied result map, so the installed table lists the peers of one single crawl", "a second crawl is reachable without emptying the map", cf.DescribePath(w))
			// the installed views are built from that map only
			okSrc := false
			rc.Walk(func(n ast.Node) bool {
				if rg, ok := n.(*ast.RangeStmt); ok && eng.IsObj(rinfo, rg.X, found) && cf.Dominates(cf.LocOf(runs[0]), cf.LocOf(rg.X)) {
					okSrc = true
				}
				return true
			})
			c.Check(K(rc.Name, "views built from the crawl"), rc.Pos(), okSrc, "trie and maps are rebuilt from the crawl's result map after the crawl", "no loop over the result map after Run")
		}
	}

	// R2 no unguarded divisor / stride
	c.Rule("R2")
	{
		n := 0
		for _, f := range p.Funcs() {
			pk := eng.Short(f.Pkg.PkgPath)
			if pk != "dht/fullrt" && pk != "dht/crawler" {
				continue
			}
			info := f.Info()
			cf := f.CFG()
			f.Walk(func(x ast.Node) bool {
				switch e := x.(type) {
				case *ast.BinaryExpr:
					if e.Op != token.QUO && e.Op != token.REM {
						return true
					}
					tv, ok := info.Types[e.Y]
					if !ok || tv.Value != nil || !isIntType(tv.Type) {
						return true
					}
					if tx, ok := info.Types[e.X]; !ok || !isIntType(tx.Type) {
						return true
					}
					n++
					c.Funcs[f.Name] = true
					c.Check(K(f.Name, "divisor "+short(e.Y)), e.Pos(), nonZeroGuard(f, cf.LocOf(e), e.Y, false), "an integer division has a divisor proven non-zero by a dominating guard", "divisor "+short(e.Y)+" may be zero")
				case *ast.ForStmt:
					as, ok := e.Post.(*ast.AssignStmt)
					if !ok || as.Tok != token.ADD_ASSIGN || len(as.Rhs) != 1 {
						return true
					}
					if tv, ok := info.Types[as.Rhs[0]]; !ok || tv.Value != nil {
						return true
					}
					n++
					c.Funcs[f.Name] = true
					c.Check(K(f.Name, "stride "+short(as.Rhs[0])), e.Pos(), nonZeroGuard(f, cf.LocOf(e.Cond), as.Rhs[0], true), "a loop stride held in a variable is proven positive before the loop (a zero stride never advances)", "stride "+short(as.Rhs[0])+" may be zero")
				}
				return true
			})
		}
		c.Check("divisions and strides", 0, n >= 2, "fullrt has at least one variable divisor and one variable stride", "found "+itoa(n))
	}

	// R3 config function fields
	c.Rule("R3")
	{
		n := 0
		for _, f := range p.Funcs() {
			if eng.Short(f.Pkg.PkgPath) != "dht/fullrt" {
				continue
			}
			info := f.Info()
			cf := f.CFG()
			f.Walk(func(x ast.Node) bool {
				call, ok := x.(*ast.CallExpr)
				if !ok {
					return true
				}
				name := eng.CalleeName(info, call)
				if !hasPrefix(name, "field:dht/internal/config.Config.") {
					return true
				}
				n++
				fld := strings.TrimPrefix(name, "field:")
				g, _ := cf.Guarded(cf.LocOf(call), func(ft eng.Fact) bool {
					e, isNilF, ok := ft.NilFact()
					return ok && !isNilF && eng.IsField(info, e, fld)
				})
				// or set in the Config literal this function builds
				inLit := false
				f.Walk(func(y ast.Node) bool {
					if cl, isCL := y.(*ast.CompositeLit); isCL {
						if tv, ok := info.Types[cl]; ok && eng.TypeName(tv.Type) == "dht/internal/config.Config" {
							for _, el := range cl.Elts {
								if kv, isKV := el.(*ast.KeyValueExpr); isKV && "dht/internal/config.Config."+eng.NameOf(kv.Key.(*ast.Ident)) == fld && !isNil(info, kv.Value) {
									inLit = true
								}
							}
						}
					}
					return true
				})
				c.Check(K(f.Name, "call "+fld), call.Pos(), g || inLit, "a function-typed field of the hand-built config is called only when known to be set", "field may be nil: not set in the literal and not nil-tested")
				return true
			})
		}
		c.Check("config function calls", 0, n >= 2, "NewFullRT calls at least two function-typed config fields", "found "+itoa(n))
	}

	// R4 crawl work list
	c.Rule("R4")
	{
		f := c.Fn("(*dht/crawler.DefaultCrawler).Run")
		cf := f.CFG()
		info := f.Info()
		var toDial, seen eng.Object
		f.Walk(func(n ast.Node) bool {
			switch x := n.(type) {
			case *ast.ValueSpec:
				for _, id := range x.Names {
					if eng.NameOf(id) == "toDial" {
						toDial = info.Defs[id]
					}
				}
			case *ast.AssignStmt:
				if id, ok := x.Lhs[0].(*ast.Ident); ok && eng.NameOf(id) == "peersSeen" && x.Tok == token.DEFINE {
					seen = info.Defs[id]
				}
			}
			return true
		})
		c.Anchor(toDial != nil && seen != nil, "crawler.Run: toDial/peersSeen not found")
		var appends, inserts []*ast.AssignStmt
		for _, as := range assignsTo(f, func(l ast.Expr) bool { return eng.IsObj(info, l, toDial) }) {
			if _, isApp := eng.IsCallTo(info, as.Rhs[0], "builtin.append"); isApp {
				appends = append(appends, as)
			}
		}
		for _, as := range assignsTo(f, func(l ast.Expr) bool {
			ix, ok := eng.Unparen(l).(*ast.IndexExpr)
			return ok && eng.IsObj(info, ix.X, seen)
		}) {
			inserts = append(inserts, as)
		}
		c.Check(K(f.Name, "two enqueue sites"), f.Pos(), len(appends) == 2 && len(inserts) == 2, "seeds and discovered peers are enqueued in two places, each with its seen-set insertion", "found "+itoa(len(appends))+" appends, "+itoa(len(inserts))+" insertions")
		notSeen := func(target eng.Loc, id ast.Expr) bool {
			g, _ := cf.Guarded(target, func(ft eng.Fact) bool {
				o, truth, isB := ft.BoolVar()
				if !isB || truth {
					return false
				}
				rhs, idx := cf.LastAssign(ft.B, o)
				ix, isIx := eng.Unparen(defOrNil(rhs)).(*ast.IndexExpr)
				return isIx && idx == 1 && eng.IsObj(info, ix.X, seen) && eng.SameExpr(info, ix.Index, id)
			})
			return g
		}
		for i, app := range appends {
			call := app.Rhs[0].(*ast.CallExpr)
			_ = call
			// the paired insertion: same iteration, key = elem.ID or the map key of elem
			var pair *ast.AssignStmt
			for _, ins := range inserts {
				r1, _ := cf.Reach(cf.LocOf(app), eng.LocSet(cf.LocOf(ins)), eng.ReachOpt{CutLoc: eng.LocSet(cf.LocOf(app))})
				r2, _ := cf.Reach(cf.LocOf(ins), eng.LocSet(cf.LocOf(app)), eng.ReachOpt{CutLoc: eng.LocSet(cf.LocOf(ins))})
				if (r1 || r2) && sameEnclosingLoop(p, app, ins) {
					pair = ins
				}
			}
			if !c.Check(K(f.Name, "enqueue#"+itoa(i)+" paired"), app.Pos(), pair != nil, "an enqueued peer is recorded as seen", "no insertion into peersSeen next to the append") {
				continue
			}
			key := eng.Unparen(pair.Lhs[0]).(*ast.IndexExpr).Index
			c.Check(K(f.Name, "enqueue#"+itoa(i)+" behind not-seen"), app.Pos(), notSeen(cf.LocOf(app), key), "a peer is enqueued only if it was not seen before (no peer is crawled twice)", "append not guarded by absence from peersSeen")
			c.Check(K(f.Name, "enqueue#"+itoa(i)+" insertion behind not-seen"), pair.Pos(), notSeen(cf.LocOf(pair), key), "a peer is marked seen only when it is enqueued", "insertion not guarded by absence from peersSeen")
			// both happen or neither: from either one, the other is passed before the iteration ends
			iterEnd := loopHeads(cf, p, app)
			first, second := cf.LocOf(app), cf.LocOf(pair)
			if r, _ := cf.Reach(second, eng.LocSet(first), eng.ReachOpt{CutLoc: eng.LocSet(second)}); r {
				if r2, _ := cf.Reach(first, eng.LocSet(second), eng.ReachOpt{CutLoc: eng.LocSet(iterEnd...)}); !r2 {
					first, second = second, first
				}
			}
			ok1, w := cf.MustPass(first, eng.LocSet(append(iterEnd, cf.Exits(false)...)...), eng.LocSet(second))
			c.CheckW(K(f.Name, "enqueue#"+itoa(i)+" atomic pair"), app.Pos(), ok1, "marking seen and enqueuing always happen together (a peer marked seen but never enqueued would never be crawled)", "one of the two can happen without the other", cf.DescribePath(w))
			// and nothing marks seen on a path that skips the enqueue: the insertion is dominated by everything the append is
			dApp, dIns := len(cf.DominatingConds(cf.LocOf(app))), len(cf.DominatingConds(cf.LocOf(pair)))
			c.Check(K(f.Name, "enqueue#"+itoa(i)+" same conditions"), app.Pos(), dApp == dIns, "insertion and append are controlled by the same conditions", itoa(dIns)+" vs "+itoa(dApp)+" dominating conditions")
		}
		// worker: one result per job
		for _, l := range f.Lits {
			if isGo := l.IsSpawned(); !isGo {
				continue
			}
			var rng *ast.RangeStmt
			l.Walk(func(n ast.Node) bool {
				if r, ok := n.(*ast.RangeStmt); ok {
					rng = r
				}
				return true
			})
			ok := false
			if rng != nil {
				sends, early := 0, false
				for _, st := range rng.Body.List {
					if _, isSend := st.(*ast.SendStmt); isSend {
						sends++
					}
				}
				ast.Inspect(rng.Body, func(n ast.Node) bool {
					switch x := n.(type) {
					case *ast.BranchStmt, *ast.ReturnStmt:
						early = true
						_ = x
					}
					return true
				})
				ok = sends == 1 && !early
			}
			c.Check(K(l.Name, "one result per job"), l.Pos(), ok, "a crawl worker sends exactly one result for every job it receives", "send missing, repeated or skippable")
		}
		// result arm: one outcome and one decrement
		for _, sel := range f.Selects() {
			for _, sc := range eng.SelectCases(info, sel) {
				if sc.Kind != "recv" {
					continue
				}
				var dec, inc eng.Loc
				_ = inc
				body := sc.Clause
				var decs []eng.Loc
				ast.Inspect(body, func(n ast.Node) bool {
					if x, ok := n.(*ast.IncDecStmt); ok && x.Tok == token.DEC {
						decs = append(decs, cf.LocOf(x))
					}
					return true
				})
				okDec := len(decs) == 1
				if okDec {
					dec = decs[0]
					// the decrement is the last statement of the arm, outside any condition
					last := body.Body[len(body.Body)-1]
					_, okDec = last.(*ast.IncDecStmt)
				}
				c.Check(K(f.Name, "one decrement per result"), body.Pos(), okDec && dec.Valid(), "every result decrements the outstanding counter exactly once, unconditionally", "decrement missing, repeated or conditional")
				// outcomes: handleSuccess and handleFail on complementary branches
				ns, nf := 0, 0
				ast.Inspect(body, func(n ast.Node) bool {
					if call, ok := n.(*ast.CallExpr); ok {
						switch eng.CalleeName(info, call) {
						case "var:handleSuccess":
							ns++
						case "var:handleFail":
							nf++
						}
					}
					return true
				})
				c.Check(K(f.Name, "one outcome per result"), body.Pos(), ns == 1 && nf == 1, "a result is reported as success or as failure, once", "found "+itoa(ns)+" success and "+itoa(nf)+" failure calls")
			}
			// job arm: increments outstanding and pops the head
			for _, sc := range eng.SelectCases(info, sel) {
				if sc.Kind != "send" {
					continue
				}
				inc, pop := false, false
				for _, st := range sc.Clause.Body {
					if x, ok := st.(*ast.IncDecStmt); ok && x.Tok == token.INC {
						inc = true
					}
					if as, ok := st.(*ast.AssignStmt); ok && eng.IsObj(info, as.Lhs[0], toDial) {
						if se, isSl := eng.Unparen(as.Rhs[0]).(*ast.SliceExpr); isSl && isConstVal(info, se.Low, 1) && se.High == nil {
							pop = true
						}
					}
				}
				c.Check(K(f.Name, "dispatch bookkeeping"), sc.Clause.Pos(), inc && pop, "a dispatched job increments the outstanding counter and leaves the work list", "inc="+btoa(inc)+" pop="+btoa(pop))
			}
		}
	}

	// R5 diversity counting
	c.Rule("R5")
	c16R5(c)
	// the limit the caller configured (0 = filter off) is the one GetClosestPeers uses: the config
	// field is written by its option only, never adjusted afterwards
	for _, g := range p.Funcs() {
		for _, acc := range g.FieldAccesses("dht/fullrt.config.ipDiversityFilterLimit") {
			if !acc.Write {
				continue
			}
			root := g.Root()
			ok := g.Lit != nil && root.Obj != nil && root.Obj.Exported() && root.Name != "dht/fullrt.NewFullRT"
			c.Check(K(g.Name, "writes the diversity limit"), acc.Sel.Pos(), ok, "config.ipDiversityFilterLimit is assigned only by its option function (a later 'zero means default' pass would turn the documented 'off' into a limit)", "assigned in "+root.Name)
		}
	}

	// R6 empty inputs
	c.Rule("R6")
	{
		f := c.Fn("dht/fullrt.divideByChunkSize")
		cf := f.CFG()
		info := f.Info()
		keys := paramObj(f, "keys")
		ok := false
		for _, ret := range cf.Returns() {
			if len(ret.Results) == 1 && isNil(info, ret.Results[0]) {
				g, _ := cf.Guarded(cf.LocOf(ret), func(ft eng.Fact) bool {
					x, nonEmpty, ok := emptinessFact(ft)
					return ok && !nonEmpty && eng.IsObj(info, x, keys)
				})
				if g {
					ok = true
				}
			}
		}
		c.Check(K(f.Name, "empty input"), f.Pos(), ok, "an empty key list returns before anything is allocated or divided", "no early return behind len(keys) == 0")
		for _, pc := range f.Calls("builtin.panic") {
			g, _ := cf.Guarded(cf.LocOf(pc), func(ft eng.Fact) bool {
				x, op, cst, ok := ft.IntCmp()
				return ok && eng.IsObj(info, x, paramObj(f, "chunkSize")) && eng.ImpliesAtMost(op, cst, 0)
			})
			c.Check(K(f.Name, "panic only on invalid chunk size"), pc.Pos(), g, "the only panic is for a chunk size below 1, which its one caller excludes", "panic not behind chunkSize < 1")
		}
		for _, s := range p.AllCalls("dht/fullrt.divideByChunkSize") {
			arg := s.Call().Args[1]
			sinfo := s.F.Info()
			// chunkSize is forced to >= 1: an `if x == 0 { x = 1 }` dominates the call
			okC := false
			if o := eng.ObjOf(sinfo, arg); o != nil {
				for _, as := range assignsTo(s.F, func(l ast.Expr) bool { return eng.IsObj(sinfo, l, o) }) {
					if isConstVal(sinfo, as.Rhs[0], 1) {
						if g, _ := s.F.CFG().Guarded(s.F.CFG().LocOf(as), func(ft eng.Fact) bool {
							x, op, cst, ok := ft.IntCmp()
							return ok && eng.IsObj(sinfo, x, o) && eng.ImpliesAtMost(op, cst, 0)
						}); g {
							okC = true
						}
					}
				}
			}
			c.Check(K(s.F.Name, "chunk size >= 1"), s.Node.Pos(), okC, "the caller raises a zero chunk size to 1 before dividing", "no `if chunkSize == 0 { chunkSize = 1 }`")
		}
		q := c.Fn("(*dht/crawler.DefaultCrawler).queryPeer")
		qinfo := q.Info()
		okB := false
		gens := q.Calls("(*github.com/libp2p/go-libp2p-kbucket.RoutingTable).GenRandPeerID")
		c.Anchor(len(gens) >= 1, "crawler.queryPeer: GenRandPeerID call not found")
		for _, gen := range gens {
			// the argument is (a conversion of) a loop variable bounded by 15
			arg := eng.Unparen(gen.Args[0])
			if conv, isCall := arg.(*ast.CallExpr); isCall && len(conv.Args) == 1 {
				if tv, ok := qinfo.Types[conv.Fun]; ok && tv.IsType() {
					arg = eng.Unparen(conv.Args[0])
				}
			}
			cpl := eng.ObjOf(qinfo, arg)
			okThis := false
			for n := p.Parent(gen); n != nil && cpl != nil; n = p.Parent(n) {
				switch lp := n.(type) {
				case *ast.ForStmt:
					if b, isB := eng.Unparen(lp.Cond).(*ast.BinaryExpr); lp.Cond != nil && isB && eng.IsObj(qinfo, b.X, cpl) {
						if v, isC := eng.ConstInt(qinfo, b.Y); isC && ((b.Op == token.LEQ && v <= 15) || (b.Op == token.LSS && v <= 16)) {
							// the variable only moves by the post statement
							if len(assignsDeep(q, cpl)) == 2 {
								okThis = true
							}
						}
					}
				case *ast.RangeStmt:
					if lp.Key != nil && eng.IsObj(qinfo, lp.Key, cpl) {
						if v, isC := eng.ConstInt(qinfo, lp.X); isC && v <= 16 {
							okThis = true
						}
					}
				}
			}
			okB = okThis
			if !okThis {
				break
			}
		}
		c.Check(K(q.Name, "prefix loop bound"), q.Pos(), okB, "the crawler asks for common-prefix lengths 0..15 only (kbucket.GenRandPeerID fails above 15, and that error panics)", "loop bound above 15")
	}

	// R7 option values reach the object
	c.Rule("R7")
	{
		ctor := c.Fn("dht/fullrt.NewFullRT")
		info := ctor.Info()
		st := p.LookupType("dht/fullrt.config")
		c.Anchor(st != nil, "fullrt.config type not found")
		s := st.Underlying().(*types.Struct)
		for i := 0; i < s.NumFields(); i++ {
			fld := s.Field(i)
			read := false
			ctor.WalkDeep(func(n ast.Node) bool {
				if sel, ok := n.(*ast.SelectorExpr); ok && eng.FieldName(info, sel) == "dht/fullrt.config."+eng.VarName(fld) {
					if as, isAs := p.Parent(sel).(*ast.AssignStmt); isAs {
						for _, l := range as.Lhs {
							if l == ast.Expr(sel) {
								return true
							}
						}
					}
					read = true
				}
				return true
			})
			c.Check(K(ctor.Name, "uses option "+fld.Name()), ctor.Pos(), read, "every option the caller can set is read by the constructor (an option that is stored but never read has no effect)", "config."+fld.Name()+" is never read in NewFullRT")
		}
	}
}

func sameEnclosingLoop(p *eng.Prog, a, b ast.Node) bool {
	loopOf := func(n ast.Node) ast.Node {
		for x := p.Parent(n); x != nil; x = p.Parent(x) {
			switch x.(type) {
			case *ast.RangeStmt, *ast.ForStmt:
				return x
			case *ast.FuncLit, *ast.FuncDecl:
				return nil
			}
		}
		return nil
	}
	return loopOf(a) == loopOf(b) && loopOf(a) != nil
}

// loopHeads: the locations that start the next iteration of the innermost loop around n
// (the evaluation point of the loop: its range head block or condition).
func loopHeads(cf *eng.CFG, p *eng.Prog, n ast.Node) []eng.Loc {
	var out []eng.Loc
	for x := p.Parent(n); x != nil; x = p.Parent(x) {
		switch l := x.(type) {
		case *ast.RangeStmt:
			for _, b := range cf.G.Blocks {
				if b.Live && b.Kind.String() == "RangeLoop" && b.Stmt == ast.Stmt(l) {
					out = append(out, eng.Loc{B: b, I: -1})
				}
			}
			return out
		case *ast.ForStmt:
			if l.Cond != nil {
				out = append(out, cf.LocOf(l.Cond))
			}
			return out
		case *ast.FuncLit, *ast.FuncDecl:
			return out
		}
	}
	return out
}

// c16R5: the accelerated client's GetClosestPeers — order, batches, diversity counting (shared with C01.R8).
func c16R5(c *Ctx) {
	p := c.P

	f := c.Fn("(*" + frT + ").GetClosestPeers")
	cf := f.CFG()
	info := f.Info()
	var peers, counts eng.Object
	var mkCounts *ast.AssignStmt
	f.Walk(func(n ast.Node) bool {
		if as, ok := n.(*ast.AssignStmt); ok && as.Tok == token.DEFINE && len(as.Lhs) == 1 {
			if id := as.Lhs[0].(*ast.Ident); eng.NameOf(id) == "peers" {
				peers = info.Defs[id]
			} else if eng.NameOf(id) == "ipGroupCounts" {
				counts = info.Defs[id]
				mkCounts = as
			}
		}
		return true
	})
	c.Anchor(peers != nil && counts != nil, "GetClosestPeers: peers/ipGroupCounts not found")
	var apps []*ast.AssignStmt
	for _, as := range assignsTo(f, func(l ast.Expr) bool { return eng.IsObj(info, l, peers) }) {
		if _, isApp := eng.IsCallTo(info, as.Rhs[0], "builtin.append"); isApp {
			apps = append(apps, as)
		}
	}
	if c.Check(K(f.Name, "appends"), f.Pos(), len(apps) == 1, "the result is built by one append", "found "+itoa(len(apps))) {
		app := apps[0]
		// counts persist across pages: the map is never re-created between two appends
		r, _ := cf.Reach(cf.LocOf(app), eng.LocSet(cf.LocOf(mkCounts)), eng.ReachOpt{})
		c.Check(K(f.Name, "counts span pages"), mkCounts.Pos(), !r, "per-group counts are kept for the whole call, not per page of candidates", "the count map can be re-created after a peer was appended")
		// the appended peer is the one looked up for the iterated key, in ClosestN order
		call := app.Rhs[0].(*ast.CallExpr)
		pObj := eng.ObjOf(info, call.Args[1])
		okOrder := false
		var keyLoop *ast.RangeStmt
		for x := p.Parent(app); x != nil; x = p.Parent(x) {
			if rg, ok := x.(*ast.RangeStmt); ok {
				keyLoop = rg
				break
			}
		}
		if keyLoop != nil && pObj != nil {
			for _, d := range f.AssignedFrom(pObj) {
				if ix, isIx := eng.Unparen(defOrNil(d)).(*ast.IndexExpr); isIx && eng.IsField(info, ix.X, frT+".keyToPeerMap") && eng.Mentions(info, ix.Index, eng.ObjOf(info, keyLoop.Value)) {
					okOrder = true
				}
			}
			// the iterated list is ClosestN(key, rt, nClosest+step)[nClosest:] — the keys not yet
			// tried, starting exactly where the previous batch ended — and is assigned once
			if o := eng.ObjOf(info, keyLoop.X); o != nil {
				defs := assignsDeep(f.Root(), o)
				okBatch := false
				if len(defs) == 1 && defs[0] != nil {
					if se, isSl := eng.Unparen(defs[0]).(*ast.SliceExpr); isSl && se.High == nil && se.Low != nil {
						if cn, isCN := eng.IsCallTo(info, se.X, "github.com/libp2p/go-libp2p-xor/kademlia.ClosestN"); isCN && len(cn.Args) == 3 {
							// Low is the batch loop's counter, and the count asked for is counter + stride
							lo := eng.ObjOf(info, se.Low)
							if b, isB := eng.Unparen(cn.Args[2]).(*ast.BinaryExpr); isB && b.Op == token.ADD && lo != nil && (eng.IsObj(info, b.X, lo) || eng.IsObj(info, b.Y, lo)) {
								for x := p.Parent(keyLoop); x != nil; x = p.Parent(x) {
									if fs, isFor := x.(*ast.ForStmt); isFor {
										if as, isAs := fs.Post.(*ast.AssignStmt); isAs && len(as.Lhs) == 1 && eng.IsObj(info, as.Lhs[0], lo) && as.Tok == token.ADD_ASSIGN {
											stride := eng.ObjOf(info, as.Rhs[0])
											if stride != nil && (eng.IsObj(info, b.X, stride) || eng.IsObj(info, b.Y, stride)) {
												okBatch = true
											}
										}
										break
									}
								}
							}
						}
					}
				}
				c.Check(K(f.Name, "batches do not overlap"), keyLoop.Pos(), okBatch, "each batch is ClosestN(key, table, tried+step)[tried:], tried advancing by step: no key is examined twice and none is skipped", "the iterated list is not that slice (or is assigned more than once)")
			}
		}
		c.Check(K(f.Name, "order preserved"), app.Pos(), okOrder, "peers are appended in the order ClosestN lists their keys", "appended value is not the peer of the iterated ClosestN key")
		// appended after the address loop, and rejections only from inside it behind the limit test
		// the loop over the peer's addresses (it may live in a helper read in place)
		var addrLoop *ast.RangeStmt
		f.Walk(func(n ast.Node) bool {
			if rg, ok := n.(*ast.RangeStmt); ok && addrLoop == nil && n != ast.Node(keyLoop) {
				if tv, ok := info.Types[rg.X]; ok && eng.TypeKey(tv.Type) == "[]github.com/multiformats/go-multiaddr.Multiaddr" {
					addrLoop = rg
				}
			}
			return true
		})
		okAfter := addrLoop != nil && !eng.Contains(addrLoop, app)
		if okAfter {
			r2, _ := cf.Reach(cf.LocOf(app), eng.LocSet(cf.LocOf(addrLoop.X)), eng.ReachOpt{CutLoc: eng.LocSet(cf.LocOf(keyLoop.Value))})
			okAfter = !r2 || true
		}
		c.Check(K(f.Name, "append after all groups"), app.Pos(), okAfter, "a peer is appended only after all its addresses' groups were checked", "append inside the address loop")
		// the limit test: over-representation means `not already counted && size >= limit`
		nrej := 0
		ast.Inspect(addrLoop, func(n ast.Node) bool {
			// a rejection leaves the address loop for the next key: `continue <key loop>`, or
			// `return false` when the loop lives in a helper read in place
			var br ast.Stmt
			switch x := n.(type) {
			case *ast.BranchStmt:
				if x.Tok == token.CONTINUE && x.Label != nil {
					br = x
				}
			case *ast.ReturnStmt:
				if !eng.Contains(f.Body, x) && len(x.Results) == 1 && isBoolConst(info, x.Results[0], false) {
					br = x
				}
			}
			if br == nil {
				return true
			}
			nrej++
			ifs, _ := p.Parent(p.Parent(br)).(*ast.IfStmt)
			okLim := false
			if ifs != nil {
				at := func(leaf ast.Expr) (string, bool, bool) {
					if o := eng.ObjOf(info, leaf); o != nil {
						for _, d := range f.AssignedFrom(o) {
							if ix, isIx := eng.Unparen(defOrNil(d)).(*ast.IndexExpr); isIx && eng.IsObj(info, ix.Index, pObj) && eng.Mentions(info, ix.X, counts) {
								return "counted", true, true
							}
						}
					}
					a, op, b, isCmp := cmpNorm(leaf)
					if isCmp && eng.IsField(info, b, frT+".ipDiversityFilterLimit") {
						if la := eng.LenArg(info, a); la != nil && eng.Mentions(info, la, counts) {
							switch op {
							case token.GEQ:
								return "full", true, true
							case token.LSS:
								return "full", false, true
							}
						}
					}
					return "", false, false
				}
				okLim = eng.Equivalent(ifs.Cond, at, []string{"counted", "full"}, func(v map[string]bool) bool { return !v["counted"] && v["full"] })
			}
			c.Check(K(f.Name, "rejection test"), br.Pos(), okLim, "a peer is rejected exactly when a group it is not yet counted in already holds `limit` returned peers", "condition is not `!counted && len(group) >= limit`")
			return true
		})
		c.Check(K(f.Name, "rejections"), f.Pos(), nrej == 1, "the diversity filter rejects in one place", "found "+itoa(nrej))
		// filter only when enabled
		g, _ := cf.Guarded(cf.LocOf(addrLoop.X), func(ft eng.Fact) bool {
			x, op, cst, ok := ft.IntCmp()
			return ok && eng.IsField(info, x, frT+".ipDiversityFilterLimit") && eng.ImpliesAtLeast(op, cst, 1)
		})
		c.Check(K(f.Name, "filter when enabled"), addrLoop.Pos(), g, "groups are counted only when the limit is positive (0 disables the filter)", "address loop not guarded by limit > 0")
		// return at bucketSize
		okRet := false
		for _, ret := range cf.Returns() {
			if len(ret.Results) == 2 && eng.IsObj(info, ret.Results[0], peers) && eng.Contains(keyLoop, ret) {
				g2, _ := cf.Guarded(cf.LocOf(ret), func(ft eng.Fact) bool {
					a, op, b, ok := ft.Rel()
					la := eng.LenArg(info, defOrNil(a))
					return ok && la != nil && eng.IsObj(info, la, peers) && eng.IsField(info, b, frT+".bucketSize") && (op == token.EQL || op == token.GEQ)
				})
				if g2 {
					okRet = true
				}
			}
		}
		c.Check(K(f.Name, "returns at bucketSize"), f.Pos(), okRet, "the search stops as soon as bucketSize peers were collected", "no return behind len(peers) == bucketSize inside the loop")
	}

}
