package rules

import (
	"go/ast"
	"go/token"

	"kadcheck/internal/eng"
)

const pmT = "dht/records.ProviderManager"

func init() {
	register(&Property{
		ID:  "C07",
		Run: runC07,
		Decided: "cache, stopped flag and the datastore handle are touched by AddProvider/GetProviders/getProviderSetForKey only with the manager mutex held (R1); every datastore access of those operations is behind `!stopped`, Close performs cancel, wait for the sweeper, then sets stopped under the mutex, and the sweeper closes its done channel by defer (R2); " +
			"every accepted AddProvider writes through to the datastore with the same key, provider and timestamp it gave the cache (R3); a provider enters a returned set only behind an age test of its own timestamp with the right polarity, on the cached and on the datastore path (R4); " +
			"the sweep deletes only expired or malformed entries (R5); a provider set never lists a peer twice and GetProviders hands out a copy (R6). Added after the seeded rounds: ages are measured from time.Now() itself (not a shifted clock); no function of the package returns with a mutex it acquired still held (R1). Round 4: a provider set read from disk is returned (and cached) as complete only after the whole result stream was read (R4).",
		NotDecided: "equivalence with a reference model over histories; durability of the underlying datastore; the documented sweep/re-add race.",
	})
}

// ageFact recognises `age(X) > validity` (expired=true) or its negation (expired=false), where age is
// time.Since(ts) or now.Sub(ts); returns the timestamp expression.
func ageFact(ft eng.Fact, isValidity func(ast.Expr) bool) (ts ast.Expr, expired bool, ok bool) {
	info := ft.C.F.Info()
	x, op, y, isRel := ft.Rel()
	if !isRel {
		return nil, false, false
	}
	age := func(e ast.Expr) ast.Expr {
		call, isCall := eng.Unparen(e).(*ast.CallExpr)
		if !isCall {
			return nil
		}
		switch eng.CalleeName(info, call) {
		case "time.Since":
			if len(call.Args) == 1 {
				return call.Args[0]
			}
		case "(time.Time).Sub":
			// now.Sub(ts): the receiver must be the current time — time.Now() itself or a
			// local assigned once from it (a shifted clock such as time.Now().Add(d) measures another age)
			if len(call.Args) == 1 {
				if sel, ok := eng.Unparen(call.Fun).(*ast.SelectorExpr); ok {
					recv := resolveLocal(ft.C.F, sel.X)
					if nowCall, isNow := eng.Unparen(recv).(*ast.CallExpr); isNow && eng.CalleeName(info, nowCall) == "time.Now" {
						return call.Args[0]
					}
				}
			}
		}
		return nil
	}
	isValidity0 := isValidity
	isValidity = func(e ast.Expr) bool { return isValidity0(e) || isValidity0(eng.ArgExpr(info, e)) }
	if a := age(x); a != nil && isValidity(y) {
		switch op {
		case eng.GTR, eng.GEQ:
			return a, true, true
		case eng.LEQ, eng.LSS:
			return a, false, true
		}
	}
	if a := age(y); a != nil && isValidity(x) {
		switch op {
		case eng.LSS, eng.LEQ:
			return a, true, true
		case eng.GEQ, eng.GTR:
			return a, false, true
		}
	}
	return nil, false, false
}

func runC07(c *Ctx) {
	p := c.P
	// R1 lock discipline
	c.Rule("R1")
	n := checkLockSpec(c, &lockSpec{
		Lock:        pmT + ".mu",
		Fields:      []string{pmT + ".cache", pmT + ".stopped", pmT + ".dstore"},
		CallerHolds: map[string]eng.LockMode{"(*" + pmT + ").getProviderSetForKey": eng.LockW},
		ReadNeedsW:  true,
		Exempt: map[string]string{
			"dht/records.NewProviderManager": "constructor: object not yet shared",
			"dht/records.Cache":              "option closure, runs inside the constructor",
			"(*" + pmT + ").collectExpired":  "background sweep: by design touches only the (concurrency-safe) datastore, never the cache or stopped",
		},
	}, "dht/records")
	c.Check("accesses", 0, n >= 3, "at least 3 guarded accesses exist", "found "+itoa(n))
	// and no function of the package returns with a mutex it took still held
	checkBalancedLocks(c, "dht/records")
	// the sweep really touches nothing but the datastore
	{
		f := c.Fn("(*" + pmT + ").collectExpired")
		bad := len(f.FieldAccesses(pmT+".cache")) + len(f.FieldAccesses(pmT+".stopped"))
		c.Check(K(f.Name, "sweep touches only datastore"), f.Pos(), bad == 0, "the lock-free sweep never touches the cache or the stopped flag", itoa(bad)+" accesses")
	}
	for _, fn := range []string{"AddProvider", "GetProviders", "Close"} {
		checkNoBadUnlock(c, c.Fn("(*"+pmT+")."+fn), nil)
	}

	// R2 fence after Close
	c.Rule("R2")
	{
		stoppedFalse := func(info *eng.Info) func(eng.Fact) bool {
			return func(ft eng.Fact) bool {
				_, truth, ok := ft.BoolVar()
				return ok && !truth && eng.IsField(info, ft.Expr, pmT+".stopped")
			}
		}
		add := c.Fn("(*" + pmT + ").AddProvider")
		for _, call := range add.Calls("dht/records.writeProviderEntry") {
			ok, _ := add.CFG().Guarded(add.CFG().LocOf(call), stoppedFalse(add.Info()))
			c.Check(K(add.Name, "write behind !stopped"), call.Pos(), ok, "no datastore write after Close", "write not dominated by the stopped test")
		}
		get := c.Fn("(*" + pmT + ").GetProviders")
		gs := get.Calls("(*" + pmT + ").getProviderSetForKey")
		c.Check(K(get.Name, "loads set"), get.Pos(), len(gs) == 1, "GetProviders obtains the set in one place", "found "+itoa(len(gs)))
		for _, call := range gs {
			ok, _ := get.CFG().Guarded(get.CFG().LocOf(call), stoppedFalse(get.Info()))
			c.Check(K(get.Name, "read behind !stopped"), call.Pos(), ok, "no datastore read after Close", "read not dominated by the stopped test")
		}
		// Close ordering
		cl := c.Fn("(*" + pmT + ").Close")
		ccf := cl.CFG()
		cinfo := cl.Info()
		cancels := cl.Calls("field:" + pmT + ".cancel")
		var recv ast.Node
		cl.Walk(func(n ast.Node) bool {
			if u, ok := n.(*ast.UnaryExpr); ok && u.Op.String() == "<-" && eng.IsField(cinfo, u.X, pmT+".closed") {
				recv = u
			}
			return true
		})
		stores := assignsTo(cl, func(l ast.Expr) bool { return eng.IsField(cinfo, l, pmT+".stopped") })
		okShape := len(cancels) == 1 && recv != nil && len(stores) == 1
		c.Check(K(cl.Name, "shape"), cl.Pos(), okShape, "Close cancels the sweeper, waits on its done channel and sets stopped", "one of cancel / <-closed / stopped=true is missing")
		if okShape {
			c.Check(K(cl.Name, "cancel before wait"), cancels[0].Pos(), ccf.Dominates(ccf.LocOf(cancels[0]), ccf.LocOf(recv)), "the stop signal precedes the wait", "wait reachable without cancel")
			c.Check(K(cl.Name, "wait before fence"), recv.Pos(), ccf.Dominates(ccf.LocOf(recv), ccf.LocOf(stores[0])) && isBoolConst(cinfo, stores[0].Rhs[0], true), "the sweeper has exited before the store is fenced", "stopped is set before the sweeper ended, or not to true")
			ok, w := ccf.MustPass(ccf.Entry(), eng.LocSet(ccf.Exits(true)...), eng.LocSet(ccf.LocOf(stores[0])))
			c.CheckW(K(cl.Name, "always fences"), cl.Pos(), ok, "every return of Close has set stopped", "a path returns without fencing", ccf.DescribePath(w))
		}
		gl := c.Fn("(*" + pmT + ").gcLoop")
		gcf := gl.CFG()
		ginfo := gl.Info()
		var defClose []eng.Loc
		gl.Walk(func(n ast.Node) bool {
			if d, ok := n.(*ast.DeferStmt); ok {
				if eng.NameIn(eng.CalleeName(ginfo, d.Call), "builtin.close") && len(d.Call.Args) == 1 && eng.IsField(ginfo, d.Call.Args[0], pmT+".closed") {
					defClose = append(defClose, gcf.LocOf(d))
				}
			}
			return true
		})
		ok, w := gcf.MustPass(gcf.Entry(), eng.LocSet(gcf.Exits(false)...), eng.LocSet(defClose...))
		c.CheckW(K(gl.Name, "defer close(closed)"), gl.Pos(), ok && len(defClose) == 1, "the sweeper signals its exit by a deferred close registered before any exit", "an exit is reachable without the deferred close", gcf.DescribePath(w))
	}

	// R3 write-through
	c.Rule("R3")
	{
		f := c.Fn("(*" + pmT + ").AddProvider")
		cf := f.CFG()
		info := f.Info()
		writes := f.Calls("dht/records.writeProviderEntry")
		c.Check(K(f.Name, "writes"), f.Pos(), len(writes) >= 1, "AddProvider writes to the datastore", "no writeProviderEntry call")
		wl := locsOf(cf, writes)
		for i, ret := range cf.Returns() {
			// exempt: the ErrClosed return behind stopped
			if g, _ := cf.Guarded(cf.LocOf(ret), func(ft eng.Fact) bool {
				_, truth, ok := ft.BoolVar()
				return ok && truth && eng.IsField(info, ft.Expr, pmT+".stopped")
			}); g {
				continue
			}
			ok, w := cf.MustPass(cf.Entry(), eng.LocSet(cf.LocOf(ret)), eng.LocSet(wl...))
			c.CheckW(K(f.Name, "return#"+itoa(i)+" wrote through"), ret.Pos(), ok, "every accepted add reaches the datastore (cached or not)", "a return is reachable without the datastore write", cf.DescribePath(w))
			// and reports the write's result
			if len(ret.Results) == 1 {
				isW := false
				if call, isCall := eng.Unparen(ret.Results[0]).(*ast.CallExpr); isCall && eng.CalleeName(info, call) == "dht/records.writeProviderEntry" {
					isW = true
				} else if o := eng.ObjOf(info, ret.Results[0]); o != nil {
					for _, d := range f.AssignedFrom(o) {
						if _, ok := eng.IsCallTo(info, defOrNil(d), "dht/records.writeProviderEntry"); ok {
							isW = true
						}
					}
				}
				c.Check(K(f.Name, "return#"+itoa(i)+" reports write"), ret.Pos(), isW, "AddProvider returns the outcome of the datastore write", "return value is not the write's result")
			}
		}
		k, prov := paramObj(f, "k"), paramObj(f, "provInfo")
		for _, w := range writes {
			okArgs := len(w.Args) == 5 && eng.IsField(info, w.Args[1], pmT+".dstore") && eng.IsObj(info, w.Args[2], k) && eng.Mentions(info, w.Args[3], prov)
			c.Check(K(f.Name, "write args"), w.Pos(), okArgs, "the write stores (k, provider ID) in the manager's datastore", "unexpected arguments")
			// same timestamp as the cache update
			for _, sv := range f.Calls("(*dht/records.providerSet).setVal") {
				same := len(sv.Args) == 2 && len(w.Args) == 5 && eng.SameExpr(info, sv.Args[1], w.Args[4]) && eng.SameExpr(info, sv.Args[0], w.Args[3])
				c.Check(K(f.Name, "cache and datastore agree"), sv.Pos(), same, "cache and datastore receive the same provider and timestamp", "arguments differ")
			}
		}
		// writeProviderEntry really puts
		wpe := c.Fn("dht/records.writeProviderEntry")
		nput := 0
		wpe.Walk(func(n ast.Node) bool {
			if call, ok := n.(*ast.CallExpr); ok && eng.CalleeName(wpe.Info(), call) == "(github.com/ipfs/go-datastore.Write).Put" {
				nput++
			}
			return true
		})
		c.Check(K(wpe.Name, "puts"), wpe.Pos(), nput == 1, "writeProviderEntry performs the datastore Put", "found "+itoa(nput)+" Put calls")
	}

	// R4 expiry on both read paths
	c.Rule("R4")
	{
		f := c.Fn("(*" + pmT + ").getProviderSetForKey")
		cf := f.CFG()
		info := f.Info()
		isVal := func(e ast.Expr) bool { return eng.IsField(info, e, pmT+".provideValidity") }
		// the cached branch: return behind `ok`
		var cachedRet *ast.ReturnStmt
		for _, ret := range cf.Returns() {
			if g, _ := cf.Guarded(cf.LocOf(ret), func(ft eng.Fact) bool {
				o, truth, isB := ft.BoolVar()
				if !isB || !truth {
					return false
				}
				def := f.AssignedFrom(o)
				for _, d := range def {
					if call, isCall := eng.Unparen(defOrNil(d)).(*ast.CallExpr); isCall && eng.NameIn(eng.CalleeName(info, call), "(github.com/hashicorp/golang-lru/simplelru.LRUCache).Get") {
						return true
					}
				}
				return false
			}); g {
				cachedRet = ret
			}
		}
		if c.Check(K(f.Name, "cached branch"), f.Pos(), cachedRet != nil, "getProviderSetForKey has a cache-hit branch", "not found") {
			// assignment to ps.providers dominating the return, from a local slice
			var provAssign *ast.AssignStmt
			for _, as := range assignsTo(f, func(l ast.Expr) bool { return eng.IsField(info, l, "dht/records.providerSet.providers") }) {
				if cf.Dominates(cf.LocOf(as), cf.LocOf(cachedRet)) {
					provAssign = as
				}
			}
			var setAssign *ast.AssignStmt
			for _, as := range assignsTo(f, func(l ast.Expr) bool { return eng.IsField(info, l, "dht/records.providerSet.set") }) {
				if cf.Dominates(cf.LocOf(as), cf.LocOf(cachedRet)) {
					setAssign = as
				}
			}
			c.Check(K(f.Name, "cached branch rebuilds set"), cachedRet.Pos(), provAssign != nil && setAssign != nil, "a cache hit returns a freshly filtered provider list and timestamp map", "providers/set are not reassigned before the cached return")
			if provAssign != nil {
				lst := eng.ObjOf(info, provAssign.Rhs[0])
				apps := 0
				f.Walk(func(n ast.Node) bool {
					as, ok := n.(*ast.AssignStmt)
					if !ok || len(as.Lhs) != 1 || !eng.IsObj(info, as.Lhs[0], lst) {
						return true
					}
					call, isApp := eng.IsCallTo(info, as.Rhs[0], "builtin.append")
					if !isApp {
						return true
					}
					apps++
					// enclosing range over the set map; guard on its own value variable
					var rng *ast.RangeStmt
					for x := p.Parent(as); x != nil; x = p.Parent(x) {
						if r, isR := x.(*ast.RangeStmt); isR {
							rng = r
							break
						}
					}
					ok2 := false
					if rng != nil && eng.IsField(info, rng.X, "dht/records.providerSet.set") && rng.Value != nil && len(call.Args) == 2 && eng.SameExpr(info, call.Args[1], rng.Key) {
						ok2, _ = cf.Guarded(cf.LocOf(as), func(ft eng.Fact) bool {
							ts, expired, isAge := ageFact(ft, isVal)
							return isAge && !expired && eng.SameExpr(info, ts, rng.Value)
						})
					}
					c.Check(K(f.Name, "cached append"), as.Pos(), ok2, "on a cache hit a provider is kept only if its own timestamp is within the validity period", "append not guarded by !(time.Since(v) > provideValidity) on the iterated entry")
					return true
				})
				c.Check(K(f.Name, "cached appends"), provAssign.Pos(), apps >= 1, "the filtered list is built by appends", "none found")
			}
		}
		// loadProviderSet gets the manager's validity
		for _, call := range f.Calls("dht/records.loadProviderSet") {
			c.Check(K(f.Name, "load validity"), call.Pos(), len(call.Args) == 4 && isVal(call.Args[2]), "the datastore path filters by the same validity period", "validity argument differs")
		}
		l := c.Fn("dht/records.loadProviderSet")
		lcf := l.CFG()
		linfo := l.Info()
		val := paramObj(l, "provideValidity")
		svs := l.Calls("(*dht/records.providerSet).setVal")
		c.Check(K(l.Name, "adds"), l.Pos(), len(svs) == 1, "loadProviderSet adds entries in one place", "found "+itoa(len(svs)))
		for _, sv := range svs {
			okAge, _ := lcf.Guarded(lcf.LocOf(sv), func(ft eng.Fact) bool {
				ts, expired, isAge := ageFact(ft, func(e ast.Expr) bool { return eng.IsObj(linfo, e, val) })
				return isAge && !expired && len(sv.Args) == 2 && eng.SameExpr(linfo, ts, sv.Args[1])
			})
			okParse, _ := lcf.Guarded(lcf.LocOf(sv), func(ft eng.Fact) bool { return ft.ErrOf(true, "dht/records.readTimeValue") })
			c.Check(K(l.Name, "load behind age test"), sv.Pos(), okAge, "an entry loaded from disk is kept only if its timestamp is within the validity period", "setVal not guarded by !(now.Sub(t) > provideValidity)")
			c.Check(K(l.Name, "load behind parse"), sv.Pos(), okParse, "an entry with an unparsable timestamp is not served", "setVal not behind readTimeValue success")
		}
		// the set is reported (and then cached) as complete only when the scan ran to the end of
		// the results: a successful return lies behind the exhaustion of the result stream
		nextCalls := l.Calls("(github.com/ipfs/go-datastore/query.Results).NextSync")
		for i, ret := range lcf.Returns() {
			if len(ret.Results) != 2 || !isNil(linfo, ret.Results[1]) {
				continue
			}
			ok := false
			if len(nextCalls) > 0 {
				ok, _ = lcf.Guarded(lcf.LocOf(ret), func(ft eng.Fact) bool {
					o, truth, isB := ft.BoolVar()
					if !isB || truth {
						return false
					}
					rhs, idx := lcf.LastAssign(ft.B, o)
					_, isNext := eng.IsCallTo(linfo, defOrNil(rhs), "(github.com/ipfs/go-datastore/query.Results).NextSync")
					return isNext && idx == 1
				})
			} else {
				// `for e := range res.Next()`: left only by exhaustion when nothing breaks out of it
				l.Walk(func(x ast.Node) bool {
					rg, isRg := x.(*ast.RangeStmt)
					if !isRg {
						return true
					}
					if _, isNext := eng.IsCallTo(linfo, rg.X, "(github.com/ipfs/go-datastore/query.Results).Next"); !isNext {
						return true
					}
					leaves := false
					ast.Inspect(rg.Body, func(y ast.Node) bool {
						switch b := y.(type) {
						case *ast.FuncLit:
							return false
						case *ast.BranchStmt:
							if b.Tok == token.GOTO || (b.Tok == token.BREAK && (b.Label != nil || !insideInnerBreakable(c.P, b, rg))) {
								leaves = true
							}
						}
						return true
					})
					ok = !leaves && lcf.Dominates(lcf.LocOf(rg.X), lcf.LocOf(ret))
					return true
				})
			}
			c.Check(K(l.Name, "return#"+itoa(i)+" complete scan"), ret.Pos(), ok, "the provider set read from disk is returned as a success (and then cached as the key's set) only after the whole result stream was read", "a successful return is reachable while results are still unread (a partial set would be cached and later queries would omit valid providers)")
		}
	}

	// R5 sweep deletes only expired/malformed
	c.Rule("R5")
	{
		f := c.Fn("(*" + pmT + ").collectExpired")
		cf := f.CFG()
		info := f.Info()
		dels := 0
		f.Walk(func(n ast.Node) bool {
			call, ok := n.(*ast.CallExpr)
			if !ok {
				return true
			}
			s, ok := eng.Unparen(call.Fun).(*ast.SelectorExpr)
			if !ok || eng.NameOf(s.Sel) != "Delete" || !eng.IsField(info, exprAt(cf, cf.LocOf(call), s.X), pmT+".dstore") {
				return true
			}
			dels++
			okG := cf.GuardedBySet(cf.LocOf(call), func(ft eng.Fact) bool {
				if ft.ErrOf(false, "dht/records.readTimeValue") {
					return true
				}
				_, expired, isAge := ageFact(ft, func(e ast.Expr) bool { return eng.IsField(info, e, pmT+".provideValidity") })
				return isAge && expired
			})
			c.Check(K(f.Name, "delete"), call.Pos(), okG, "the sweep deletes only entries that are expired or malformed", "delete reachable for a valid, unexpired entry")
			return true
		})
		c.Check(K(f.Name, "deletes"), f.Pos(), dels >= 1, "the sweep deletes", "no Delete found")
	}

	// R6 no duplicates
	c.Rule("R6")
	{
		f := c.Fn("(*dht/records.providerSet).setVal")
		cf := f.CFG()
		info := f.Info()
		pid := paramObj(f, "p")
		apps := 0
		f.Walk(func(n ast.Node) bool {
			call, ok := n.(*ast.CallExpr)
			if !ok || eng.CalleeName(info, call) != "builtin.append" || !eng.IsField(info, call.Args[0], "dht/records.providerSet.providers") {
				return true
			}
			apps++
			g, _ := cf.Guarded(cf.LocOf(call), func(ft eng.Fact) bool {
				o, truth, isB := ft.BoolVar()
				if !isB || truth {
					return false
				}
				for _, d := range f.AssignedFrom(o) {
					if ix, isIx := eng.Unparen(defOrNil(d)).(*ast.IndexExpr); isIx && eng.IsField(info, ix.X, "dht/records.providerSet.set") && eng.IsObj(info, ix.Index, pid) {
						return true
					}
				}
				return false
			})
			c.Check(K(f.Name, "append only when absent"), call.Pos(), g && len(call.Args) == 2 && eng.IsObj(info, call.Args[1], pid), "a peer is appended to a provider list only when it is not yet in the set", "append not guarded by absence from ps.set")
			return true
		})
		c.Check(K(f.Name, "appends"), f.Pos(), apps == 1, "setVal appends in one place", "found "+itoa(apps))
		// the timestamp is always recorded
		stores := assignsTo(f, func(l ast.Expr) bool {
			ix, ok := eng.Unparen(l).(*ast.IndexExpr)
			return ok && eng.IsField(info, ix.X, "dht/records.providerSet.set")
		})
		okSt := len(stores) >= 1
		if okSt {
			// every path passes one of the stores, and each stores the time parameter under the peer
			ok2, _ := cf.MustPass(cf.Entry(), eng.LocSet(cf.Exits(true)...), eng.LocSet(locsOf(cf, stores)...))
			okSt = ok2
			for _, st := range stores {
				ix := eng.Unparen(st.Lhs[0]).(*ast.IndexExpr)
				if !eng.IsObj(info, ix.Index, pid) || !eng.IsObj(info, st.Rhs[0], paramObj(f, "t")) {
					okSt = false
				}
			}
		}
		c.Check(K(f.Name, "records time"), f.Pos(), okSt, "setVal records the (new) timestamp on every path", "a path skips ps.set[p] = t")
		g := c.Fn("(*" + pmT + ").GetProviders")
		ginfo := g.Info()
		cl := g.Calls("slices.Clone")
		okClone := false
		for _, call := range cl {
			if len(call.Args) == 1 && eng.IsField(ginfo, call.Args[0], "dht/records.providerSet.providers") {
				held := g.Locks().HeldBefore(call)
				if _, h := held[pmT+".mu"]; h {
					okClone = true
				}
			}
		}
		c.Check(K(g.Name, "returns copy"), g.Pos(), okClone, "GetProviders copies the provider list while holding the mutex", "no slices.Clone(pset.providers) under mu")
		// the shared list is not read anywhere else in GetProviders
		reads := g.FieldAccesses("dht/records.providerSet.providers")
		c.Check(K(g.Name, "no shared list use"), g.Pos(), len(reads) == 1, "the cached list is used only to be cloned", itoa(len(reads))+" uses")
	}
}
