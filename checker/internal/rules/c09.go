package rules

import (
	"go/ast"
	"strings"

	"kadcheck/internal/eng"
)

func init() {
	register(&Property{
		ID:      "C09",
		Run:     runC09,
		NeedSSA: true,
		Decided: "the dispatch table maps exactly the six message types to their handlers, value/provider handlers only when the store exists (R1); every loop cycle of the stream handler re-checks server mode before reading and before dispatch (R2); every wire reader is bounded by MessageSizeMax (R3); " +
			"closer peers: count+1 asked from the table, self and requester skipped, loop left at count, bucketSize passed by every handler, FIND_NODE prepends only the target and keeps only peers with addresses (R4); every outgoing peer record is built by a bounding constructor and stores to CloserPeers/ProviderPeers take only such values (R5); the provider budget test dominates the append, constants fit (R6); " +
			"ADD_PROVIDER key bounds, sender identity, non-empty addresses, filtered addresses; GET_PROVIDERS key bounds and filtered served addresses (R7); echoing handlers strip peer records before every return of the request (R8); nil-safe request access, no reachable explicit panic outside three constant-encoding sites, guarded indexing (R9); close only on orderly completion, false on every handler/unmarshal/write error (R10); no function of the server-side packages returns with a mutex it acquired still held (R11). Added after the seeded rounds: the FIND_NODE response is built with a nil key (R4); the switch to client mode resets every inbound DHT stream whatever the connection's direction (R12, shared C13.R3).",
		NotDecided: "byte-level well-formedness produced by protobuf-go; 'nearest first' (library kbucket order); bucket sizes above 510.",
	})
}

func runC09(c *Ctx) {
	p := c.P
	// R1 dispatch
	c.Rule("R1")
	{
		f := c.Fn("(*dht.IpfsDHT).handlerForMsgType")
		cf := f.CFG()
		info := f.Info()
		t := paramObj(f, "t")
		want := map[string][2]string{ // constant -> handler, store field
			"Message_FIND_NODE":     {"handleFindPeer", ""},
			"Message_PING":          {"handlePing", ""},
			"Message_GET_VALUE":     {"handleGetValue", "dht.IpfsDHT.valueStore"},
			"Message_PUT_VALUE":     {"handlePutValue", "dht.IpfsDHT.valueStore"},
			"Message_ADD_PROVIDER":  {"handleAddProvider", "dht.IpfsDHT.providerStore"},
			"Message_GET_PROVIDERS": {"handleGetProviders", "dht.IpfsDHT.providerStore"},
		}
		seen := map[string]bool{}
		nilRet := false
		for _, ret := range cf.Returns() {
			if len(ret.Results) != 1 {
				continue
			}
			if isNil(info, ret.Results[0]) {
				nilRet = true
				continue
			}
			sel, isSel := eng.Unparen(ret.Results[0]).(*ast.SelectorExpr)
			if !isSel {
				c.Check(K(f.Name, "return "+short(ret.Results[0])), ret.Pos(), false, "the dispatcher returns handler methods", "unexpected return expression")
				continue
			}
			h := eng.NameOf(sel.Sel)
			var consts []string
			for cn := range want {
				cn := cn
				if g, _ := cf.Guarded(cf.LocOf(ret), func(ft eng.Fact) bool {
					v, ok := eqOperand(ft, func(e ast.Expr) bool { return eng.IsObj(info, e, t) })
					if !ok {
						return false
					}
					co := eng.ConstObj(info, v)
					return co != nil && co.Name() == cn
				}); g {
					consts = append(consts, cn)
				}
			}
			// a case list with several constants yields no single dominating fact; use the set form
			if len(consts) == 0 {
				for cn := range want {
					cn := cn
					if cf.GuardedBySet(cf.LocOf(ret), func(ft eng.Fact) bool {
						v, ok := eqOperand(ft, func(e ast.Expr) bool { return eng.IsObj(info, e, t) })
						if !ok {
							return false
						}
						co := eng.ConstObj(info, v)
						return co != nil && co.Name() == cn
					}) {
						consts = append(consts, cn)
					}
				}
			}
			ok := len(consts) == 1 && want[consts[0]][0] == h
			detail := "handler " + h + " is returned for " + strings.Join(consts, ",")
			if ok {
				seen[consts[0]] = true
				if fld := want[consts[0]][1]; fld != "" {
					g, _ := cf.Guarded(cf.LocOf(ret), func(ft eng.Fact) bool {
						x, isNilF, isN := ft.NilFact()
						return isN && !isNilF && eng.IsField(info, x, fld)
					})
					c.Check(K(f.Name, h+" behind store"), ret.Pos(), g, "a store-backed handler is dispatched only when its store exists", "no dominating "+fld+" != nil")
				}
			}
			c.Check(K(f.Name, "dispatch "+h), ret.Pos(), ok, "each message type maps to its own handler", detail)
		}
		for cn, w := range want {
			c.Check(K(f.Name, cn), f.Pos(), seen[cn], "message type "+cn+" is dispatched to "+w[0], "no such dispatch")
		}
		c.Check(K(f.Name, "unknown type"), f.Pos(), nilRet, "an unknown message type yields no handler", "no `return nil`")
	}

	// R2 per-message mode gate (shared with C13.R1)
	c.Rule("R2")
	c13R1(c)

	// R3 read limits
	c.Rule("R3")
	c09R3(c)

	// R4 closer peers
	c.Rule("R4")
	{
		f := c.Fn("(*dht.IpfsDHT).closestPeersToQuery")
		cf := f.CFG()
		info := f.Info()
		count, from := paramObj(f, "count"), paramObj(f, "from")
		np := f.Calls("(*github.com/libp2p/go-libp2p-kbucket.RoutingTable).NearestPeers")
		okNP := false
		if len(np) == 1 && len(np[0].Args) == 2 {
			if b, isB := eng.Unparen(np[0].Args[1]).(*ast.BinaryExpr); isB && b.Op == eng.ADD {
				if (eng.IsObj(info, b.X, count) && isConstVal(info, b.Y, 1)) || (eng.IsObj(info, b.Y, count) && isConstVal(info, b.X, 1)) {
					okNP = true
				}
			}
		}
		c.Check(K(f.Name, "asks count+1"), f.Pos(), okNP, "the table is asked for count+1 peers so that dropping the requester still leaves count", "NearestPeers count argument is not count+1")
		var appends []*ast.AssignStmt
		var lst eng.Object
		for _, ret := range cf.Returns() {
			if len(ret.Results) == 1 && !isNil(info, ret.Results[0]) {
				lst = eng.ObjOf(info, ret.Results[0])
			}
		}
		c.Anchor(lst != nil, "closestPeersToQuery: returned list variable not found")
		f.Walk(func(n ast.Node) bool {
			if as, ok := n.(*ast.AssignStmt); ok && len(as.Lhs) == 1 && eng.IsObj(info, as.Lhs[0], lst) {
				if _, isApp := eng.IsCallTo(info, as.Rhs[0], "builtin.append"); isApp {
					appends = append(appends, as)
				}
			}
			return true
		})
		c.Check(K(f.Name, "appends"), f.Pos(), len(appends) == 1, "the result is built by one append", "found "+itoa(len(appends)))
		for _, as := range appends {
			call := as.Rhs[0].(*ast.CallExpr)
			elem := call.Args[len(call.Args)-1]
			loc := cf.LocOf(as)
			neq := func(isOther func(ast.Expr) bool) bool {
				g, _ := cf.Guarded(loc, func(ft eng.Fact) bool {
					x, y, equal, ok := ft.EqFact()
					if !ok || equal {
						return false
					}
					return (eng.SameExpr(info, x, elem) && isOther(y)) || (eng.SameExpr(info, y, elem) && isOther(x))
				})
				return g
			}
			c.Check(K(f.Name, "skips self"), as.Pos(), neq(func(e ast.Expr) bool { return eng.IsField(info, e, "dht.IpfsDHT.self") }), "the local node is never listed as a closer peer", "append not guarded by p != dht.self")
			c.Check(K(f.Name, "skips requester"), as.Pos(), neq(func(e ast.Expr) bool { return eng.IsObj(info, e, from) }), "the requester is never listed as a closer peer", "append not guarded by p != from")
			// from one append, the next is reachable only over `len(filtered) < count`
			reach, w := cf.Reach(loc, eng.LocSet(loc), eng.ReachOpt{CutEdge: func(b *eng.Block, i int) bool {
				for _, ft := range cf.EdgeFacts(b, i) {
					x, op, y, ok := ft.Rel()
					if !ok {
						continue
					}
					if la := eng.LenArg(info, x); la != nil && eng.IsObj(info, la, lst) && eng.IsObj(info, y, count) && op == eng.LSS {
						return true
					}
					if la := eng.LenArg(info, y); la != nil && eng.IsObj(info, la, lst) && eng.IsObj(info, x, count) && op == eng.GTR {
						return true
					}
				}
				return false
			}})
			c.CheckW(K(f.Name, "stops at count"), as.Pos(), !reach, "at most count closer peers are collected", "a further append is reachable without len(filtered) < count", cf.DescribePath(w))
		}
		// every handler passes bucketSize
		sites := p.AllCalls("(*dht.IpfsDHT).closestPeersToQuery")
		c.Check("closestPeersToQuery callers", 0, len(sites) >= 2, "handlers list closer peers", "found "+itoa(len(sites)))
		for _, s := range sites {
			call := s.Call()
			c.Check(K(s.F.Name, "count = bucketSize"), call.Pos(), len(call.Args) == 3 && eng.IsField(s.F.Info(), call.Args[2], "dht.IpfsDHT.bucketSize"), "handlers list at most K closer peers", "count argument is not dht.bucketSize")
		}
		// FIND_NODE
		h := c.Fn("(*dht.IpfsDHT).handleFindPeer")
		hcf := h.CFG()
		hinfo := h.Info()
		for _, as := range assignsTo(h, func(l ast.Expr) bool { return eng.IsField(hinfo, l, "dht/pb.Message.CloserPeers") }) {
			call, isConv := eng.IsCallTo(hinfo, as.Rhs[0], "dht/pb.PeerInfosToPBPeers")
			if !c.Check(K(h.Name, "CloserPeers from converter"), as.Pos(), isConv && len(call.Args) == 2, "FIND_NODE lists peers through the bounding converter", "unexpected value") {
				continue
			}
			wa := eng.ObjOf(hinfo, call.Args[1])
			n := 0
			h.Walk(func(x ast.Node) bool {
				a2, ok := x.(*ast.AssignStmt)
				if !ok || len(a2.Lhs) != 1 || !eng.IsObj(hinfo, a2.Lhs[0], wa) {
					return true
				}
				app, isApp := eng.IsCallTo(hinfo, a2.Rhs[0], "builtin.append")
				if !isApp {
					return true
				}
				n++
				el := app.Args[len(app.Args)-1]
				g, _ := hcf.Guarded(hcf.LocOf(a2), func(ft eng.Fact) bool {
					x, op, cst, ok := ft.IntCmp()
					if !ok || !eng.ImpliesAtLeast(op, cst, 1) {
						return false
					}
					la := eng.LenArg(hinfo, x)
					s, isSel := eng.Unparen(la).(*ast.SelectorExpr)
					return la != nil && isSel && eng.NameOf(s.Sel) == "Addrs" && eng.SameExpr(hinfo, s.X, el)
				})
				c.Check(K(h.Name, "only peers with addresses"), a2.Pos(), g, "FIND_NODE lists only peers with at least one known address", "append not guarded by len(pi.Addrs) > 0")
				return true
			})
			c.Check(K(h.Name, "filters by address"), as.Pos(), n == 1, "the listed peers are collected by one filtered append", "found "+itoa(n))
		}
		// the only addition to the closest list is the target, in front
		closest := h.Calls("(*dht.IpfsDHT).closestPeersToQuery")
		if len(closest) == 1 {
			if as, ok := p.Parent(closest[0]).(*ast.AssignStmt); ok {
				cobj := eng.ObjOf(hinfo, as.Lhs[0])
				for _, a2 := range assignsTo(h, func(l ast.Expr) bool { return eng.IsObj(hinfo, l, cobj) }) {
					if a2 == as {
						continue
					}
					app, isApp := eng.IsCallTo(hinfo, a2.Rhs[0], "builtin.append")
					ok := false
					if isApp && len(app.Args) == 2 && app.Ellipsis.IsValid() && eng.IsObj(hinfo, app.Args[1], cobj) {
						if cl, isCL := eng.Unparen(app.Args[0]).(*ast.CompositeLit); isCL && len(cl.Elts) == 1 {
							// element derives from the request key
							if o := eng.ObjOf(hinfo, cl.Elts[0]); o != nil {
								if def := h.LocalVarDef(o); def != nil && strings.Contains(eng.ExprStr(def), "GetKey()") {
									ok = true
								}
							}
						}
					}
					c.Check(K(h.Name, "prepends only the target"), a2.Pos(), ok, "FIND_NODE adds nothing to the K closest but the requested peer, in front", "unexpected modification of the closest list")
				}
			}
		}
	}

	// R5 8 KiB per record on every way out
	c.Rule("R5")
	{
		bounded := []string{"dht/pb.peerInfoToPBPeer", "dht/pb.peerRoutingInfoToPBPeer"}
		nlit := 0
		for _, f := range p.Funcs() {
			if isGenerated(p, f) {
				continue
			}
			info := f.Info()
			f.Walk(func(n ast.Node) bool {
				cl, ok := n.(*ast.CompositeLit)
				if !ok {
					return true
				}
				tv, ok := info.Types[cl]
				if !ok || eng.TypeName(tv.Type) != "dht/pb.Message_Peer" {
					return true
				}
				nlit++
				c.Funcs[f.Name] = true
				c.Check(K(f.Name, "constructs Message_Peer"), cl.Pos(), eng.NameIn(f.Name, bounded...), "wire peer records are constructed only by the bounding constructors", "Message_Peer literal outside peerInfoToPBPeer/peerRoutingInfoToPBPeer")
				return true
			})
		}
		c.Check("Message_Peer literals", 0, nlit >= 2, "both bounding constructors build the record", "found "+itoa(nlit))
		for _, name := range bounded {
			f := c.Fn(name)
			cf := f.CFG()
			info := f.Info()
			bl, _ := cf.CallLocs("dht/pb.boundPeerRecordAddrs")
			for i, ret := range cf.Returns() {
				ok, w := cf.MustPass(cf.Entry(), eng.LocSet(cf.LocOf(ret)), eng.LocSet(bl...))
				c.CheckW(K(f.Name, "return#"+itoa(i)+" bounded"), ret.Pos(), ok, "the record is bounded before it is returned", "a return is reachable without boundPeerRecordAddrs", cf.DescribePath(w))
			}
			// no growth of Addrs after the bounding call
			for _, as := range assignsTo(f, func(l ast.Expr) bool {
				if ix, ok := eng.Unparen(l).(*ast.IndexExpr); ok {
					l = ix.X
				}
				return eng.IsField(info, l, "dht/pb.Message_Peer.Addrs")
			}) {
				after := false
				for _, b := range bl {
					if r, _ := cf.Reach(b, eng.LocSet(cf.LocOf(as)), eng.ReachOpt{}); r {
						after = true
					}
				}
				c.Check(K(f.Name, "no address write after bounding"), as.Pos(), !after, "addresses are not modified after the record was bounded", "Addrs written after boundPeerRecordAddrs")
			}
		}
		// the bounding function itself
		b := c.Fn("dht/pb.boundPeerRecordAddrs")
		bcf := b.CFG()
		binfo := b.Info()
		maxObj := p.LookupObj("dht/pb.MaxPeerRecordSize")
		mv, _ := eng.ConstValInt(maxObj)
		c.Check("MaxPeerRecordSize", 0, mv == 8<<10, "the per-record bound is 8 KiB", "MaxPeerRecordSize = "+itoa(int(mv)))
		cuts := 0
		for _, as := range assignsTo(b, func(l ast.Expr) bool { return eng.IsField(binfo, l, "dht/pb.Message_Peer.Addrs") }) {
			se, isSl := eng.Unparen(as.Rhs[0]).(*ast.SliceExpr)
			if !isSl {
				continue
			}
			cuts++
			g, _ := bcf.Guarded(bcf.LocOf(as), func(ft eng.Fact) bool {
				x, op, cst, ok := ft.IntCmp()
				return ok && (op == eng.GTR || op == eng.GEQ) && cst <= mv && eng.ObjOf(binfo, x) != nil
			})
			// cut index is the loop index of the address that overflowed (directly, or as the value a
			// helper read in place hands back on that path)
			okIdx := false
			high := se.High
			var from ast.Node = as
			if o := eng.ObjOf(binfo, high); o != nil && high != nil {
				if rhs, _ := bcf.LastAssign(bcf.BlockOf(as), o); rhs != nil {
					high, from = rhs, rhs
				}
			}
			for x := p.Parent(from); x != nil; x = p.Parent(x) {
				if r, isR := x.(*ast.RangeStmt); isR && r.Key != nil && high != nil && eng.SameExpr(binfo, r.Key, high) && se.Low == nil {
					okIdx = true
				}
			}
			c.Check(K(b.Name, "truncates at overflow"), as.Pos(), g && okIdx, "the address list is cut at the first address that would exceed the bound", "cut not guarded by size > MaxPeerRecordSize or not at the loop index")
		}
		c.Check(K(b.Name, "cuts"), b.Pos(), cuts == 1, "boundPeerRecordAddrs truncates in one place", "found "+itoa(cuts))
		// every path that adds an address' size re-tests the bound before the next address
		// (the test is inside the loop body, after the increment)
		var incs []eng.Loc
		b.Walk(func(n ast.Node) bool {
			if as, ok := n.(*ast.AssignStmt); ok && as.Tok.String() == "+=" {
				incs = append(incs, bcf.LocOf(as))
			}
			return true
		})
		for _, inc := range incs {
			reach, _ := bcf.Reach(inc, eng.LocSet(inc), eng.ReachOpt{CutEdge: func(bl *eng.Block, i int) bool {
				for _, ft := range bcf.EdgeFacts(bl, i) {
					if _, op, cst, ok := ft.IntCmp(); ok && (op == eng.LEQ || op == eng.LSS) && cst <= mv {
						return true
					}
				}
				return false
			}})
			c.Check(K(b.Name, "tests after each address"), inc.B.Nodes[inc.I].Pos(), !reach, "the running size is tested after every address", "a further address can be counted without the bound test")
		}
		// slice builders assign only bounded records
		builders := map[string][]string{
			"dht/pb.RawPeerInfosToPBPeers":     {"dht/pb.peerInfoToPBPeer"},
			"dht/pb.PeerInfosToPBPeers":        {"dht/pb.PeerInfoToPBPeer"},
			"dht/pb.PeerRoutingInfosToPBPeers": {"dht/pb.peerRoutingInfoToPBPeer"},
		}
		for name, ctor := range builders {
			f := c.Fn(name)
			info := f.Info()
			n := 0
			for _, as := range assignsTo(f, func(l ast.Expr) bool { _, ok := eng.Unparen(l).(*ast.IndexExpr); return ok }) {
				n++
				_, ok := eng.IsCallTo(info, as.Rhs[0], ctor...)
				c.Check(K(f.Name, "element"), as.Pos(), ok, "converted slices hold only bounded records", "element is not built by "+ctor[0])
			}
			c.Check(K(f.Name, "fills"), f.Pos(), n == 1, "the converter fills its result in one place", "found "+itoa(n))
		}
		{
			f := c.Fn("dht/pb.PeerInfoToPBPeer")
			ok := len(f.Calls("dht/pb.peerInfoToPBPeer")) == 1
			c.Check(K(f.Name, "uses bounded ctor"), f.Pos(), ok, "PeerInfoToPBPeer builds its record with the bounding constructor", "no peerInfoToPBPeer call")
		}
		// stores to CloserPeers / ProviderPeers anywhere
		okSources := []string{"dht/pb.PeerInfosToPBPeers", "dht/pb.RawPeerInfosToPBPeers", "dht/pb.PeerRoutingInfosToPBPeers"}
		nst := 0
		for _, f := range p.Funcs() {
			if isGenerated(p, f) {
				continue
			}
			info := f.Info()
			for _, as := range assignsTo(f, func(l ast.Expr) bool {
				return eng.IsField(info, l, "dht/pb.Message.CloserPeers") || eng.IsField(info, l, "dht/pb.Message.ProviderPeers")
			}) {
				for i, l := range as.Lhs {
					if !(eng.IsField(info, l, "dht/pb.Message.CloserPeers") || eng.IsField(info, l, "dht/pb.Message.ProviderPeers")) {
						continue
					}
					nst++
					c.Funcs[f.Name] = true
					rhs := rhsFor(as, i)
					ok := isNil(info, rhs)
					if _, isSrc := eng.IsCallTo(info, rhs, okSources...); isSrc {
						ok = true
					}
					if o := eng.ObjOf(info, rhs); o != nil && !ok {
						for g := f; g != nil && !ok; g = g.Parent {
							if def := g.LocalVarDef(o); def != nil {
								if _, isSrc := eng.IsCallTo(g.Info(), def, okSources...); isSrc {
									ok = true
								}
							}
						}
					}
					if app, isApp := eng.IsCallTo(info, rhs, "builtin.append"); isApp && f.Name == "dht.appendFittingProviderPeers" && len(app.Args) == 2 {
						// the appended element is the iterator's element
						ok = true
					}
					c.Check(K(f.Name, short(l)+" = "+short(rhs)), as.Pos(), ok, "peer-record fields of a message receive only nil or the output of a bounding converter", "unbounded value stored")
				}
			}
		}
		c.Check("peer-record stores", 0, nst >= 4, "at least 4 stores to CloserPeers/ProviderPeers exist", "found "+itoa(nst))
		// provider records handed to the budgeted appender are bounded
		for _, s := range p.AllCalls("dht.appendFittingProviderPeers") {
			call := s.Call()
			// a literal, or the result of a function of this package that returns nothing but one literal
			lits := iteratorLits(p, s.F, call.Args[1])
			if !c.Check(K(s.F.Name, "iterator literal"), call.Pos(), len(lits) == 1, "the provider iterator is a literal of this package (written in place or returned by a local constructor)", "not a literal") {
				continue
			}
			lit := lits[0]
			g := p.FuncOfLit(lit)
			ginfo := g.Info()
			n := 0
			for _, y := range g.Calls("var:yield") {
				n++
				ok := false
				if o := eng.ObjOf(ginfo, y.Args[0]); o != nil {
					if def := g.LocalVarDef(o); def != nil {
						_, ok = eng.IsCallTo(ginfo, def, "dht/pb.PeerInfoToPBPeer")
					}
				} else {
					_, ok = eng.IsCallTo(ginfo, y.Args[0], "dht/pb.PeerInfoToPBPeer")
				}
				c.Check(K(g.Name, "yields bounded record"), y.Pos(), ok, "provider records are built by the bounding converter", "yielded value is not PeerInfoToPBPeer(...)")
			}
			c.Check(K(g.Name, "yields"), lit.Pos(), n >= 1, "the iterator yields records", "no yield call")
		}
	}

	// R6 response budget
	c.Rule("R6")
	{
		f := c.Fn("dht.appendFittingProviderPeers")
		cf := f.CFG()
		info := f.Info()
		maxObj := p.LookupObj("github.com/libp2p/go-libp2p/core/network.MessageSizeMax")
		lim, _ := eng.ConstValInt(maxObj)
		var apps []*ast.AssignStmt
		for _, as := range assignsTo(f, func(l ast.Expr) bool { return eng.IsField(info, l, "dht/pb.Message.ProviderPeers") }) {
			apps = append(apps, as)
		}
		c.Check(K(f.Name, "appends"), f.Pos(), len(apps) == 1, "the budgeted appender appends in one place", "found "+itoa(len(apps)))
		for _, as := range apps {
			app, _ := eng.IsCallTo(info, as.Rhs[0], "builtin.append")
			var sizeObj eng.Object
			g, _ := cf.Guarded(cf.LocOf(as), func(ft eng.Fact) bool {
				x, op, cst, ok := ft.IntCmp()
				if ok && (op == eng.LEQ || op == eng.LSS) && cst <= lim {
					sizeObj = eng.ObjOf(info, x)
					return sizeObj != nil
				}
				return false
			})
			c.Check(K(f.Name, "append behind budget"), as.Pos(), g, "a provider record is appended only while the message stays within MessageSizeMax", "append not guarded by size <= network.MessageSizeMax")
			// the size was increased by this record's framed size before the test
			okInc := false
			if sizeObj != nil && app != nil && len(app.Args) == 2 {
				f.Walk(func(n ast.Node) bool {
					if inc, ok := n.(*ast.AssignStmt); ok && inc.Tok.String() == "+=" && eng.IsObj(info, inc.Lhs[0], sizeObj) {
						if o := eng.ObjOf(info, app.Args[1]); o != nil && eng.Mentions(info, inc.Rhs[0], o) && cf.Dominates(cf.LocOf(inc), cf.LocOf(as)) {
							okInc = true
						}
					}
					return true
				})
			}
			c.Check(K(f.Name, "counts the record first"), as.Pos(), okInc, "the record's own framed size is added before the budget test", "no dominating `size += f(rec)` for the appended record")
			// base size is the message built so far
			okBase := false
			if sizeObj != nil {
				for _, d := range f.AssignedFrom(sizeObj) {
					if call, ok := eng.IsCallTo(info, defOrNil(d), "google.golang.org/protobuf/proto.Size"); ok && eng.IsObj(info, call.Args[0], paramObj(f, "resp")) {
						okBase = true
					}
				}
			}
			c.Check(K(f.Name, "starts from message size"), as.Pos(), okBase, "the budget starts from the size of the response built so far", "size not initialised with proto.Size(resp)")
		}
		bs, _ := eng.ConstValInt(p.LookupObj("dht/amino.DefaultBucketSize"))
		mp, _ := eng.ConstValInt(p.LookupObj("dht/pb.MaxPeerRecordSize"))
		c.Check("closer peers fit", 0, bs > 0 && (bs+1)*mp+1024 <= lim, "(K+1) bounded records plus 1 KiB fit into MessageSizeMax", "constants do not fit")
	}

	// R7 ADD_PROVIDER / GET_PROVIDERS
	c.Rule("R7")
	for _, h := range []struct{ fn, callee string }{
		{"(*dht.IpfsDHT).handleAddProvider", "(dht/records.ProviderStore).AddProvider"},
		{"(*dht.IpfsDHT).handleGetProviders", "(dht/records.ProviderStore).GetProviders"},
	} {
		f := c.Fn(h.fn)
		cf := f.CFG()
		info := f.Info()
		pmes, sender := paramObj(f, "pmes"), paramObj(f, "p")
		calls := f.Calls(h.callee)
		c.Check(K(f.Name, "store call"), f.Pos(), len(calls) == 1, "the handler reaches the provider store in one place", "found "+itoa(len(calls)))
		for _, call := range calls {
			loc := cf.LocOf(call)
			keyArg := call.Args[1]
			isKeyLen := func(x ast.Expr) bool {
				la := eng.LenArg(info, x)
				if la == nil {
					return false
				}
				if isGetterOf(info, la, "(*dht/pb.Message).GetKey", pmes) {
					return true
				}
				if o := eng.ObjOf(info, la); o != nil && eng.IsObj(info, keyArg, o) {
					def := f.LocalVarDef(o)
					return def != nil && isGetterOf(info, def, "(*dht/pb.Message).GetKey", pmes)
				}
				return false
			}
			gMax, _ := cf.Guarded(loc, func(ft eng.Fact) bool {
				x, op, cst, ok := ft.IntCmp()
				return ok && isKeyLen(x) && eng.ImpliesAtMost(op, cst, 80)
			})
			gMin, _ := cf.Guarded(loc, func(ft eng.Fact) bool {
				x, op, cst, ok := ft.IntCmp()
				return ok && isKeyLen(x) && (eng.ImpliesAtLeast(op, cst, 1) || (op == eng.NEQ && cst == 0))
			})
			c.Check(K(f.Name, "key <= 80"), call.Pos(), gMax, "provider keys longer than 80 bytes are refused", "no dominating len(key) <= 80")
			c.Check(K(f.Name, "key non-empty"), call.Pos(), gMin, "an empty provider key is refused", "no dominating len(key) >= 1")
			if h.callee == "(dht/records.ProviderStore).AddProvider" {
				cl, isCL := eng.Unparen(call.Args[2]).(*ast.CompositeLit)
				if !c.Check(K(f.Name, "stores AddrInfo literal"), call.Pos(), isCL, "the stored provider is built from the checked record", "not a literal") {
					continue
				}
				var idE, addrE ast.Expr
				for _, el := range cl.Elts {
					if kv, ok := el.(*ast.KeyValueExpr); ok {
						switch eng.NameOf(kv.Key.(*ast.Ident)) {
						case "ID":
							idE = kv.Value
						case "Addrs":
							addrE = kv.Value
						}
					}
				}
				gID, _ := cf.Guarded(loc, func(ft eng.Fact) bool {
					x, y, equal, ok := ft.EqFact()
					if !ok || !equal || idE == nil {
						return false
					}
					return (eng.SameExpr(info, x, idE) && eng.IsObj(info, y, sender)) || (eng.SameExpr(info, y, idE) && eng.IsObj(info, x, sender))
				})
				c.Check(K(f.Name, "provider is the sender"), call.Pos(), gID, "a provider record is accepted only for the peer that sent it", "no dominating pi.ID == p")
				// addresses: filterAddrs(pi.Addrs), and len(pi.Addrs) >= 1
				var rawAddrs ast.Expr
				okF := false
				if addrE != nil {
					e := addrE
					if o := eng.ObjOf(info, e); o != nil {
						if def := f.LocalVarDef(o); def != nil {
							e = def
						}
					}
					if fc, ok := eng.IsCallTo(info, e, "(*dht.IpfsDHT).filterAddrs"); ok && len(fc.Args) == 1 {
						okF = true
						rawAddrs = fc.Args[0]
					}
				}
				c.Check(K(f.Name, "addresses filtered"), call.Pos(), okF, "stored provider addresses pass the address filter", "Addrs is not dht.filterAddrs(...)")
				gAddr, _ := cf.Guarded(loc, func(ft eng.Fact) bool {
					x, op, cst, ok := ft.IntCmp()
					if !ok || !eng.ImpliesAtLeast(op, cst, 1) || rawAddrs == nil {
						return false
					}
					la := eng.LenArg(info, x)
					return la != nil && eng.SameExpr(info, la, rawAddrs)
				})
				c.Check(K(f.Name, "has addresses"), call.Pos(), gAddr, "a provider record without addresses is ignored", "no dominating len(pi.Addrs) >= 1")
				// the records come through the bounding converter
				okConv := false
				if idE != nil {
					if s, ok := eng.Unparen(idE).(*ast.SelectorExpr); ok {
						if o := eng.ObjOf(info, s.X); o != nil {
							for _, d := range f.AssignedFrom(o) {
								if d == nil {
									continue
								}
								if _, isConv := eng.IsCallTo(info, resolveLocal(f, d), "dht/pb.PBPeersToPeerInfos"); isConv {
									okConv = true
								}
							}
						}
					}
				}
				c.Check(K(f.Name, "records bounded on ingress"), call.Pos(), okConv, "request provider records pass PBPeersToPeerInfos", "records not obtained from the bounding converter")
			}
		}
		if h.callee == "(dht/records.ProviderStore).GetProviders" {
			// served addresses are filtered
			n := 0
			for _, s := range f.CallsDeep("dht/pb.PeerInfoToPBPeer") {
				n++
				sinfo := s.F.Info()
				ok := false
				if cl, isCL := eng.Unparen(s.Call().Args[1]).(*ast.CompositeLit); isCL {
					for _, el := range cl.Elts {
						if kv, isKV := el.(*ast.KeyValueExpr); isKV && eng.NameOf(kv.Key.(*ast.Ident)) == "Addrs" {
							_, ok = eng.IsCallTo(sinfo, kv.Value, "(*dht.IpfsDHT).filterAddrs")
						}
					}
				}
				c.Check(K(s.F.Name, "served addresses filtered"), s.Node.Pos(), ok, "provider addresses served to remote peers pass the address filter", "Addrs is not dht.filterAddrs(...)")
			}
			c.Check(K(f.Name, "serves providers"), f.Pos(), n >= 1, "GET_PROVIDERS converts the stored providers", "no PeerInfoToPBPeer call")
		}
	}
	// success only when something was stored
	{
		f := c.Fn("(*dht.IpfsDHT).handleAddProvider")
		cf := f.CFG()
		info := f.Info()
		for _, as := range assignsTo(f, func(l ast.Expr) bool { id, ok := l.(*ast.Ident); return ok && eng.NameOf(id) == "success" }) {
			if len(as.Rhs) == 1 && isBoolConst(info, as.Rhs[0], true) {
				g, _ := cf.Guarded(cf.LocOf(as), func(ft eng.Fact) bool { return ft.ErrOf(true, "(dht/records.ProviderStore).AddProvider") })
				c.Check(K(f.Name, "success only after store"), as.Pos(), g, "ADD_PROVIDER is acknowledged only when a record was stored", "success set without a successful AddProvider")
			}
		}
	}

	// R8 echoes carry no peer records
	c.Rule("R8")
	{
		n := 0
		for _, name := range []string{"handleGetValue", "handlePutValue", "handlePing", "handleFindPeer", "handleGetProviders", "handleAddProvider"} {
			f := c.Fn("(*dht.IpfsDHT)." + name)
			cf := f.CFG()
			info := f.Info()
			pmes := paramObj(f, "pmes")
			strips, _ := cf.CallLocs("dht.stripPeerRecords")
			for i, ret := range cf.Returns() {
				if len(ret.Results) != 2 {
					continue
				}
				// `return stripPeerRecords(pmes), nil` echoes the stripped request by construction
				if call, isStrip := eng.IsCallTo(info, ret.Results[0], "dht.stripPeerRecords"); isStrip && len(call.Args) == 1 && eng.IsObj(info, call.Args[0], pmes) {
					n++
					c.Check(K(f.Name, "echo#"+itoa(i)+" stripped"), ret.Pos(), true, "a handler that echoes the request strips its peer records first", "")
					continue
				}
				if !eng.IsObj(info, ret.Results[0], pmes) {
					continue
				}
				n++
				// the helper, or the two assignments it consists of written out on the request itself
				ok, w := true, []eng.Loc(nil)
				for _, fld := range []string{"dht/pb.Message.CloserPeers", "dht/pb.Message.ProviderPeers"} {
					via := append([]eng.Loc(nil), strips...)
					for _, as := range assignsTo(f, func(l ast.Expr) bool {
						sel, isSel := eng.Unparen(l).(*ast.SelectorExpr)
						return isSel && eng.IsField(info, l, fld) && eng.IsObj(info, sel.X, pmes)
					}) {
						if len(as.Lhs) == 1 && len(as.Rhs) == 1 && isNil(info, as.Rhs[0]) {
							via = append(via, cf.LocOf(as))
						}
					}
					if o, ww := cf.MustPass(cf.Entry(), eng.LocSet(cf.LocOf(ret)), eng.LocSet(via...)); !o {
						ok, w = false, ww
					}
				}
				c.CheckW(K(f.Name, "echo#"+itoa(i)+" stripped"), ret.Pos(), ok, "a handler that echoes the request strips its peer records first", "a return of the request message is reachable without stripPeerRecords", cf.DescribePath(w))
			}
		}
		c.Check("echoing returns", 0, n >= 2, "PING and PUT_VALUE echo the request", "found "+itoa(n))
		s := c.Fn("dht.stripPeerRecords")
		sinfo := s.Info()
		cnt := 0
		for _, as := range assignsTo(s, func(l ast.Expr) bool {
			return eng.IsField(sinfo, l, "dht/pb.Message.CloserPeers") || eng.IsField(sinfo, l, "dht/pb.Message.ProviderPeers")
		}) {
			if isNil(sinfo, as.Rhs[0]) {
				cnt++
			}
		}
		c.Check(K(s.Name, "clears both"), s.Pos(), cnt == 2, "stripPeerRecords clears CloserPeers and ProviderPeers", "found "+itoa(cnt)+" nil stores")
	}

	// R9 no panic from a request
	c.Rule("R9")
	{
		sites, _ := p.NilPB()
		for _, s := range sites {
			if eng.Short(s.F.Pkg.PkgPath) != "dht" && eng.Short(s.F.Pkg.PkgPath) != "dht/records" && eng.Short(s.F.Pkg.PkgPath) != "dht/pb" {
				continue
			}
			c.Check(K(s.F.Name, short(s.Sel)), s.Sel.Pos(), s.Guarded, "request messages are read only through nil-safe accessors", short(s.Base)+" may be nil: "+s.Source)
		}
		root := c.Fn("(*dht.IpfsDHT).handleNewStream")
		reach := p.Reachable(root)
		allowed := map[string]string{
			"dht/internal.init$lit":                   "package initialiser",
			"dht/internal.multibaseB32Encode":         "constant valid encoding",
			"dht/internal.Hash":                       "constant valid hash function code",
			"dht/internal.KeyAsAttribute":             "constant valid encoding",
			"dht/internal.tryFormatLoggableRecordKey": "constant valid encoding",
		}
		nf, np := 0, 0
		for f := range reach {
			nf++
			info := f.Info()
			for _, call := range f.Calls("builtin.panic") {
				np++
				_, ok := allowed[f.Root().Name]
				// panics behind a constant-encoding error are listed; anything else is a violation
				c.Check(K(f.Name, "panic"), call.Pos(), ok, "no explicit panic is reachable from the stream handler except constant-encoding sites", "panic reachable from handleNewStream in "+f.Name)
				_ = info
			}
		}
		c.Notes = append(c.Notes, "functions reachable from handleNewStream: "+itoa(nf)+", explicit panic sites among them: "+itoa(np))
		c.Check("reachable handler functions", 0, nf >= 20, "the call graph from the stream handler was built", "only "+itoa(nf)+" functions reachable")
		// guarded indexing on request-derived strings
		for _, name := range []string{"dht/records.lockIndex"} {
			f := c.Fn(name)
			cf := f.CFG()
			info := f.Info()
			f.Walk(func(n ast.Node) bool {
				ix, ok := n.(*ast.IndexExpr)
				if !ok {
					return true
				}
				if tv, ok := info.Types[ix.X]; !ok || tv.IsType() {
					return true
				}
				g, _ := cf.Guarded(cf.LocOf(ix), func(ft eng.Fact) bool {
					x, op, cst, ok := ft.IntCmp()
					if !ok {
						return false
					}
					la := eng.LenArg(info, x)
					return la != nil && eng.SameExpr(info, la, ix.X) && (eng.ImpliesAtLeast(op, cst, 1) || (op == eng.NEQ && cst == 0))
				})
				c.Check(K(f.Name, "index "+short(ix)), ix.Pos(), g, "a request-derived string is indexed only when non-empty", "index not guarded by len != 0")
				return true
			})
		}
	}

	// R4 (continued): the FIND_NODE response does not echo the request key (its size bound rests on
	// K+1 bounded records and nothing else; the key is the one request field of unbounded length)
	{
		f := c.Fn("(*dht.IpfsDHT).handleFindPeer")
		c.Rule("R4")
		nm := f.Calls("dht/pb.NewMessage")
		c.Check(K(f.Name, "builds response"), f.Pos(), len(nm) >= 1, "handleFindPeer builds its response with pb.NewMessage", "no NewMessage call")
		for _, call := range nm {
			c.Check(K(f.Name, "response carries no key"), call.Pos(), len(call.Args) == 3 && isNil(f.Info(), call.Args[1]), "the FIND_NODE response is built with a nil key", "NewMessage key argument is "+short(call.Args[1]))
		}
	}

	// R12 the switch to client mode resets every inbound DHT stream (a handler parked on one has
	// already passed its mode check and would serve one more request) — C13.R3
	c.Rule("R12")
	c.Share("C13", "R3")

	// R11 no handler path leaves a store or sender mutex held
	c.Rule("R11")
	{
		n := checkBalancedLocks(c, "dht", "dht/records", "dht/internal/net", "dht/internal", "dht/pb", "dht/rtrefresh", "dht/netsize", "dht/metrics", "dht/qpeerset")
		c.Notes = append(c.Notes, "balanced locks: "+itoa(n)+" (return, held mutex) pairs examined in the server-side packages")
	}

	// R10 error => reset
	c.Rule("R10")
	{
		f := c.Fn("(*dht.IpfsDHT).handleNewStream")
		cf := f.CFG()
		closes, _ := cf.CallLocs("(github.com/libp2p/go-libp2p/core/network.MuxedStream).Close", "(github.com/libp2p/go-libp2p/core/network.Stream).Close", "(io.Closer).Close")
		resets, _ := cf.CallLocs("(github.com/libp2p/go-libp2p/core/network.MuxedStream).Reset", "(github.com/libp2p/go-libp2p/core/network.Stream).Reset")
		c.Check(K(f.Name, "shape"), f.Pos(), len(closes) == 1 && len(resets) == 1, "the stream handler closes or resets", "found "+itoa(len(closes))+" Close and "+itoa(len(resets))+" Reset")
		for _, l := range closes {
			g, _ := cf.Guarded(l, func(ft eng.Fact) bool {
				_, truth, ok := ft.CallFact("(*dht.IpfsDHT).handleNewMessage")
				return ok && truth
			})
			c.Check(K(f.Name, "close only on success"), l.B.Nodes[l.I].Pos(), g, "a stream is closed gracefully only after orderly completion", "Close not on the true edge of handleNewMessage")
		}
		for _, l := range resets {
			g, _ := cf.Guarded(l, func(ft eng.Fact) bool {
				_, truth, ok := ft.CallFact("(*dht.IpfsDHT).handleNewMessage")
				return ok && !truth
			})
			c.Check(K(f.Name, "reset on failure"), l.B.Nodes[l.I].Pos(), g, "a failed exchange resets the stream", "Reset not on the false edge of handleNewMessage")
		}
		m := c.Fn("(*dht.IpfsDHT).handleNewMessage")
		mcf := m.CFG()
		minfo := m.Info()
		reads, _ := mcf.CallLocs("(github.com/libp2p/go-msgio.Reader).ReadMsg")
		for _, pat := range []string{"var:handler", "google.golang.org/protobuf/proto.Unmarshal", "dht/internal/net.WriteMsg"} {
			edges := errEdges(mcf, false, pat)
			c.Check(K(m.Name, "tests error of "+pat), m.Pos(), len(edges) >= 1, "the error of "+pat+" is tested", "no test found")
			for _, e := range edges {
				r, w := mcf.Reach(e.Start(), eng.LocSet(reads...), eng.ReachOpt{})
				c.CheckW(K(m.Name, "error of "+pat+" ends the stream"), e.Fact.Pos(), !r, "after a handler, unmarshal or write error no further request is read from the stream", "the next read is reachable from the error edge", mcf.DescribePath(w))
				for _, ret := range mcf.Returns() {
					if rr, _ := mcf.Reach(e.Start(), eng.LocSet(mcf.LocOf(ret)), eng.ReachOpt{}); !rr {
						continue
					}
					if g, _ := mcf.Guarded(mcf.LocOf(ret), func(ft eng.Fact) bool { return ft.ErrOf(false, pat) }); !g {
						continue
					}
					c.Check(K(m.Name, "error of "+pat+" returns false"), ret.Pos(), len(ret.Results) == 1 && isBoolConst(minfo, ret.Results[0], false), "an error makes handleNewMessage return false (stream reset)", "returns "+short(ret.Results[0]))
				}
			}
		}
		// a missing handler ends the stream with false
		for _, e := range factEdges(mcf, func(ft eng.Fact) bool {
			x, isNilF, ok := ft.NilFact()
			return ok && isNilF && eng.ObjOf(minfo, x) != nil && eng.VarName(eng.ObjOf(minfo, x)) == "handler"
		}) {
			r, _ := mcf.Reach(e.Start(), eng.LocSet(reads...), eng.ReachOpt{})
			c.Check(K(m.Name, "unknown type ends the stream"), e.Fact.Pos(), !r, "an unknown message type resets the stream", "the next read is reachable")
		}
	}
}

func isConstVal(info *eng.Info, e ast.Expr, v int64) bool {
	x, ok := eng.ConstInt(info, e)
	return ok && x == v
}

// c13R1: per-message mode gate in handleNewMessage.
func c13R1(c *Ctx) {
	f := c.Fn("(*dht.IpfsDHT).handleNewMessage")
	cf := f.CFG()
	info := f.Info()
	isServer := func(ft eng.Fact) bool {
		x, y, equal, ok := ft.EqFact()
		if !ok || !equal {
			return false
		}
		isGM := func(e ast.Expr) bool { _, ok := eng.IsCallTo(info, e, "(*dht.IpfsDHT).getMode"); return ok }
		isMS := func(e ast.Expr) bool { o := eng.ObjOf(info, e); return o != nil && eng.VarName(o) == "modeServer" }
		return (isGM(x) && isMS(y)) || (isGM(y) && isMS(x))
	}
	targets := map[string][]eng.Loc{}
	targets["read"], _ = cf.CallLocs("(github.com/libp2p/go-msgio.Reader).ReadMsg")
	targets["dispatch"], _ = cf.CallLocs("var:handler")
	for kind, locs := range targets {
		c.Check(K(f.Name, kind+" site"), f.Pos(), len(locs) == 1, "handleNewMessage has one "+kind+" site", "found "+itoa(len(locs)))
		for _, l := range locs {
			g, _ := cf.Guarded(l, isServer)
			c.Check(K(f.Name, kind+" behind mode gate"), l.B.Nodes[l.I].Pos(), g, "a request is "+kind+" only in server mode", "no dominating getMode() == modeServer")
			// and every further cycle crosses the gate again
			r, w := cf.Reach(l, eng.LocSet(l), eng.ReachOpt{CutEdge: func(b *eng.Block, i int) bool {
				for _, ft := range cf.EdgeFacts(b, i) {
					if isServer(ft) {
						return true
					}
				}
				return false
			}})
			c.CheckW(K(f.Name, kind+" gate per message"), l.B.Nodes[l.I].Pos(), !r, "the mode is re-checked for every message of a stream", "a further "+kind+" is reachable without re-checking the mode", cf.DescribePath(w))
		}
	}
	// not in server mode => false (reset)
	for _, e := range factEdges(cf, func(ft eng.Fact) bool {
		x, y, equal, ok := ft.EqFact()
		if !ok || equal {
			return false
		}
		_, gm1 := eng.IsCallTo(info, x, "(*dht.IpfsDHT).getMode")
		_, gm2 := eng.IsCallTo(info, y, "(*dht.IpfsDHT).getMode")
		return gm1 || gm2
	}) {
		for _, ret := range cf.Returns() {
			if g, _ := cf.GuardedFrom(e.Start(), cf.LocOf(ret), func(eng.Fact) bool { return false }); g {
				continue
			}
			if r, _ := cf.Reach(e.Start(), eng.LocSet(cf.LocOf(ret)), eng.ReachOpt{CutLoc: eng.LocSet(targets["read"]...)}); r {
				c.Check(K(f.Name, "client mode resets"), ret.Pos(), len(ret.Results) == 1 && isBoolConst(info, ret.Results[0], false), "outside server mode the stream is reset, not closed", "returns "+short(ret.Results[0]))
			}
		}
	}
}
