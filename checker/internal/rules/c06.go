package rules

import (
	"go/ast"

	"kadcheck/internal/eng"
)

func init() {
	register(&Property{
		ID:  "C06",
		Run: runC06,
		Decided: "the lookup of PutValue is reached only on the nil-error edge of the local store, which stores MakePutRecord(key, value) under key, and the same record goes to every peer (R1); the send loops range over exactly the slice the lookup returned (result.peers, never the list with failed peers), have no early exit, start one worker per peer which only logs its error (R2); " +
			"every ADD_PROVIDER built by the DHT names {self, FilteredAddrs()}, the host's raw addresses are read only inside FilteredAddrs (R3); the local provider record is added before any broadcast (R4); no announcement without addresses (R5); corrective puts go to the result peers not known to hold the best value, that set is rebuilt whenever best changes, and none are sent after an abort (R6); optimistic provide schedules each peer once, under its lock, and the context of its asynchronous puts is not cancelled by returning (R7). Added after the seeded rounds: every return of PutValue that may carry a nil error is dominated by the lookup (R1). Round 4: the optimistic provide's cancellation watcher ends with the function (R8 = C03.R11); no network wait happens while the sender-map lock may be held (R9, may-lockset); the corrective puts of a completed value search run under the client's lifetime context and are not cancelled by the goroutine that starts them (R6, defect D18).",
		NotDecided: "which peers the lookup returns; delivery of the messages themselves.",
	})
}

// c06PutContext: the context governing the asynchronous ADD_PROVIDER RPCs of an optimistic
// provide outlives the function: in the function's own flow it is cancelled only when the
// function fails before any RPC was started.
func c06PutContext(c *Ctx) {
	f := c.Fn("(*dht.IpfsDHT).optimisticProvide")
	info := f.Info()
	cf := f.CFG()
	var cancel eng.Object
	for _, as := range assignsTo(f, func(l ast.Expr) bool { return true }) {
		if call, ok := eng.IsCallTo(info, as.Rhs[0], "context.WithTimeout", "context.WithCancel"); ok && len(as.Lhs) == 2 && len(call.Args) >= 1 && eng.IsField(info, call.Args[0], "dht.IpfsDHT.ctx") {
			cancel = eng.ObjOf(info, as.Lhs[1])
		}
	}
	if !c.Check(K(f.Name, "put context"), f.Pos(), cancel != nil, "the puts run under a context derived from the DHT's lifetime context, not the caller's", "no context.WithTimeout(dht.ctx, ...) found") {
		return
	}
	f.Walk(func(n ast.Node) bool {
		switch x := n.(type) {
		case *ast.DeferStmt:
			if eng.CalleeObj(info, x.Call) == cancel {
				c.Check(K(f.Name, "no deferred cancel of the puts"), x.Pos(), false, "returning from Provide does not cancel the puts still in flight (the function returns after a threshold of them, by design)", "the put context's cancel function is deferred")
			}
			return false
		case *ast.CallExpr:
			if eng.CalleeObj(info, x) == cancel {
				g, _ := cf.Guarded(cf.LocOf(x), func(ft eng.Fact) bool { return ft.ErrOf(false, "(*dht.IpfsDHT).newOptimisticState") })
				c.Check(K(f.Name, "cancel only before any put"), x.Pos(), g, "in its own flow the function cancels the put context only when it fails before starting any put", "cancel reachable after puts may have started")
			}
		}
		return true
	})
}

func runC06(c *Ctx) {
	p := c.P
	// R1 local first, same record
	c.Rule("R1")
	for _, fn := range []string{"(*dht.IpfsDHT).PutValue", "(*dht/fullrt.FullRT).PutValue"} {
		f := c.Fn(fn)
		info := f.Info()
		cf := f.CFG()
		recv := eng.TypeName(info.Defs[f.Decl.Recv.List[0].Names[0]].Type())
		key, value := paramObj(f, "key"), paramObj(f, "value")
		storePats := []string{"(*" + recv + ").putLocal", "(*dht/records.ValueStore).Put"}
		pl := f.Calls(storePats...)
		gcp := f.Calls("(*" + recv + ").GetClosestPeers")
		if !c.Check(K(f.Name, "shape"), f.Pos(), len(pl) == 1 && len(gcp) == 1, "PutValue stores locally once and looks up once", "found "+itoa(len(pl))+" / "+itoa(len(gcp))) {
			continue
		}
		g, _ := cf.Guarded(cf.LocOf(gcp[0]), func(ft eng.Fact) bool { return ft.ErrOf(true, storePats...) })
		// PutValue reports success only after the lookup ran (no fast path around the network phase)
		for i, ret := range cf.Returns() {
			if len(ret.Results) != 1 {
				continue
			}
			e := ret.Results[0]
			if !isNil(info, e) && knownNonNilError(cf, ret, e) {
				continue
			}
			okAfter := cf.Dominates(cf.LocOf(gcp[0]), cf.LocOf(ret))
			c.Check(K(f.Name, "return#"+itoa(i)+" success only after the network phase"), ret.Pos(), okAfter, "PutValue returns without an error only after it looked up the closest peers and sent them the record (a repeated put of the same value is sent again: it may be a retry of a put that never reached anyone)", "a return that may carry a nil error is reachable without the lookup")
		}
		c.Check(K(f.Name, "lookup only after successful local store"), gcp[0].Pos(), g, "the network phase starts only after the record was stored locally", "GetClosestPeers not on the nil-error edge of putLocal")
		rec := eng.ObjOf(info, pl[0].Args[2])
		okRec := false
		if rec != nil {
			for _, d := range f.AssignedFrom(rec) {
				if mk, ok := eng.IsCallTo(info, defOrNil(d), "github.com/libp2p/go-libp2p-record.MakePutRecord"); ok && len(mk.Args) == 2 && eng.IsObj(info, mk.Args[0], key) && eng.IsObj(info, mk.Args[1], value) {
					okRec = true
				}
			}
			okRec = okRec && len(f.AssignedFrom(rec)) == 1 && eng.IsObj(info, pl[0].Args[1], key)
		}
		c.Check(K(f.Name, "record"), pl[0].Pos(), okRec, "the stored record is MakePutRecord(key, value), stored under key", "record or key argument differs")
		// the same record goes out
		sends := f.CallsDeep("(*dht/pb.ProtocolMessenger).PutValue")
		c.Check(K(f.Name, "sends"), f.Pos(), len(sends) == 1, "PutValue sends the record in one place", "found "+itoa(len(sends)))
		for _, s := range sends {
			c.Check(K(s.F.Name, "same record"), s.Node.Pos(), len(s.Call().Args) == 3 && eng.IsObj(info, s.Call().Args[2], rec), "every peer receives the record that was stored locally", "a different record is sent")
		}
	}

	// R2 every returned peer, failures isolated
	c.Rule("R2")
	{
		type fan struct{ fn, source, sendCallee string }
		for _, fa := range []fan{
			{"(*dht.IpfsDHT).PutValue", "(*dht.IpfsDHT).GetClosestPeers", "(*dht/pb.ProtocolMessenger).PutValue"},
			{"(*dht.IpfsDHT).classicProvide", "(*dht.IpfsDHT).GetClosestPeers", "(*dht/pb.ProtocolMessenger).PutProviderAddrs"},
			{"(*dht.IpfsDHT).updatePeerValues", "param:peers", "(*dht/pb.ProtocolMessenger).PutValue"},
			{"(*dht/fullrt.FullRT).updatePeerValues", "param:peers", "(*dht/pb.ProtocolMessenger).PutValue"},
			{"(*dht.IpfsDHT).optimisticProvide", "field:dht.lookupWithFollowupResult.peers", "(*dht.optimisticState).putProviderRecord"},
		} {
			f := c.Fn(fa.fn)
			info := f.Info()
			// the loop that spawns
			var loops []*ast.RangeStmt
			f.Walk(func(n ast.Node) bool {
				rg, ok := n.(*ast.RangeStmt)
				if !ok {
					return true
				}
				hasGo := false
				ast.Inspect(rg.Body, func(x ast.Node) bool {
					if _, isGo := x.(*ast.GoStmt); isGo {
						hasGo = true
					}
					return true
				})
				if hasGo {
					loops = append(loops, rg)
				}
				return true
			})
			if !c.Check(K(f.Name, "fan-out loop"), f.Pos(), len(loops) == 1, "one loop fans the message out", "found "+itoa(len(loops))) {
				continue
			}
			rg := loops[0]
			okSrc := false
			switch {
			case fa.source == "param:peers":
				okSrc = eng.IsObj(info, rg.X, paramObj(f, "peers"))
			case hasPrefix(fa.source, "field:"):
				rx := eng.ArgExpr(info, rg.X)
				okSrc = eng.IsField(info, rx, fa.source[6:])
				if okSrc {
					// of the lookup this function ran
					s := eng.Unparen(rx).(*ast.SelectorExpr)
					okSrc = false
					for _, d := range f.AssignedFrom(eng.ObjOf(info, s.X)) {
						if _, ok := eng.IsCallTo(info, defOrNil(d), "(*dht.IpfsDHT).runLookupWithFollowup"); ok {
							okSrc = true
						}
					}
				}
			default:
				if o := eng.ObjOf(info, rg.X); o != nil {
					defs := f.AssignedFrom(o)
					okSrc = len(defs) == 1
					if okSrc {
						_, okSrc = eng.IsCallTo(info, defOrNil(defs[0]), fa.source)
					}
				}
			}
			c.Check(K(f.Name, "fans out over the lookup result"), rg.Pos(), okSrc, "the message goes to exactly the peers the lookup returned (no re-slicing, no other list)", "loop ranges over "+short(rg.X))
			early := false
			ast.Inspect(rg.Body, func(n ast.Node) bool {
				switch x := n.(type) {
				case *ast.FuncLit:
					return false
				case *ast.ReturnStmt:
					early = true
				case *ast.BranchStmt:
					if x.Tok.String() == "break" || x.Tok.String() == "goto" {
						early = true
					}
				}
				return true
			})
			c.Check(K(f.Name, "no early exit"), rg.Pos(), !early, "one recipient's outcome never ends the fan-out", "break/return inside the fan-out loop")
			// the worker addresses the loop's peer and drops its error
			var gs *ast.GoStmt
			ast.Inspect(rg.Body, func(n ast.Node) bool {
				if g, ok := n.(*ast.GoStmt); ok {
					gs = g
				}
				return true
			})
			okPeer := false
			// the spawned body: a literal, or a helper that took its place; its parameter is
			// identified with the loop variable it is started with
			var g *eng.Func
			if lit, isLit := eng.Unparen(gs.Call.Fun).(*ast.FuncLit); isLit {
				g = p.FuncOfLit(lit)
			} else if eng.CalleeName(info, gs.Call) != fa.sendCallee {
				if t := p.Func(eng.CalleeName(info, gs.Call)); t != nil && t.IsSpawned() {
					g = t
				}
			}
			if g != nil {
				loopVar := eng.ObjOf(info, rg.Value)
				for _, sc := range g.Calls(fa.sendCallee) {
					if len(sc.Args) >= 2 && loopVar != nil && eng.IsObj(g.Info(), sc.Args[1], loopVar) {
						okPeer = true
					}
				}
				// the error is only logged: no return value, no panic
				c.Check(K(g.Name, "failure isolated"), g.Pos(), g.Type.Results == nil && len(g.Calls("builtin.panic")) == 0, "a recipient's failure stays inside its worker", "worker returns a value or panics")
			} else if eng.CalleeName(info, gs.Call) == fa.sendCallee {
				okPeer = len(gs.Call.Args) == 1 && eng.SameExpr(info, gs.Call.Args[0], rg.Value)
			}
			c.Check(K(f.Name, "worker addresses its peer"), gs.Pos(), okPeer, "each worker sends to the peer of its loop iteration", "peer argument differs")
		}
		// accelerated client: execOnMany over the lookup result
		f := c.Fn("(*dht/fullrt.FullRT).PutValue")
		info := f.Info()
		ex := f.Calls("(*dht/fullrt.FullRT).execOnMany")
		ok := len(ex) == 1 && len(ex[0].Args) == 4
		if ok {
			o := eng.ObjOf(info, ex[0].Args[2])
			defs := f.AssignedFrom(o)
			ok = len(defs) == 1
			if ok {
				_, ok = eng.IsCallTo(info, defOrNil(defs[0]), "(*dht/fullrt.FullRT).GetClosestPeers")
			}
		}
		c.Check(K(f.Name, "fans out over the lookup result"), f.Pos(), ok, "the accelerated PutValue sends to exactly the peers GetClosestPeers returned", "execOnMany peers argument differs")
		c01Closest(c)
	}

	// R3 provider record content
	c.Rule("R3")
	{
		c06ProviderRecordContent(c)
		for _, s := range p.AllCalls("(github.com/libp2p/go-libp2p/core/host.Host).Addrs") {
			if eng.Short(s.F.Pkg.PkgPath) != "dht" {
				continue
			}
			// dht.privRTFilter compares a remote connection's IP with the local public IPs to classify the
			// connection as LAN-local; nothing it reads is advertised or stored (reviewed exception).
			okReader := s.F.Name == "(*dht.IpfsDHT).FilteredAddrs" || s.F.Name == "dht.privRTFilter"
			c.Check(K(s.F.Name, "reads host addresses"), s.Node.Pos(), okReader, "the host's raw address list is read only to be filtered (or to classify a connection in privRTFilter)", "host.Addrs() read in "+s.F.Name)
		}
		c06FilteredAddrs(c)
	}

	// R4 local provider record first
	c.Rule("R4")
	for _, tw := range []struct {
		fn, add string
		bc      []string
	}{
		{"(*dht.IpfsDHT).Provide", "(dht/records.ProviderStore).AddProvider", []string{"(*dht.IpfsDHT).classicProvide", "(*dht.IpfsDHT).optimisticProvide"}},
		{"(*dht/fullrt.FullRT).Provide", "(*dht/records.ProviderManager).AddProvider", []string{"(*dht/fullrt.FullRT).GetClosestPeers"}},
	} {
		f := c.Fn(tw.fn)
		cf := f.CFG()
		info := f.Info()
		adds := f.Calls(tw.add, "(dht/records.ProviderStore).AddProvider")
		if !c.Check(K(f.Name, "adds self"), f.Pos(), len(adds) == 1, "Provide records the local node as provider", "found "+itoa(len(adds))+" AddProvider calls") {
			continue
		}
		okSelf := false
		if cl, isCL := eng.Unparen(adds[0].Args[2]).(*ast.CompositeLit); isCL && len(cl.Elts) == 1 {
			if kv, isKV := cl.Elts[0].(*ast.KeyValueExpr); isKV && eng.NameOf(kv.Key.(*ast.Ident)) == "ID" {
				okSelf = eng.IsField(info, kv.Value, "dht.IpfsDHT.self")
				if call, isCall := eng.IsCallTo(info, kv.Value, "(github.com/libp2p/go-libp2p/core/host.Host).ID"); isCall {
					okSelf = call != nil
				}
			}
		}
		c.Check(K(f.Name, "self record"), adds[0].Pos(), okSelf, "the local record names the local peer", "AddrInfo is not {ID: self}")
		nb := 0
		for _, b := range f.Calls(tw.bc...) {
			nb++
			c.Check(K(f.Name, "local record before "+short(b.Fun)), b.Pos(), cf.Dominates(cf.LocOf(adds[0]), cf.LocOf(b)), "the local provider record is written before anything is announced", "broadcast reachable without the local AddProvider")
		}
		c.Check(K(f.Name, "broadcasts"), f.Pos(), nb >= 1, "Provide with announce broadcasts", "no broadcast call found")
	}

	// R5 no address => no announce
	c.Rule("R5")
	{
		f := c.Fn("(*dht/pb.ProtocolMessenger).PutProviderAddrs")
		info := f.Info()
		cf := f.CFG()
		self := paramObj(f, "self")
		sm := f.Calls("(dht/pb.MessageSender).SendMessage")
		c.Check(K(f.Name, "sends"), f.Pos(), len(sm) == 1, "PutProviderAddrs sends one message", "found "+itoa(len(sm)))
		for _, call := range sm {
			g, _ := cf.Guarded(cf.LocOf(call), func(ft eng.Fact) bool {
				x, op, cst, ok := ft.IntCmp()
				if !ok || !eng.ImpliesAtLeast(op, cst, 1) {
					return false
				}
				la := eng.LenArg(info, x)
				s, isSel := eng.Unparen(defOrNil(la)).(*ast.SelectorExpr)
				return la != nil && isSel && eng.NameOf(s.Sel) == "Addrs" && eng.IsObj(info, s.X, self)
			})
			c.Check(K(f.Name, "needs addresses"), call.Pos(), g, "no ADD_PROVIDER is sent for a node without advertised addresses", "SendMessage not guarded by len(self.Addrs) >= 1")
			// the record carried is built from self
			okRec := false
			for _, as := range assignsTo(f, func(l ast.Expr) bool { return eng.IsField(info, l, "dht/pb.Message.ProviderPeers") }) {
				if conv, ok := eng.IsCallTo(info, as.Rhs[0], "dht/pb.RawPeerInfosToPBPeers"); ok && eng.Mentions(info, conv.Args[0], self) {
					okRec = true
				}
			}
			c.Check(K(f.Name, "carries self"), call.Pos(), okRec, "the message carries the given provider record", "ProviderPeers not built from self")
		}
	}

	// R6 corrective puts
	c.Rule("R6")
	for _, tw := range []string{"(*dht.IpfsDHT)", "(*dht/fullrt.FullRT)"} {
		pv := c.Fn(tw + ".processValues")
		pinfo := pv.Info()
		pcf := pv.CFG()
		best, pwb := resultObj(pv, "best"), resultObj(pv, "peersWithBest")
		var makes []eng.Loc
		for _, as := range assignsTo(pv, func(l ast.Expr) bool { return eng.IsObj(pinfo, l, pwb) }) {
			if _, isMk := eng.IsCallTo(pinfo, as.Rhs[0], "builtin.make"); isMk {
				makes = append(makes, pcf.LocOf(as))
			}
		}
		var comms []eng.Loc
		for _, sel := range pv.Selects() {
			for _, sc := range eng.SelectCases(pinfo, sel) {
				if sc.Kind == "recv" {
					comms = append(comms, pcf.LocOf(sc.Clause.Comm))
				}
			}
		}
		for _, as := range assignsTo(pv, func(l ast.Expr) bool { return eng.IsObj(pinfo, l, best) }) {
			okR := len(comms) >= 1
			var wit []eng.Loc
			for _, cm := range comms {
				ok, w := pcf.MustPass(cm, eng.LocSet(pcf.LocOf(as)), eng.LocSet(makes...))
				if !ok {
					okR, wit = false, w
				}
			}
			c.CheckW(K(pv.Name, "holders reset with best"), as.Pos(), okR, "whenever a better value becomes best, the set of peers known to hold the best value starts afresh", "best can change while the holder set keeps peers that answered with the previous value", pcf.DescribePath(wit))
		}
		// holders are recorded for equal and for new best values
		nrec := 0
		for _, as := range assignsTo(pv, func(l ast.Expr) bool {
			ix, ok := eng.Unparen(l).(*ast.IndexExpr)
			return ok && eng.IsObj(pinfo, ix.X, pwb)
		}) {
			nrec++
			_ = as
		}
		c.Check(K(pv.Name, "records holders"), pv.Pos(), nrec >= 2, "peers answering with the best value are recorded (equal value and new best)", "found "+itoa(nrec)+" stores")

		sv := c.Fn(tw + ".SearchValue")
		for _, g := range sv.Lits {
			ginfo := g.Info()
			gcf := g.CFG()
			ups := g.Calls(tw + ".updatePeerValues")
			if len(ups) == 0 {
				continue
			}
			up := ups[0]
			// not after abort / without best
			var abortedObj, bestObj, holders eng.Object
			for _, call := range g.Calls(tw + ".searchValueQuorum") {
				if as, ok := p.Parent(call).(*ast.AssignStmt); ok && len(as.Lhs) == 3 {
					bestObj, holders, abortedObj = eng.ObjOf(ginfo, as.Lhs[0]), eng.ObjOf(ginfo, as.Lhs[1]), eng.ObjOf(ginfo, as.Lhs[2])
				}
			}
			gA, _ := gcf.Guarded(gcf.LocOf(up), func(ft eng.Fact) bool {
				o, truth, isB := ft.BoolVar()
				return isB && !truth && o == abortedObj
			})
			gB, _ := gcf.Guarded(gcf.LocOf(up), func(ft eng.Fact) bool {
				x, isNilF, ok := ft.NilFact()
				return ok && !isNilF && eng.IsObj(ginfo, x, bestObj)
			})
			c.Check(K(g.Name, "no corrective puts after abort"), up.Pos(), gA && gB && abortedObj != nil, "corrective puts are sent only for a search that ended normally with a value", "updatePeerValues not guarded by !aborted && best != nil")
			// the corrective puts outlive the search: updatePeerValues only starts them, so the
			// context they run under must not end when the search's own goroutine or the
			// caller's request does (D18: the accelerated client cancelled it right after the call)
			if len(up.Args) == 4 {
				recvT := tw[2 : len(tw)-1] // "(*pkg.T)" -> "pkg.T"
				var cancels []eng.Object
				var derives func(e ast.Expr, depth int) bool
				derives = func(e ast.Expr, depth int) bool {
					e = eng.Unparen(e)
					if depth > 4 {
						return false
					}
					if eng.IsField(ginfo, e, recvT+".ctx") {
						return true
					}
					o := eng.ObjOf(ginfo, e)
					if o == nil {
						return false
					}
					okAll, n := true, 0
					for h := g; h != nil; h = h.Parent {
						h.Walk(func(x ast.Node) bool {
							as, isAs := x.(*ast.AssignStmt)
							if !isAs || len(as.Rhs) != 1 {
								return true
							}
							for i, l := range as.Lhs {
								if eng.ObjOf(h.Info(), l) != o || i != 0 {
									continue
								}
								n++
								call, isCall := eng.Unparen(as.Rhs[0]).(*ast.CallExpr)
								if !isCall || len(call.Args) == 0 || !derives(call.Args[0], depth+1) {
									okAll = false
									continue
								}
								if len(as.Lhs) == 2 {
									if co := eng.ObjOf(h.Info(), as.Lhs[1]); co != nil {
										cancels = append(cancels, co)
									}
								}
							}
							return true
						})
					}
					return okAll && n >= 1
				}
				okCtx := derives(up.Args[0], 0)
				cancelled := false
				if okCtx {
					g.Walk(func(x ast.Node) bool {
						if call, isCall := x.(*ast.CallExpr); isCall {
							for _, co := range cancels {
								if eng.IsObj(ginfo, call.Fun, co) {
									cancelled = true
								}
							}
						}
						return true
					})
				}
				c.Check(K(g.Name, "corrective puts outlive the search"), up.Pos(), okCtx && !cancelled, "the corrective puts are started under the client's lifetime context (each with its own timeout), not under a context that ends with the search or the caller's request — updatePeerValues returns as soon as it has started them", "the context handed to updatePeerValues is request-bound, or is cancelled by the goroutine that started the puts")
			}
			// arguments: best value, the filtered list
			okArgs := len(up.Args) == 4 && eng.IsObj(ginfo, up.Args[2], bestObj)
			var lst eng.Object
			if okArgs {
				lst = eng.ObjOf(ginfo, up.Args[3])
			}
			napp := 0
			if lst != nil {
				for _, as := range assignsTo(g, func(l ast.Expr) bool { return eng.IsObj(ginfo, l, lst) }) {
					app, isApp := eng.IsCallTo(ginfo, as.Rhs[0], "builtin.append")
					if !isApp {
						continue
					}
					napp++
					var rng *ast.RangeStmt
					for x := p.Parent(as); x != nil; x = p.Parent(x) {
						if r, ok := x.(*ast.RangeStmt); ok {
							rng = r
							break
						}
					}
					okEl := rng != nil && rng.Value != nil && len(app.Args) == 2 && eng.SameExpr(ginfo, app.Args[1], rng.Value)
					if okEl {
						s, isSel := eng.Unparen(rng.X).(*ast.SelectorExpr)
						okEl = isSel && eng.NameOf(s.Sel) == "peers"
					}
					gH, _ := gcf.Guarded(gcf.LocOf(as), func(ft eng.Fact) bool {
						o, truth, isB := ft.BoolVar()
						if !isB || truth {
							return false
						}
						rhs, idx := gcf.LastAssign(ft.B, o)
						ix, isIx := eng.Unparen(defOrNil(rhs)).(*ast.IndexExpr)
						return isIx && idx == 1 && eng.IsObj(ginfo, ix.X, holders) && rng != nil && eng.SameExpr(ginfo, ix.Index, rng.Value)
					})
					c.Check(K(g.Name, "corrective recipients"), as.Pos(), okEl && gH, "corrective puts go to every result peer not known to hold the best value", "recipient list is not `l.peers` minus the holders")
				}
			}
			c.Check(K(g.Name, "corrective put arguments"), up.Pos(), okArgs && napp == 1, "the best value is sent to the filtered recipient list", "arguments differ")
		}
	}

	// R7 optimistic provide schedules each peer once
	c.Rule("R7")
	c06PutContext(c)
	{
		n := 0
		for _, fn := range []string{"(*dht.IpfsDHT).optimisticProvide", "(*dht.optimisticState).stopFn"} {
			f := c.Fn(fn)
			info := f.Info()
			cf := f.CFG()
			li := f.Locks()
			f.Walk(func(x ast.Node) bool {
				gs, ok := x.(*ast.GoStmt)
				if !ok || eng.CalleeName(info, gs.Call) != "(*dht.optimisticState).putProviderRecord" {
					return true
				}
				n++
				peerArg := gs.Call.Args[0]
				held := li.HeldBefore(gs)
				m, isHeld := held["dht.optimisticState.peerStatesLk"]
				c.Check(K(f.Name, "schedule under lock"), gs.Pos(), isHeld && m == eng.LockW, "an ADD_PROVIDER is scheduled with the state lock held", "locks held: "+held.String())
				gNew, _ := cf.Guarded(cf.LocOf(gs), func(ft eng.Fact) bool {
					o, truth, isB := ft.BoolVar()
					if !isB || truth {
						return false
					}
					rhs, idx := cf.LastAssign(ft.B, o)
					ix, isIx := eng.Unparen(defOrNil(rhs)).(*ast.IndexExpr)
					return isIx && idx == 1 && eng.IsField(info, ix.X, "dht.optimisticState.peerStates") && eng.SameExpr(info, ix.Index, peerArg)
				})
				c.Check(K(f.Name, "schedule only unknown peers"), gs.Pos(), gNew, "a peer already scheduled or contacted is not scheduled again", "spawn not guarded by absence from peerStates")
				// the state is recorded before the lock is released / the next peer is examined
				var marks []eng.Loc
				for _, as := range assignsTo(f, func(l ast.Expr) bool {
					ix, ok := eng.Unparen(l).(*ast.IndexExpr)
					return ok && eng.IsField(info, ix.X, "dht.optimisticState.peerStates") && eng.SameExpr(info, ix.Index, peerArg)
				}) {
					marks = append(marks, cf.LocOf(as))
				}
				unl, _ := cf.CallLocs("(*sync.RWMutex).Unlock")
				targets := append(append([]eng.Loc{}, cf.Exits(false)...), unl...)
				targets = append(targets, cf.LocOf(gs))
				ok2, w := cf.MustPass(cf.LocOf(gs), eng.LocSet(targets...), eng.LocSet(marks...))
				c.CheckW(K(f.Name, "mark scheduled"), gs.Pos(), ok2, "the peer is marked scheduled in the same critical section, before any other peer is considered", "the lock can be released (or the next peer examined) without marking the peer", cf.DescribePath(w))
				return true
			})
		}
		c.Check("optimistic schedule sites", 0, n == 2, "the optimistic provide schedules in two places", "found "+itoa(n))
	}

	// R8 the records still in flight when Provide returns are sent: the watcher that turns the
	// caller's cancellation into a stop of the puts ends with the function (C03.R11)
	c.Rule("R8")
	c03R11(c)

	// R9 one recipient cannot hold up the others: the lock every send to every peer passes
	// through (the sender map's) is never held while a stream is opened or a message exchanged
	c.Rule("R9")
	c06NoNetworkUnderMapLock(c)
}

// c06FilteredAddrs: the advertised address list is exactly filterAddrs(host.Addrs()).
func c06FilteredAddrs(c *Ctx) {
	fa := c.Fn("(*dht.IpfsDHT).FilteredAddrs")
	rets := fa.CFG().Returns()
	okFA := len(rets) == 1 && len(rets[0].Results) == 1
	if okFA {
		call, isF := eng.IsCallTo(fa.Info(), rets[0].Results[0], "(*dht.IpfsDHT).filterAddrs")
		okFA = isF && len(call.Args) == 1
		if okFA {
			_, okFA = eng.IsCallTo(fa.Info(), call.Args[0], "(github.com/libp2p/go-libp2p/core/host.Host).Addrs")
		}
	}
	c.Check(K(fa.Name, "filters"), fa.Pos(), okFA, "FilteredAddrs is filterAddrs(host.Addrs())", "different expression")
	fl := c.Fn("(*dht.IpfsDHT).filterAddrs")
	okFl := false
	for _, ret := range fl.CFG().Returns() {
		if len(ret.Results) == 1 {
			if call, ok := eng.Unparen(ret.Results[0]).(*ast.CallExpr); ok && len(call.Args) == 1 && eng.IsObj(fl.Info(), call.Args[0], paramObj(fl, "addrs")) {
				g, _ := fl.CFG().Guarded(fl.CFG().LocOf(ret), func(ft eng.Fact) bool {
					_, isNilF, ok := ft.NilFact()
					return ok && !isNilF
				})
				if g {
					okFl = true
				}
			}
		}
	}
	c.Check(K(fl.Name, "applies configured filter"), fl.Pos(), okFl, "filterAddrs applies the configured address filter when one is set", "no `return f(addrs)` behind f != nil")
}

// c06ProviderRecordContent: every ADD_PROVIDER the DHT builds names {self, FilteredAddrs()} (shared with C15.R4).
func c06ProviderRecordContent(c *Ctx) {
	p := c.P
	sites := 0
	for _, s := range p.AllCalls("(*dht/pb.ProtocolMessenger).PutProviderAddrs") {
		if eng.Short(s.F.Pkg.PkgPath) != "dht" {
			continue
		}
		sites++
		info := s.F.Info()
		call := s.Call()
		cl, isCL := eng.Unparen(call.Args[len(call.Args)-1]).(*ast.CompositeLit)
		ok := isCL && len(cl.Elts) == 2
		if ok {
			for _, el := range cl.Elts {
				kv, isKV := el.(*ast.KeyValueExpr)
				if !isKV {
					ok = false
					continue
				}
				switch eng.NameOf(kv.Key.(*ast.Ident)) {
				case "ID":
					ok = ok && eng.IsField(info, kv.Value, "dht.IpfsDHT.self")
				case "Addrs":
					_, isFA := eng.IsCallTo(info, kv.Value, "(*dht.IpfsDHT).FilteredAddrs")
					ok = ok && isFA
				}
			}
		}
		c.Check(K(s.F.Name, "provider record content"), call.Pos(), ok, "an ADD_PROVIDER names exactly the local peer ID with dht.FilteredAddrs()", "AddrInfo is not {ID: dht.self, Addrs: dht.FilteredAddrs()}")
	}
	c.Check("PutProviderAddrs sites", 0, sites >= 2, "classic and optimistic provide announce", "found "+itoa(sites))
}

// c06NoNetworkUnderMapLock: in the message-sender package no call that waits for the network
// (stream set-up, an exchange, or the per-peer sender's own lock, which is held across
// exchanges) is made while messageSenderImpl.smlk may be held.
func c06NoNetworkUnderMapLock(c *Ctx) {
	blocking := []string{pmsFn + "prepOrInvalidate", pmsFn + "prep", pmsFn + "SendRequest", pmsFn + "SendMessage", pmsFn + "writeMsg", pmsFn + "ctxReadMsg",
		"(github.com/libp2p/go-libp2p/core/host.Host).NewStream", "(*dht/internal.CtxMutex).Lock", "(dht/internal.CtxMutex).Lock"}
	n := 0
	for _, f := range c.P.Funcs() {
		if eng.Short(f.Pkg.PkgPath) != "dht/internal/net" {
			continue
		}
		calls := f.Calls(blocking...)
		if len(calls) == 0 {
			continue
		}
		// may-hold: on some path smlk is held when the call is made
		info := f.Info()
		li := f.MayLocks()
		for _, call := range calls {
			n++
			held := li.HeldBefore(call)
			_, may := held[msiT+".smlk"]
			c.Check(K(f.Name, "network call "+eng.Short(eng.CalleeName(info, call))+" outside the map lock"), call.Pos(), !may,
				"the sender-map lock is not held while waiting for the network or for a busy sender (every send to every peer takes that lock first)", "smlk may be held when this call is made (held: "+held.String()+")")
		}
	}
	c.Check("network calls in the sender package", 0, n >= 6, "the sender package's network calls were found", "found "+itoa(n))
}
