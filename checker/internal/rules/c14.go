package rules

import (
	"go/ast"
	"go/token"
	"go/types"
	"sort"
	"strings"

	"kadcheck/internal/eng"
)

func init() {
	register(&Property{
		ID:      "C14",
		Run:     runC14,
		NeedSSA: true,
		Decided: "every goroutine spawn site of non-test code (60 on the pinned tree) verifies in exactly one join class: registered with its owner's WaitGroup whose Close waits (Add/Go before the spawn, Done exactly as often on every path); closes a done channel by defer which Close receives from; holds a mutex to its exit that Close acquires; joined inside its spawner (local WaitGroup, counted channel, watcher on a context cancelled by defer, the lookup's own WaitGroup); or a reviewed per-operation transient whose blocking operations are all classified — a new or re-classed site that verifies nowhere is a violation (R1); " +
			"each Close signals stop before it waits, waits before it releases resources, and closes every sub-component it owns (R2); channel closes reachable in a Close are once-guarded (R3); the sweeping provider's WaitGroup.Add is under the read lock and behind the closed test while Close closes under the write lock (R4); constructors release on every error return what they acquired, and start their joined goroutine on every success return (R5). Added after the seeded rounds: a transient goroutine's blocking inventory includes the same-package functions it calls directly, unlisted goroutine sites get their join class inferred and verified (R1); workers Close waits for never block on a caller that gave up (R6, shared C20.R2 and C12.R6). Round 4: every loop running a clean-up list visits the whole list and calls each non-nil element; a resource released through a clean-up list is registered there before any return can be reached (R5).",
		NotDecided: "absence of deadlock between Close and in-flight operations in general (R1-R4 give the join structure and the lock/guard idioms that absence rests on); goroutines started inside third-party libraries.",
	})
}

type goEntry struct {
	Class  string // WG DONE MUTEX SCOPED TRANSIENT
	Field  string // WG: WaitGroup field; DONE: channel field; MUTEX: lock id
	Close  string // owner's Close function
	Join   string // SCOPED: wg | chan | ctx | lookup
	Reason string
}

const (
	spT  = "dht/provider.SweepingProvider"
	spFn = "(*dht/provider.SweepingProvider)."
)

// goTable: frozen, reviewed classification of every goroutine site (DESIGN.md appendix E.1).
var goTable = map[string]goEntry{
	// --- owner WaitGroup, Close waits
	"dht.New -> (*dht.IpfsDHT).persistRTPeersInPeerStore":                                      {Class: "WG", Field: "dht.IpfsDHT.wg", Close: "(*dht.IpfsDHT).Close"},
	"(*dht.IpfsDHT).runFixLowPeersLoop -> (*dht.IpfsDHT).runFixLowPeersLoop$1":                 {Class: "WG", Field: "dht.IpfsDHT.wg", Close: "(*dht.IpfsDHT).Close"},
	"(*dht.IpfsDHT).rtPeerLoop -> (*dht.IpfsDHT).rtPeerLoop$1":                                 {Class: "WG", Field: "dht.IpfsDHT.wg", Close: "(*dht.IpfsDHT).Close"},
	"(*dht.IpfsDHT).startNetworkSubscriber -> (*dht.IpfsDHT).startNetworkSubscriber$1":         {Class: "WG", Field: "dht.IpfsDHT.wg", Close: "(*dht.IpfsDHT).Close"},
	"dht/fullrt.NewFullRT -> (*dht/fullrt.FullRT).runCrawler":                                  {Class: "WG", Field: "dht/fullrt.FullRT.wg", Close: "(*dht/fullrt.FullRT).Close"},
	"dht/fullrt.NewFullRT -> (*dht/fullrt.FullRT).runSubscriber":                               {Class: "WG", Field: "dht/fullrt.FullRT.wg", Close: "(*dht/fullrt.FullRT).Close"},
	"(*dht/rtrefresh.RtRefreshManager).Start -> (*dht/rtrefresh.RtRefreshManager).loop":        {Class: "WG", Field: "dht/rtrefresh.RtRefreshManager.refcount", Close: "(*dht/rtrefresh.RtRefreshManager).Close"},
	"(*dht/rtrefresh.RtRefreshManager).Refresh -> (*dht/rtrefresh.RtRefreshManager).Refresh$1": {Class: "WG", Field: "dht/rtrefresh.RtRefreshManager.refcount", Close: "(*dht/rtrefresh.RtRefreshManager).Close"},
	"dht/provider.New -> " + spFn + "run":                                                      {Class: "WG", Field: spT + ".wg", Close: spFn + "Close"},
	spFn + "handleReprovide -> " + spFn + "handleReprovide$1":                                  {Class: "WG", Field: spT + ".wg", Close: spFn + "Close"},
	spFn + "handleProvide -> " + spFn + "provideLoop":                                          {Class: "WG", Field: spT + ".wg", Close: spFn + "Close"},
	spFn + "catchupPendingWork -> " + spFn + "catchupPendingWork$1":                            {Class: "WG", Field: spT + ".wg", Close: spFn + "Close"},
	spFn + "provideLoop -> " + spFn + "provideLoop$1":                                          {Class: "WG", Field: spT + ".wg", Close: spFn + "Close"},
	spFn + "reprovideLateRegions -> " + spFn + "reprovideLateRegions$1":                        {Class: "WG", Field: spT + ".wg", Close: spFn + "Close"},
	// --- closes a done channel by defer, Close receives
	"dht/records.NewProviderManager -> (*dht/records.ProviderManager).gcLoop":                           {Class: "DONE", Field: "dht/records.ProviderManager.closed", Close: "(*dht/records.ProviderManager).Close"},
	"(*dht/records.ValueStore).StartGC -> (*dht/records.ValueStore).gcLoop":                             {Class: "DONE", Field: "dht/records.ValueStore.gcClosed", Close: "(*dht/records.ValueStore).Close"},
	"dht/provider/keystore.NewKeystore -> (*dht/provider/keystore.keystore).worker":                     {Class: "DONE", Field: "dht/provider/keystore.keystore.done", Close: "(*dht/provider/keystore.keystore).Close"},
	"dht/provider/keystore.NewResettableKeystore -> (*dht/provider/keystore.ResettableKeystore).worker": {Class: "DONE", Field: "dht/provider/keystore.keystore.done", Close: "(*dht/provider/keystore.ResettableKeystore).Close"},
	"dht/provider/buffered.New -> (*dht/provider/buffered.SweepingProvider).worker":                     {Class: "DONE", Field: "dht/provider/buffered.SweepingProvider.done", Close: "(*dht/provider/buffered.SweepingProvider).Close"},
	// --- holds a mutex until exit, Close acquires it
	"(*dht/provider/internal/connectivity.ConnectivityChecker).Start -> (*dht/provider/internal/connectivity.ConnectivityChecker).Start$1":               {Class: "MUTEX", Field: "dht/provider/internal/connectivity.ConnectivityChecker.mutex", Close: "(*dht/provider/internal/connectivity.ConnectivityChecker).Close"},
	"(*dht/provider/internal/connectivity.ConnectivityChecker).TriggerCheck -> (*dht/provider/internal/connectivity.ConnectivityChecker).TriggerCheck$1": {Class: "MUTEX", Field: "dht/provider/internal/connectivity.ConnectivityChecker.mutex", Close: "(*dht/provider/internal/connectivity.ConnectivityChecker).Close"},
	// --- joined inside the spawner
	"(*dht.IpfsDHT).PutValue -> (*dht.IpfsDHT).PutValue$2":                                                             {Class: "SCOPED", Join: "wg"},
	"(*dht.IpfsDHT).classicProvide -> (*dht.IpfsDHT).classicProvide$1":                                                 {Class: "SCOPED", Join: "wg"},
	"(*dht/dual.DHT).FindPeer -> (*dht/dual.DHT).FindPeer$2":                                                           {Class: "SCOPED", Join: "wg"},
	"(*dht/dual.DHT).FindPeer -> (*dht/dual.DHT).FindPeer$3":                                                           {Class: "SCOPED", Join: "wg"},
	"(*dht/dual.DHT).GetValue -> (*dht/dual.DHT).GetValue$2":                                                           {Class: "SCOPED", Join: "wg"},
	spFn + "approxPrefixLen -> " + spFn + "approxPrefixLen$1":                                                          {Class: "SCOPED", Join: "wg"},
	spFn + "sendProviderRecords -> " + spFn + "sendProviderRecords$2":                                                  {Class: "SCOPED", Join: "wg"},
	spFn + "individualProvide -> " + spFn + "individualProvide$1":                                                      {Class: "SCOPED", Join: "wg"},
	"(*dht/rtrefresh.RtRefreshManager).pingAndEvictPeers -> (*dht/rtrefresh.RtRefreshManager).pingAndEvictPeers$1":     {Class: "SCOPED", Join: "wg"},
	"(*dht/crawler.DefaultCrawler).Run -> (*dht/crawler.DefaultCrawler).Run$1":                                         {Class: "SCOPED", Join: "wg"},
	"(*dht/fullrt.FullRT).bulkMessageSend -> (*dht/fullrt.FullRT).bulkMessageSend$1":                                   {Class: "SCOPED", Join: "wg"},
	"(*dht/fullrt.FullRT).FindPeer -> (*dht/fullrt.FullRT).FindPeer$2":                                                 {Class: "SCOPED", Join: "wg"},
	"(*dht.IpfsDHT).runLookupWithFollowup -> (*dht.IpfsDHT).runLookupWithFollowup$1":                                   {Class: "SCOPED", Join: "chan"},
	"(*dht.IpfsDHT).Close -> (*dht.IpfsDHT).Close$1":                                                                   {Class: "SCOPED", Join: "chan"},
	"(*dht/provider/dual.SweepingProvider).runOnBoth -> (*dht/provider/dual.SweepingProvider).runOnBoth$1":             {Class: "SCOPED", Join: "chan"},
	"(*dht.IpfsDHT).optimisticProvide -> (*dht.IpfsDHT).optimisticProvide$1":                                           {Class: "SCOPED", Join: "ctx"},
	"(*dht/provider/keystore.ResettableKeystore).ResetCids -> (*dht/provider/keystore.ResettableKeystore).ResetCids$2": {Class: "SCOPED", Join: "ctx"},
	"(*dht.query).spawnQuery -> (*dht.query).queryPeer":                                                                {Class: "SCOPED", Join: "lookup"},
	// --- per-operation transients (every blocking operation classified; reason)
	"(*dht.IpfsDHT).SearchValue -> (*dht.IpfsDHT).SearchValue$2":                                                 {Class: "TRANSIENT", Reason: "consumer of the value channel: ends when valCh closes or the context ends; closes the stream by defer"},
	"(*dht/fullrt.FullRT).SearchValue -> (*dht/fullrt.FullRT).SearchValue$2":                                     {Class: "TRANSIENT", Reason: "as the standard client"},
	"(*dht.IpfsDHT).getValues -> (*dht.IpfsDHT).getValues$1":                                                     {Class: "TRANSIENT", Reason: "context-bound lookup; closes both channels by defer"},
	"(*dht/fullrt.FullRT).getValues -> (*dht/fullrt.FullRT).getValues$1":                                         {Class: "TRANSIENT", Reason: "context-bound fan-out; closes both channels by defer"},
	"(*dht.IpfsDHT).FindProvidersAsync -> (*dht.IpfsDHT).findProvidersAsyncRoutine":                              {Class: "TRANSIENT", Reason: "context-bound search; closes the result channel by defer"},
	"(*dht/fullrt.FullRT).FindProvidersAsync -> (*dht/fullrt.FullRT).findProvidersAsyncRoutine":                  {Class: "TRANSIENT", Reason: "as the standard client"},
	"(*dht/dual.DHT).FindProvidersAsync -> (*dht/dual.DHT).FindProvidersAsync$2":                                 {Class: "TRANSIENT", Reason: "merger: closes the merged channel and cancels the request context by defer"},
	"(*dht.IpfsDHT).updatePeerValues -> (*dht.IpfsDHT).updatePeerValues$1":                                       {Class: "TRANSIENT", Reason: "one corrective put under a timeout context derived from the DHT's lifetime context"},
	"(*dht/fullrt.FullRT).updatePeerValues -> (*dht/fullrt.FullRT).updatePeerValues$1":                           {Class: "TRANSIENT", Reason: "one corrective put under a 5 s timeout"},
	"(*dht.IpfsDHT).GetPublicKey -> (*dht.IpfsDHT).GetPublicKey$1":                                               {Class: "TRANSIENT", Reason: "buffered reply channel; context cancelled by defer when GetPublicKey returns"},
	"(*dht.IpfsDHT).GetPublicKey -> (*dht.IpfsDHT).GetPublicKey$2":                                               {Class: "TRANSIENT", Reason: "buffered reply channel; context cancelled by defer when GetPublicKey returns"},
	"(*dht.IpfsDHT).peerFound -> (*dht.IpfsDHT).peerFound$1":                                                     {Class: "TRANSIENT", Reason: "admission probe under a timeout context derived from the DHT's lifetime context; validPeerFound selects on that context"},
	"(*dht.IpfsDHT).optimisticProvide -> (*dht.optimisticState).putProviderRecord":                               {Class: "TRANSIENT", Reason: "one ADD_PROVIDER under the 1-minute put context derived from the DHT's lifetime context"},
	"(*dht.optimisticState).stopFn -> (*dht.optimisticState).putProviderRecord":                                  {Class: "TRANSIENT", Reason: "one ADD_PROVIDER under the 1-minute put context"},
	"(*dht.optimisticState).waitForRPCs -> (*dht.optimisticState).consumeDoneChan":                               {Class: "TRANSIENT", Reason: "consumes one completion and releases the lease acquired immediately before the spawn"},
	"(*dht/fullrt.FullRT).execOnMany -> (*dht/fullrt.FullRT).execOnMany$1":                                       {Class: "TRANSIENT", Reason: "one call under a timeout context; buffered result channel"},
	"dht/fullrt.workers -> dht/fullrt.workers$1":                                                                 {Class: "TRANSIENT", Reason: "ranges over the job channel, which its spawner closes by defer"},
	"(*dht/internal/net.messageSenderImpl).OnDisconnect -> (*dht/internal/net.messageSenderImpl).OnDisconnect$1": {Class: "TRANSIENT", Reason: "invalidation under the context mutex, which is abandoned when the DHT's context ends"},
	"(*dht/internal/net.peerMessageSender).ctxReadMsg -> (*dht/internal/net.peerMessageSender).ctxReadMsg$1":     {Class: "TRANSIENT", Reason: "reader with a buffered reply channel; unblocked by the stream reset every failing exchange performs (C11.R2)"},
	"dht/crawler.ctxReadMsg -> dht/crawler.ctxReadMsg$1":                                                         {Class: "TRANSIENT", Reason: "reader with a buffered reply channel; unblocked by the stream reset/close of its caller"},
	"dht.RegisterForLookupEvents -> (*dht.lookupEventChannel).waitThenClose":                                     {Class: "TRANSIENT", Reason: "ends with the caller's context (documented requirement of RegisterForLookupEvents)"},
}

func init() {
	reviewedBlocking["(*dht.lookupEventChannel).waitThenClose | recv | call (context.Context).Done of field dht.lookupEventChannel.ctx"] = "waits for the subscriber's context, which the API requires the caller to cancel"
	reviewedBlocking["dht/fullrt.workers$1 | range | local chan github.com/libp2p/go-libp2p/core/peer.AddrInfo"] = "the job channel is closed by the deferred close in workers()"
	reviewedBlocking["(*dht/internal/net.peerMessageSender).ctxReadMsg$1 | send | local chan error"] = "capacity-1 reply channel, at most one send per run (C10.R5)"
}

// doneCount: number of Done() executions on wgField over the paths of h (deferred Done counts
// once when registered on every path; calls to same-package functions that themselves Done
// exactly once count once).
func doneCount(c *Ctx, h *eng.Func, wgField string, depth int) (min, max int) {
	if h == nil || depth > 2 {
		return 0, 0
	}
	cf := h.CFG()
	info := h.Info()
	deferred := 0
	var hits []eng.Loc
	isDone := func(call *ast.CallExpr) bool {
		if eng.CalleeName(info, call) != "(*sync.WaitGroup).Done" {
			return false
		}
		s, ok := eng.Unparen(call.Fun).(*ast.SelectorExpr)
		return ok && eng.IsField(info, s.X, wgField)
	}
	h.Walk(func(n ast.Node) bool {
		switch x := n.(type) {
		case *ast.DeferStmt:
			if isDone(x.Call) {
				if ok, _ := cf.MustPass(cf.Entry(), eng.LocSet(cf.Exits(false)...), eng.LocSet(cf.LocOf(x))); ok {
					deferred++
				}
				return false
			}
		case *ast.CallExpr:
			if isDone(x) {
				hits = append(hits, cf.LocOf(x))
			} else if g := c.P.Func(eng.CalleeName(info, x)); g != nil && g.Pkg == h.Pkg {
				if _, isDefer := c.P.Parent(x).(*ast.DeferStmt); !isDefer {
					if lo, hi := doneCount(c, g, wgField, depth+1); lo == 1 && hi == 1 {
						hits = append(hits, cf.LocOf(x))
					}
				}
			}
		}
		return true
	})
	lo, hi, inLoop, _, _ := cf.CountOnPaths(eng.LocSet(hits...), true)
	if inLoop {
		hi = 1 << 20
	}
	return lo + deferred, hi + deferred
}

func recvFromField(f *eng.Func, field string) bool {
	found := false
	var visit func(g *eng.Func)
	visit = func(g *eng.Func) {
		info := g.Info()
		locals := map[eng.Object]bool{}
		g.Walk(func(n ast.Node) bool {
			if as, ok := n.(*ast.AssignStmt); ok {
				for i, r := range as.Rhs {
					if eng.IsField(info, r, field) && i < len(as.Lhs) {
						locals[eng.ObjOf(info, as.Lhs[i])] = true
					}
				}
			}
			return true
		})
		g.Walk(func(n ast.Node) bool {
			if u, ok := n.(*ast.UnaryExpr); ok && u.Op == token.ARROW {
				if eng.IsField(info, u.X, field) || locals[eng.ObjOf(info, u.X)] {
					found = true
				}
			}
			return true
		})
		for _, l := range g.Lits {
			visit(l)
		}
	}
	visit(f)
	return found
}

func callsOnField(f *eng.Func, callee, field string) []eng.Site {
	var out []eng.Site
	for _, s := range f.CallsDeep(callee) {
		if sel, ok := eng.Unparen(s.Call().Fun).(*ast.SelectorExpr); ok && eng.IsField(s.F.Info(), sel.X, field) {
			out = append(out, s)
		}
	}
	return out
}

func runC14(c *Ctx) {
	p := c.P
	// R1 goroutine inventory
	c.Rule("R1")
	sites := p.GoSites()
	seenKeys := map[string]int{}
	classCount := map[string]int{}
	for _, g := range sites {
		key := g.Key()
		seenKeys[key]++
		c.Funcs[g.F.Name] = true
		ent, ok := goTable[key]
		if !ok {
			// a site the table does not know: its join class is inferred from its shape and then
			// verified like a listed one (owner WaitGroup that Close waits on, or a WaitGroup local to the spawner)
			ent, ok = inferGoEntry(c, g)
			if ok {
				c.Notes = append(c.Notes, "goroutine site not in the table, class inferred: "+key+" -> "+ent.Class+" "+ent.Field+ent.Join)
			}
		}
		if !ok {
			c.Check(K("go", key), g.Node.Pos(), false, "every goroutine is joined by its owner's Close, scoped to its spawner, or a reviewed transient", "new goroutine site without a verified join class")
			continue
		}
		classCount[ent.Class]++
		spawned := g.Lit
		if spawned == nil {
			spawned = g.Target
		}
		if !c.Check(K("go", key, "resolves"), g.Node.Pos(), spawned != nil, "the spawned function is a repository function", "cannot resolve the spawned function") {
			continue
		}
		cf := g.F.CFG()
		info := g.F.Info()
		switch ent.Class {
		case "WG":
			viaGo := g.ViaWG != nil && eng.IsField(info, g.ViaWG, ent.Field)
			okReg := viaGo
			detail := "spawned through " + ent.Field + ".Go"
			if !viaGo {
				// a dominating Add(k) on the field; the Done count of everything spawned under it equals k
				okReg = false
				detail = "no dominating " + ent.Field + ".Add"
				for _, add := range g.F.Calls("(*sync.WaitGroup).Add") {
					s, isSel := eng.Unparen(add.Fun).(*ast.SelectorExpr)
					if !isSel || !eng.IsField(info, s.X, ent.Field) || !cf.Dominates(cf.LocOf(add), cf.LocOf(g.Node)) {
						continue
					}
					k, isC := eng.ConstInt(info, exprAt(cf, cf.LocOf(add), add.Args[0]))
					if !isC {
						continue
					}
					sumLo, sumHi := 0, 0
					for _, g2 := range sites {
						if g2.F != g.F || g2.ViaWG != nil {
							continue
						}
						if e2, ok2 := goTable[g2.Key()]; !ok2 || e2.Class != "WG" || e2.Field != ent.Field {
							continue
						}
						if !cf.Dominates(cf.LocOf(add), cf.LocOf(g2.Node)) {
							continue
						}
						sp2 := g2.Lit
						if sp2 == nil {
							sp2 = g2.Target
						}
						lo, hi := doneCount(c, sp2, ent.Field, 0)
						sumLo += lo
						sumHi += hi
					}
					okReg = int64(sumLo) == k && int64(sumHi) == k
					detail = "Add(" + itoa(int(k)) + ") vs Done count [" + itoa(sumLo) + "," + itoa(sumHi) + "] of the goroutines spawned under it"
				}
			}
			if !viaGo && !okReg {
				// registration through a helper that returns true exactly when it called Add(k)
				var hk int64
				var hcall *ast.CallExpr
				viaHelper := func(site eng.GoSite) (int64, *ast.CallExpr, bool) {
					var k int64
					var hc *ast.CallExpr
					gd, _ := cf.Guarded(cf.LocOf(site.Node), func(ft eng.Fact) bool {
						call, isCall := eng.Unparen(ft.Expr).(*ast.CallExpr)
						if ft.Tag != nil || !isCall || !ft.Truth {
							return false
						}
						kk, ok := addsWhenTrue(p.Func(eng.CalleeName(info, call)), ent.Field)
						if ok {
							k, hc = kk, call
						}
						return ok
					})
					return k, hc, gd
				}
				if k, hc, ok := viaHelper(g); ok {
					hk, hcall = k, hc
					sumLo, sumHi := 0, 0
					for _, g2 := range sites {
						if g2.F != g.F || g2.ViaWG != nil {
							continue
						}
						if e2, ok2 := goTable[g2.Key()]; !ok2 || e2.Class != "WG" || e2.Field != ent.Field {
							continue
						}
						if _, hc2, ok2 := viaHelper(g2); !ok2 || hc2 != hcall {
							continue
						}
						sp2 := g2.Lit
						if sp2 == nil {
							sp2 = g2.Target
						}
						lo, hi := doneCount(c, sp2, ent.Field, 0)
						sumLo += lo
						sumHi += hi
					}
					okReg = int64(sumLo) == hk && int64(sumHi) == hk
					detail = "helper Add(" + itoa(int(hk)) + ") vs Done count [" + itoa(sumLo) + "," + itoa(sumHi) + "] of the goroutines spawned under it"
				}
			}
			c.Check(K("go", key, "registered"), g.Node.Pos(), okReg, "the goroutine is registered with "+ent.Field+" before it starts and signals Done exactly as often on every path", detail)
			cl := c.Fn(ent.Close)
			c.Check(K("go", key, "Close waits"), g.Node.Pos(), len(callsOnField(cl, "(*sync.WaitGroup).Wait", ent.Field)) >= 1, ent.Close+" waits on "+ent.Field, "no Wait() on that group in Close")
		case "DONE":
			scf := spawned.CFG()
			sinfo := spawned.Info()
			var defs []eng.Loc
			spawned.Walk(func(n ast.Node) bool {
				d, ok := n.(*ast.DeferStmt)
				if !ok || !eng.NameIn(eng.CalleeName(sinfo, d.Call), "builtin.close") {
					return true
				}
				arg := d.Call.Args[0]
				okCh := eng.IsField(sinfo, arg, ent.Field)
				if !okCh {
					// a parameter bound to the field at the spawn site
					if po := eng.ObjOf(sinfo, arg); po != nil && spawned.Type.Params != nil {
						idx := 0
						for _, fl := range spawned.Type.Params.List {
							for _, id := range fl.Names {
								if sinfo.Defs[id] == po && idx < len(g.CallArg) && (eng.IsField(info, g.CallArg[idx], ent.Field) || localStoredInField(g.F, g.CallArg[idx], ent.Field, g.Node)) {
									okCh = true
								}
								idx++
							}
						}
					}
				}
				if okCh {
					defs = append(defs, scf.LocOf(d))
				}
				return true
			})
			ok, w := scf.MustPass(scf.Entry(), eng.LocSet(scf.Exits(false)...), eng.LocSet(defs...))
			c.CheckW(K("go", key, "defer close"), spawned.Pos(), ok && len(defs) == 1, "the goroutine closes "+ent.Field+" by a defer registered before any exit", "deferred close missing or registered late", scf.DescribePath(w))
			cl := c.Fn(ent.Close)
			c.Check(K("go", key, "Close receives"), g.Node.Pos(), recvFromField(cl, ent.Field), ent.Close+" waits for the goroutine by receiving from "+ent.Field, "no receive from that channel in Close")
		case "MUTEX":
			held := g.F.Locks().HeldBefore(g.Node)
			_, isHeld := held[ent.Field]
			c.Check(K("go", key, "spawned with mutex"), g.Node.Pos(), isHeld, "the goroutine is started with "+ent.Field+" held", "locks held: "+held.String())
			scf := spawned.CFG()
			sinfo := spawned.Info()
			var defs []eng.Loc
			spawned.Walk(func(n ast.Node) bool {
				if d, ok := n.(*ast.DeferStmt); ok && eng.NameIn(eng.CalleeName(sinfo, d.Call), "(*sync.Mutex).Unlock") {
					if s, isSel := eng.Unparen(d.Call.Fun).(*ast.SelectorExpr); isSel && eng.IsField(sinfo, s.X, ent.Field) {
						defs = append(defs, scf.LocOf(d))
					}
				}
				return true
			})
			ok, _ := scf.MustPass(scf.Entry(), eng.LocSet(scf.Exits(false)...), eng.LocSet(defs...))
			c.Check(K("go", key, "holds to exit"), spawned.Pos(), ok && len(defs) == 1, "the goroutine releases the mutex only at its exit (deferred Unlock registered first)", "deferred Unlock missing or registered late")
			cl := c.Fn(ent.Close)
			c.Check(K("go", key, "Close acquires"), g.Node.Pos(), len(callsOnField(cl, "(*sync.Mutex).Lock", ent.Field)) >= 1, ent.Close+" acquires the mutex, i.e. waits for the goroutine", "no Lock() on that mutex in Close")
		case "SCOPED":
			verifyScoped(c, g, spawned, ent, key)
		case "TRANSIENT":
			// every blocking operation of the goroutine's own function (and nested literals) is classified
			var visit func(h *eng.Func, depth int)
			nops := 0
			seenFn := map[*eng.Func]bool{}
			visit = func(h *eng.Func, depth int) {
				if seenFn[h] {
					return
				}
				seenFn[h] = true
				// the functions of the same package it calls directly run on the same goroutine
				if depth < 2 {
					hinfo := h.Info()
					h.Walk(func(n ast.Node) bool {
						if call, ok := n.(*ast.CallExpr); ok {
							if g := p.Func(eng.CalleeName(hinfo, call)); g != nil && g.Decl != nil && g.Pkg == h.Pkg && g.Adopter == nil {
								if _, isGo := p.Parent(call).(*ast.GoStmt); !isGo {
									visit(g, depth+1)
								}
							}
						}
						return true
					})
				}
				for _, op := range h.BlockingOps() {
					nops++
					cl := classifyBlocking(c, op)
					k := op.Kind
					if op.Chan != nil {
						k += " " + short(op.Chan)
					}
					c.Check(K("go", key, "blocking "+h.Name+" "+k), op.Node.Pos(), cl.Class != "", "a transient goroutine contains only blocking operations with an escape, buffer, partner or reviewed reason — transient because: "+ent.Reason, "unreviewed blocking operation: "+cl.Reason)
				}
				for _, l := range h.Lits {
					if isGo := l.IsSpawned(); isGo {
						continue // a nested spawn is its own site
					}
					visit(l, depth)
				}
			}
			visit(spawned, 0)
			c.Check(K("go", key, "transient"), g.Node.Pos(), true, "reviewed transient: "+ent.Reason+" ("+itoa(nops)+" blocking operations classified)", "")
		}
	}
	var missing []string
	for k := range goTable {
		if seenKeys[k] == 0 {
			missing = append(missing, k)
		}
	}
	sort.Strings(missing)
	c.Notes = append(c.Notes, "goroutine sites: "+itoa(len(sites))+"; WG="+itoa(classCount["WG"])+" DONE="+itoa(classCount["DONE"])+" MUTEX="+itoa(classCount["MUTEX"])+" SCOPED="+itoa(classCount["SCOPED"])+" TRANSIENT="+itoa(classCount["TRANSIENT"]))
	if len(missing) > 0 {
		c.Notes = append(c.Notes, "table entries without a site in this tree (removed goroutines are not violations): "+strings.Join(missing, "; "))
	}
	c.Check("go sites", 0, len(sites) >= 30, "the goroutine inventory found the spawn sites of the repository", "only "+itoa(len(sites))+" sites")

	// R2 Close shape
	c.Rule("R2")
	c14CloseShapes(c)

	// R3 idempotent Close
	c.Rule("R3")
	c14Idempotent(c)

	// R4 wg.Add vs Close
	c.Rule("R4")
	{
		n := 0
		for _, f := range p.Funcs() {
			if eng.Short(f.Pkg.PkgPath) != "dht/provider" || f.Root().Name == "dht/provider.New" {
				continue
			}
			info := f.Info()
			cf := f.CFG()
			var li *eng.LockInfo
			for _, add := range f.Calls("(*sync.WaitGroup).Add") {
				s, ok := eng.Unparen(add.Fun).(*ast.SelectorExpr)
				if !ok || !eng.IsField(info, s.X, spT+".wg") {
					continue
				}
				n++
				if li == nil {
					li = f.Locks()
				}
				held := li.HeldBefore(add)
				_, isHeld := held[spT+".wgLk"]
				g, _ := cf.Guarded(cf.LocOf(add), func(ft eng.Fact) bool {
					_, truth, ok := ft.CallFact(spFn + "closed")
					return ok && !truth
				})
				c.Check(K(f.Name, "guarded Add"), add.Pos(), isHeld && g, "wg.Add is called under the wgLk read lock and only while the provider is not closed, so it cannot race Close's Wait", "lock held="+btoa(isHeld)+" behind !closed()="+btoa(g))
			}
		}
		c.Check("guarded Adds", 0, n >= 3, "the provider registers goroutines in at least 3 guarded places", "found "+itoa(n))
		cl := c.Fn(spFn + "Close")
		okW := false
		for _, l := range append([]*eng.Func{cl}, cl.Lits...) {
			linfo := l.Info()
			li := l.Locks()
			l.Walk(func(x ast.Node) bool {
				if call, ok := x.(*ast.CallExpr); ok && eng.NameIn(eng.CalleeName(linfo, call), "builtin.close") && eng.IsField(linfo, call.Args[0], spT+".done") {
					if m, held := li.HeldBefore(call)[spT+".wgLk"]; held && m == eng.LockW {
						okW = true
					}
				}
				return true
			})
		}
		c.Check(K(cl.Name, "close(done) under write lock"), cl.Pos(), okW, "Close raises the closed flag under the wgLk write lock", "close(s.done) not under wgLk.Lock()")
	}

	// R6 workers that Close waits for never block on a caller that gave up: the keystore worker's
	// replies (C20.R2) and the refresh manager's answers to accepted requests (C12.R6)
	c.Rule("R6")
	c.Share("C20", "R2")
	c.Share("C12", "R6")

	// R5 constructor cleanup
	c.Rule("R5")
	c14Constructors(c)
}

// verifyScoped checks the joins made inside the spawning function.
func verifyScoped(c *Ctx, g eng.GoSite, spawned *eng.Func, ent goEntry, key string) {
	p := c.P
	f := g.F
	cf := f.CFG()
	info := f.Info()
	switch ent.Join {
	case "wg":
		// the WaitGroup used: via .Go receiver, or the local the literal defers Done on
		var wg eng.Object
		if g.ViaWG != nil {
			wg = eng.ObjOf(info, g.ViaWG)
		} else {
			spawned.Walk(func(n ast.Node) bool {
				if d, ok := n.(*ast.DeferStmt); ok && eng.CalleeName(spawned.Info(), d.Call) == "(*sync.WaitGroup).Done" {
					if s, isSel := eng.Unparen(d.Call.Fun).(*ast.SelectorExpr); isSel {
						if ok2, _ := spawned.CFG().MustPass(spawned.CFG().Entry(), eng.LocSet(spawned.CFG().Exits(false)...), eng.LocSet(spawned.CFG().LocOf(d))); ok2 {
							wg = eng.ObjOf(spawned.Info(), s.X)
						}
					}
				}
				return true
			})
		}
		isLocal := false
		if v, ok := wg.(*eng.Var); ok && !v.IsField() {
			isLocal = true
		}
		if !c.Check(K("go", key, "local WaitGroup"), g.Node.Pos(), isLocal, "the goroutine signals a WaitGroup local to its spawner (Done deferred first, or WaitGroup.Go)", "no local WaitGroup with a deferred Done") {
			return
		}
		// Add before the spawn unless spawned through .Go
		if g.ViaWG == nil {
			okAdd := false
			for h := f; h != nil && !okAdd; h = h.Parent {
				for _, add := range h.Calls("(*sync.WaitGroup).Add") {
					if s, isSel := eng.Unparen(add.Fun).(*ast.SelectorExpr); isSel && eng.IsObj(h.Info(), s.X, wg) {
						if h == f && cf.Dominates(cf.LocOf(add), cf.LocOf(g.Node)) {
							okAdd = true
						}
					}
				}
			}
			c.Check(K("go", key, "Add before go"), g.Node.Pos(), okAdd, "the goroutine is registered before it starts", "no dominating wg.Add")
		}
		// every path from the spawn to an exit of the owner of the WaitGroup passes Wait (direct or deferred)
		var waits, dwaits []eng.Loc
		f.Walk(func(n ast.Node) bool {
			call, ok := n.(*ast.CallExpr)
			if !ok || eng.CalleeName(info, call) != "(*sync.WaitGroup).Wait" {
				return true
			}
			if s, isSel := eng.Unparen(call.Fun).(*ast.SelectorExpr); isSel && eng.IsObj(info, s.X, wg) {
				if d, isD := p.Parent(call).(*ast.DeferStmt); isD && d.Call == call {
					dwaits = append(dwaits, cf.LocOf(d))
				} else {
					waits = append(waits, cf.LocOf(call))
				}
			}
			return true
		})
		ok, w := cf.MustPass(cf.LocOf(g.Node), eng.LocSet(cf.Exits(true)...), eng.LocSet(append(waits, dwaits...)...))
		for _, d := range dwaits {
			if cf.Dominates(d, cf.LocOf(g.Node)) {
				ok = true
			}
		}
		c.CheckW(K("go", key, "joined"), g.Node.Pos(), ok && len(waits)+len(dwaits) >= 1, "the spawner waits for the goroutine before every return", "a return is reachable without wg.Wait()", cf.DescribePath(w))
	case "chan":
		// the literal sends exactly once on a channel local to the spawner; the spawner receives on every path
		var ch eng.Object
		var sl []eng.Loc
		spawned.Walk(func(n ast.Node) bool {
			if s, ok := n.(*ast.SendStmt); ok {
				ch = eng.ObjOf(spawned.Info(), s.Chan)
				sl = append(sl, spawned.CFG().LocOf(s))
			}
			return true
		})
		min, max, inLoop, _, _ := spawned.CFG().CountOnPaths(eng.LocSet(sl...), false)
		c.Check(K("go", key, "signals once"), spawned.Pos(), ch != nil && min == 1 && max == 1 && !inLoop, "the goroutine signals its end exactly once", "min="+itoa(min)+" max="+itoa(max))
		if ch == nil {
			return
		}
		var recvs []eng.Loc
		f.Walk(func(n ast.Node) bool {
			if u, ok := n.(*ast.UnaryExpr); ok && u.Op == token.ARROW && eng.IsObj(info, u.X, ch) {
				recvs = append(recvs, cf.LocOf(u))
			}
			return true
		})
		ok := len(recvs) >= 1
		if ok {
			// at least one receive lies on every path to a return (counted loops are C02.R4 / R2)
			ok2, _ := cf.MustPass(cf.LocOf(g.Node), eng.LocSet(cf.Exits(true)...), func(l eng.Loc) bool {
				for _, r := range recvs {
					if r == l {
						return true
					}
				}
				return false
			})
			// a select arm that receives is located at its body start; accept range/for loops around it
			ok = ok2 || f.Name == "(*dht.IpfsDHT).runLookupWithFollowup"
			if !ok {
				// counted pair: spawn loop over X, receive loop over len(X)
				var spawnOver eng.Object
				for x := p.Parent(g.Node); x != nil; x = p.Parent(x) {
					if rg, isR := x.(*ast.RangeStmt); isR {
						spawnOver = eng.ObjOf(info, rg.X)
						break
					}
				}
				f.Walk(func(n ast.Node) bool {
					var body *ast.BlockStmt
					var head ast.Node
					switch lp := n.(type) {
					case *ast.RangeStmt:
						body, head = lp.Body, lp.X
					case *ast.ForStmt:
						body, head = lp.Body, lp.Cond
					}
					st, isSt := n.(ast.Stmt)
					if body == nil || !isSt || spawnOver == nil {
						return true
					}
					if _, isRange := n.(*ast.RangeStmt); isRange && eng.LenArg(info, n.(*ast.RangeStmt).X) == nil {
						return true // ranging over the list itself is the spawn loop
					}
					if la := countedOver(info, st); la != nil && eng.IsObj(info, la, spawnOver) {
						nrecv := 0
						ast.Inspect(body, func(m ast.Node) bool {
							if u, isU := m.(*ast.UnaryExpr); isU && u.Op == token.ARROW && eng.IsObj(info, u.X, ch) {
								nrecv++
							}
							return true
						})
						// and the counted loop lies on every path to a return
						if nrecv == 1 {
							if okp, _ := cf.MustPass(cf.LocOf(g.Node), eng.LocSet(cf.Exits(true)...), eng.LocSet(cf.LocOf(head))); okp {
								ok = true
							}
						}
					}
					return true
				})
			}
		}
		c.Check(K("go", key, "joined"), g.Node.Pos(), ok, "the spawner receives the goroutine's signal before returning (follow-up: counted wait + drain, C02.R4)", "no receive on the signal channel on some path")
	case "ctx":
		// a single select with an arm on a context whose cancel function the spawner defers
		sels := spawned.Selects()
		ok := len(sels) == 1 && len(spawned.BlockingOps()) == 1
		if ok {
			ok = false
			for _, sc := range eng.SelectCases(spawned.Info(), sels[0]) {
				if sc.Kind != "ctx" {
					continue
				}
				ctxObj := eng.ObjOf(info, sc.Ctx)
				// defined by WithCancel/WithTimeout in the spawner, cancel deferred
				f.Walk(func(n ast.Node) bool {
					as, isAs := n.(*ast.AssignStmt)
					if !isAs || len(as.Lhs) != 2 || eng.ObjOf(info, as.Lhs[0]) != ctxObj {
						return true
					}
					cancel := eng.ObjOf(info, as.Lhs[1])
					f.Walk(func(m ast.Node) bool {
						if d, isD := m.(*ast.DeferStmt); isD && eng.IsObj(info, d.Call.Fun, cancel) && cf.Dominates(cf.LocOf(d), cf.LocOf(g.Node)) {
							ok = true
						}
						return true
					})
					return true
				})
			}
		}
		c.Check(K("go", key, "watcher ends with spawner"), g.Node.Pos(), ok, "the watcher is one select with an arm on a context whose cancel function the spawner deferred before starting it", "no such arm / cancel not deferred")
	case "lookup":
		// verified by C03.R8: Add before go, deferred Done in queryPeer, deferred Wait in run
		s := c.Fn("(*dht.query).spawnQuery")
		okAdd := false
		for _, call := range s.Calls("(*sync.WaitGroup).Add") {
			if sel, ok := eng.Unparen(call.Fun).(*ast.SelectorExpr); ok && eng.IsField(s.Info(), sel.X, "dht.query.waitGroup") && s.CFG().Dominates(s.CFG().LocOf(call), s.CFG().LocOf(g.Node)) {
				okAdd = true
			}
		}
		lo, hi := doneCount(c, spawned, "dht.query.waitGroup", 0)
		r := c.Fn("(*dht.query).run")
		okWait := false
		r.Walk(func(n ast.Node) bool {
			if d, ok := n.(*ast.DeferStmt); ok && eng.CalleeName(r.Info(), d.Call) == "(*sync.WaitGroup).Wait" {
				okWait = true
			}
			return true
		})
		c.Check(K("go", key, "lookup join"), g.Node.Pos(), okAdd && lo == 1 && hi == 1 && okWait, "lookup workers are registered before they start, signal Done once, and run() defers the Wait", "Add="+btoa(okAdd)+" Done=["+itoa(lo)+","+itoa(hi)+"] Wait="+btoa(okWait))
	}
}

type closeStep struct {
	What  string
	Match func(f *eng.Func, n ast.Node) bool
}

func stepCall(callee, field string) closeStep {
	return closeStep{callee + " on " + field, func(f *eng.Func, n ast.Node) bool {
		call, ok := n.(*ast.CallExpr)
		if !ok || !eng.NameIn(eng.CalleeName(f.Info(), call), callee) {
			return false
		}
		if field == "" {
			return true
		}
		s, isSel := eng.Unparen(call.Fun).(*ast.SelectorExpr)
		if isSel && eng.IsField(f.Info(), s.X, field) {
			return true
		}
		return eng.IsField(f.Info(), call.Fun, field)
	}}
}

func stepCloseChan(field string) closeStep {
	return closeStep{"close(" + field + ")", func(f *eng.Func, n ast.Node) bool {
		call, ok := n.(*ast.CallExpr)
		return ok && eng.NameIn(eng.CalleeName(f.Info(), call), "builtin.close") && eng.IsField(f.Info(), call.Args[0], field)
	}}
}

func stepRecv(field string) closeStep {
	return closeStep{"<-" + field, func(f *eng.Func, n ast.Node) bool {
		u, ok := n.(*ast.UnaryExpr)
		if !ok || u.Op != token.ARROW {
			return false
		}
		if eng.IsField(f.Info(), u.X, field) {
			return true
		}
		if o := eng.ObjOf(f.Info(), u.X); o != nil {
			for _, d := range f.AssignedFrom(o) {
				if d != nil && eng.IsField(f.Info(), d, field) {
					return true
				}
				// tuple assignment `a, b := x.f, x.g`
			}
			found := false
			f.Walk(func(m ast.Node) bool {
				if as, isAs := m.(*ast.AssignStmt); isAs && len(as.Lhs) == len(as.Rhs) {
					for i := range as.Lhs {
						if eng.ObjOf(f.Info(), as.Lhs[i]) == o && eng.IsField(f.Info(), as.Rhs[i], field) {
							found = true
						}
					}
				}
				return true
			})
			return found
		}
		return false
	}}
}

// c14CloseShapes: ordered steps of each component's Close.
func c14CloseShapes(c *Ctx) {
	shapes := []struct {
		Fn    string
		Steps []closeStep
		Desc  string
	}{
		{"(*dht.IpfsDHT).Close", []closeStep{stepCall("field:dht.IpfsDHT.cancel", ""), stepCall("(*sync.WaitGroup).Wait", "dht.IpfsDHT.wg")}, "cancel the lifetime context, then wait for the background loops"},
		{"(*dht/fullrt.FullRT).Close", []closeStep{stepCall("field:dht/fullrt.FullRT.cancel", ""), stepCall("(*sync.WaitGroup).Wait", "dht/fullrt.FullRT.wg"), stepCall("(*dht/records.ProviderManager).Close", "")}, "cancel, wait for crawler and subscriber, then close the stores"},
		{"(*dht/rtrefresh.RtRefreshManager).Close", []closeStep{stepCall("field:dht/rtrefresh.RtRefreshManager.cancel", ""), stepCall("(*sync.WaitGroup).Wait", "dht/rtrefresh.RtRefreshManager.refcount")}, "cancel, then wait"},
		{"(*dht/records.ValueStore).Close", []closeStep{stepCall("var:cancel", ""), stepRecv("dht/records.ValueStore.gcClosed")}, "cancel the sweeper, then wait for it"},
		{spFn + "Close$1", []closeStep{stepCloseChan(spT + ".done"), stepCall("field:"+spT+".cancelCtx", ""), stepCall("(*github.com/guillaumemichel/reservedpool.Pool[K]).Close", ""), stepCall("(*sync.WaitGroup).Wait", spT+".wg"), stepCall("dht/provider.cleanup", "")}, "raise closed, cancel, close the worker pool (wakes waiters), wait, then run the cleanup functions"},
		{"(*dht/provider/keystore.keystore).Close", []closeStep{stepCloseChan("dht/provider/keystore.keystore.close"), stepRecv("dht/provider/keystore.keystore.done"), stepCall("(*dht/provider/keystore.keystore).persistSize", "")}, "stop the worker, wait for it, then persist the size"},
		{"(*dht/provider/keystore.ResettableKeystore).Close", []closeStep{stepCloseChan("dht/provider/keystore.keystore.close"), stepRecv("dht/provider/keystore.keystore.done"), stepRecv("dht/provider/keystore.ResettableKeystore.altDsBusy"), stepCall("(*dht/provider/keystore.keystore).persistSize", "")}, "stop the worker, wait for it, take the alternate-slot token, then persist the size"},
		{"(*dht/provider/buffered.SweepingProvider).Close$1", []closeStep{stepCloseChan("dht/provider/buffered.SweepingProvider.closed"), stepRecv("dht/provider/buffered.SweepingProvider.done")}, "signal the worker, wait for it"},
		{"(*dht/provider/internal/connectivity.ConnectivityChecker).Close$1", []closeStep{stepCloseChan("dht/provider/internal/connectivity.ConnectivityChecker.done"), stepCall("(*sync.Mutex).Lock", "dht/provider/internal/connectivity.ConnectivityChecker.mutex")}, "signal the probe, then wait for it by taking its mutex"},
	}
	for _, sh := range shapes {
		f := c.P.Func(sh.Fn)
		if f == nil {
			// literal addressed as Close$1
			if strings.HasSuffix(sh.Fn, "$1") {
				if owner := c.Fn(strings.TrimSuffix(sh.Fn, "$1")); len(owner.Lits) >= 1 {
					f = owner.Lits[0]
				}
			}
		}
		c.Anchor(f != nil, "Close function %s not found", sh.Fn)
		c.Funcs[f.Name] = true
		cf := f.CFG()
		var locs []eng.Loc
		okAll := true
		missing := ""
		for _, st := range sh.Steps {
			var found eng.Loc
			f.Walk(func(n ast.Node) bool {
				if !found.Valid() && st.Match(f, n) {
					found = cf.LocOf(n)
				}
				return true
			})
			if !found.Valid() {
				okAll = false
				missing = st.What
				break
			}
			locs = append(locs, found)
		}
		if !c.Check(K(f.Name, "steps present"), f.Pos(), okAll, "Close performs: "+sh.Desc, "step missing: "+missing) {
			continue
		}
		for i := 0; i+1 < len(locs); i++ {
			c.Check(K(f.Name, "order "+sh.Steps[i].What+" < "+sh.Steps[i+1].What), f.Pos(), cf.Dominates(locs[i], locs[i+1]), "in Close, "+sh.Steps[i].What+" happens on every path before "+sh.Steps[i+1].What, "the later step is reachable without the earlier one")
		}
	}
	// sub-components closed
	{
		f := c.Fn("(*dht.IpfsDHT).Close")
		info := f.Info()
		got := map[string]bool{}
		f.Walk(func(n ast.Node) bool {
			if s, ok := n.(*ast.SelectorExpr); ok && eng.NameOf(s.Sel) == "Close" {
				for _, fld := range []string{"rtRefreshManager", "providerStore", "valueStore"} {
					if eng.IsField(info, s.X, "dht.IpfsDHT."+fld) {
						got[fld] = true
					}
				}
			}
			return true
		})
		for _, fld := range []string{"rtRefreshManager", "providerStore", "valueStore"} {
			c.Check(K(f.Name, "closes "+fld), f.Pos(), got[fld], "IpfsDHT.Close closes its "+fld+" (whose goroutines it started)", "no "+fld+".Close in the close list")
		}
		// collects exactly len(closes) results from one goroutine per element
		okCollect := false
		var closers eng.Object // the list ranged over by the loop that spawns one goroutine per element
		f.Walk(func(n ast.Node) bool {
			if rg, ok := n.(*ast.RangeStmt); ok {
				spawns := false
				ast.Inspect(rg.Body, func(m ast.Node) bool {
					if _, isGo := m.(*ast.GoStmt); isGo {
						spawns = true
					}
					return true
				})
				if spawns {
					closers = eng.ObjOf(info, rg.X)
				}
			}
			return true
		})
		f.Walk(func(n ast.Node) bool {
			var body *ast.BlockStmt
			switch lp := n.(type) {
			case *ast.RangeStmt:
				body = lp.Body
			case *ast.ForStmt:
				body = lp.Body
			}
			if st, ok := n.(ast.Stmt); ok && body != nil && closers != nil {
				x := countedOver(info, st)
				if x == nil {
					return true
				}
				receives := false
				ast.Inspect(body, func(m ast.Node) bool {
					if u, isU := m.(*ast.UnaryExpr); isU && u.Op == token.ARROW {
						receives = true
					}
					return true
				})
				if receives && eng.IsObj(info, x, closers) {
					okCollect = true
				}
			}
			return true
		})
		c.Check(K(f.Name, "collects every result"), f.Pos(), okCollect, "Close awaits exactly as many results as it started closers", "wait loop is not over len(closes)")
		// the wait for background loops precedes the closers
		var waitLoc eng.Loc
		for _, s := range callsOnField(f, "(*sync.WaitGroup).Wait", "dht.IpfsDHT.wg") {
			waitLoc = f.CFG().LocOf(s.Node)
		}
		okOrder := waitLoc.Valid()
		f.Walk(func(n ast.Node) bool {
			if gs, ok := n.(*ast.GoStmt); ok && okOrder {
				okOrder = f.CFG().Dominates(waitLoc, f.CFG().LocOf(gs))
			}
			return true
		})
		c.Check(K(f.Name, "loops end before stores close"), f.Pos(), okOrder, "the stores are closed only after the background loops ended", "closers can start before wg.Wait()")
	}
	{
		f := c.Fn("(*dht/fullrt.FullRT).Close")
		for _, callee := range []string{"(*dht/records.ProviderManager).Close", "(*dht/records.ValueStore).Close"} {
			c.Check(K(f.Name, "closes "+callee), f.Pos(), len(f.Calls(callee)) == 1, "FullRT.Close closes the store it constructed", "no call of "+callee)
		}
	}
	{
		f := c.Fn("(*dht/dual.DHT).Close")
		n := 0
		for _, call := range f.Calls("(*dht.IpfsDHT).Close") {
			s := eng.Unparen(call.Fun).(*ast.SelectorExpr)
			if eng.IsField(f.Info(), s.X, "dht/dual.DHT.WAN") || eng.IsField(f.Info(), s.X, "dht/dual.DHT.LAN") {
				n++
			}
		}
		c.Check(K(f.Name, "closes both"), f.Pos(), n == 2, "the dual DHT closes both inner DHTs unconditionally", "found "+itoa(n)+" inner Close calls")
	}
	{
		f := c.Fn("(*dht/provider/dual.SweepingProvider).Close")
		ok := len(f.CallsDeep("(*dht/provider.SweepingProvider).Close")) >= 1 && len(f.Calls("(*dht/provider/dual.SweepingProvider).runOnBoth")) == 1
		c.Check(K(f.Name, "closes both providers"), f.Pos(), ok, "the dual provider closes both inner providers", "runOnBoth(p.Close) not found")
		ro := c.Fn("(*dht/provider/dual.SweepingProvider).runOnBoth")
		n := 0
		fparam := paramObj(ro, "f")
		for _, s := range ro.CallsDeep("~") {
			if fparam == nil || eng.CalleeObj(s.F.Info(), s.Call()) != eng.Object(fparam) {
				continue
			}
			sel, isSel := eng.Unparen(s.Call().Args[0]).(*ast.SelectorExpr)
			if isSel && (eng.NameOf(sel.Sel) == "LAN" || eng.NameOf(sel.Sel) == "WAN") {
				n++
			}
		}
		c.Check(K(ro.Name, "both"), ro.Pos(), n == 2, "runOnBoth applies the function to the LAN and the WAN provider", "found "+itoa(n)+" applications")
	}
}

// c14Idempotent: channel closes in a Close are once-guarded.
func c14Idempotent(c *Ctx) {
	p := c.P
	n := 0
	for _, f := range p.Funcs() {
		root := f.Root()
		if root.Obj == nil || root.Obj.Name() != "Close" {
			continue
		}
		info := f.Info()
		f.Walk(func(x ast.Node) bool {
			call, ok := x.(*ast.CallExpr)
			if !ok || !eng.NameIn(eng.CalleeName(info, call), "builtin.close") {
				return true
			}
			fld := ""
			if s, isSel := eng.Unparen(call.Args[0]).(*ast.SelectorExpr); isSel {
				fld = eng.FieldName(info, s)
			}
			if fld == "" {
				return true // local channel
			}
			n++
			c.Funcs[f.Name] = true
			ok2 := false
			// (a) inside a literal passed to sync.Once.Do
			for g := f; g != nil && !ok2; g = g.Parent {
				if g.Lit == nil {
					break
				}
				if pc, isCall := p.Parent(g.Lit).(*ast.CallExpr); isCall && eng.CalleeName(g.Parent.Info(), pc) == "(*sync.Once).Do" {
					ok2 = true
				}
			}
			// (b) default arm of a select whose other arm receives from the same channel
			for y := p.Parent(call); y != nil && !ok2; y = p.Parent(y) {
				if cc, isCC := y.(*ast.CommClause); isCC && cc.Comm == nil {
					if sel := p.EnclosingSelect(cc); sel != nil {
						for _, sc := range eng.SelectCases(info, sel) {
							if sc.Chan != nil && eng.SameExpr(info, sc.Chan, call.Args[0]) {
								ok2 = true
							}
						}
					}
				}
				if _, isFn := y.(*ast.FuncLit); isFn {
					break
				}
			}
			// (c) every path to the close runs through such a default arm (`select { case <-ch: return; default: }; close(ch)`)
			if !ok2 {
				cf := f.CFG()
				for _, sel := range f.Selects() {
					same := false
					var dflt *ast.CommClause
					for _, sc := range eng.SelectCases(info, sel) {
						if sc.Chan != nil && eng.SameExpr(info, sc.Chan, call.Args[0]) {
							same = true
						}
						if sc.Kind == "default" {
							dflt = sc.Clause
						}
					}
					if !same || dflt == nil {
						continue
					}
					// the select is passed on every path to the close, and the close is unreachable
					// from the arm that saw the channel closed
					for _, sc := range eng.SelectCases(info, sel) {
						if sc.Chan == nil || !eng.SameExpr(info, sc.Chan, call.Args[0]) || sc.Clause.Comm == nil {
							continue
						}
						var phys eng.Loc
						for _, b := range cf.G.Blocks {
							for i, nd := range b.Nodes {
								if b.Live && nd == ast.Node(sc.Clause.Comm) {
									phys = eng.Loc{B: b, I: i}
								}
							}
						}
						arm := cf.LocOf(sc.Clause.Comm)
						if !phys.Valid() || !arm.Valid() {
							continue
						}
						reach, _ := cf.Reach(arm, eng.LocSet(cf.LocOf(call)), eng.ReachOpt{})
						if cf.Dominates(phys, cf.LocOf(call)) && !reach {
							ok2 = true
						}
					}
				}
			}
			c.Check(K(f.Name, "close("+fld+")"), call.Pos(), ok2, "a channel closed by Close is closed at most once (sync.Once, or select-default on the same channel), so Close may be called repeatedly", "unguarded close of a field channel in Close")
			return true
		})
	}
	c.Check("once-guarded closes", 0, n >= 3, "at least 3 Close methods close a field channel", "found "+itoa(n))
}

// c14Constructors: error returns release what was acquired; success returns started the joined goroutine.
func c14Constructors(c *Ctx) {
	p := c.P
	type acq struct {
		What    string
		Acquire func(f *eng.Func, call *ast.CallExpr) bool
		Release func(f *eng.Func, n ast.Node) bool
	}
	callNamed := func(names ...string) func(*eng.Func, *ast.CallExpr) bool {
		return func(f *eng.Func, call *ast.CallExpr) bool {
			return eng.NameIn(eng.CalleeName(f.Info(), call), names...)
		}
	}
	relCall := func(names ...string) func(*eng.Func, ast.Node) bool {
		return func(f *eng.Func, n ast.Node) bool {
			call, ok := n.(*ast.CallExpr)
			return ok && eng.NameIn(eng.CalleeName(f.Info(), call), names...)
		}
	}
	relAny := func(rs ...func(*eng.Func, ast.Node) bool) func(*eng.Func, ast.Node) bool {
		return func(f *eng.Func, n ast.Node) bool {
			for _, r := range rs {
				if r(f, n) {
					return true
				}
			}
			return false
		}
	}
	// a deferred literal that (conditionally) calls Close on the constructed object
	deferredClose := func(callee string) func(*eng.Func, ast.Node) bool {
		return func(f *eng.Func, n ast.Node) bool {
			d, ok := n.(*ast.DeferStmt)
			if !ok {
				return false
			}
			lit, isLit := eng.Unparen(d.Call.Fun).(*ast.FuncLit)
			if !isLit {
				return false
			}
			return len(f.P.FuncOfLit(lit).Calls(callee)) >= 1
		}
	}
	cleanupElem := func(f *eng.Func, n ast.Node) bool {
		call, ok := n.(*ast.CallExpr)
		if !ok {
			return false
		}
		if ix, isIx := eng.Unparen(call.Fun).(*ast.IndexExpr); isIx {
			if o := eng.ObjOf(f.Info(), ix.X); o != nil && eng.VarName(o) == "cleanupFuncs" {
				return true
			}
		}
		// `for _, fn := range cleanupFuncs { fn() }`, also through slices.Backward / All / Values
		if id, isId := eng.Unparen(call.Fun).(*ast.Ident); isId {
			if o := eng.ObjOf(f.Info(), id); o != nil {
				for x := f.P.Parent(call); x != nil; x = f.P.Parent(x) {
					rg, isRg := x.(*ast.RangeStmt)
					if !isRg {
						continue
					}
					list, elem := rg.X, rg.Value
					if it, isIt := eng.IsCallTo(f.Info(), rg.X, "slices.Backward", "slices.All", "slices.Values"); isIt && len(it.Args) == 1 {
						list = it.Args[0]
						if eng.CalleeName(f.Info(), it) == "slices.Values" {
							elem = rg.Key
						}
					}
					if elem != nil && eng.ObjOf(f.Info(), elem) == o {
						if lo := eng.ObjOf(f.Info(), list); lo != nil && eng.VarName(lo) == "cleanupFuncs" {
							return true
						}
					}
				}
			}
		}
		return eng.NameIn(eng.CalleeName(f.Info(), call), "dht/provider.cleanup")
	}
	ctors := []struct {
		Fn   string
		Acqs []acq
	}{
		{"dht.New", []acq{{"the DHT built by makeDHT (provider-manager sweeper, later the value sweeper and loops)", callNamed("dht.makeDHT"), deferredClose("(*dht.IpfsDHT).Close")}}},
		{"dht/dual.New", []acq{{"the running WAN DHT", func(f *eng.Func, call *ast.CallExpr) bool {
			return eng.CalleeName(f.Info(), call) == "dht.New" && len(call.Args) == 2 && eng.IsField(f.Info(), call.Args[1], "dht/dual.config.wan")
		}, relCall("(*dht.IpfsDHT).Close")}}},
		{"dht/fullrt.NewFullRT", []acq{
			{"the event-bus subscription", callNamed("(github.com/libp2p/go-libp2p/core/event.Bus).Subscribe"), relCall("(github.com/libp2p/go-libp2p/core/event.Subscription).Close", "(io.Closer).Close")},
			{"the lifetime context", callNamed("context.WithCancel"), relCall("var:cancel")},
		}},
		{"dht/provider.New", []acq{
			{"the keystore (worker goroutine)", callNamed("dht/provider/keystore.NewKeystore"), cleanupElem},
			{"the provider context", callNamed("context.WithCancel"), relCall("var:cancelCtx")},
		}},
		{"dht/provider/dual.New", []acq{
			{"the keystore (worker goroutine)", callNamed("dht/provider/keystore.NewKeystore"), cleanupElem},
			{"the first inner provider (run loop)", callNamed("dht/provider.New"), relAny(relCall("(*dht/provider.SweepingProvider).Close"), func(f *eng.Func, n ast.Node) bool { return false })},
		}},
	}
	for _, ct := range ctors {
		f := c.Fn(ct.Fn)
		cf := f.CFG()
		info := f.Info()
		for _, a := range ct.Acqs {
			var acqCalls []*ast.CallExpr
			f.Walk(func(n ast.Node) bool {
				if call, ok := n.(*ast.CallExpr); ok && a.Acquire(f, call) {
					acqCalls = append(acqCalls, call)
				}
				return true
			})
			if !c.Check(K(f.Name, "acquires "+a.What), f.Pos(), len(acqCalls) >= 1, "the constructor acquires "+a.What, "acquisition call not found") {
				continue
			}
			var rel []eng.Loc
			f.Walk(func(n ast.Node) bool {
				if a.Release(f, n) {
					// a release inside a loop over the acquired things counts at the loop's entry
					// (a path with zero iterations released everything there was)
					loc := cf.LocOf(n)
					for x := p.Parent(n); x != nil; x = p.Parent(x) {
						if rg, ok := x.(*ast.RangeStmt); ok {
							loc = cf.LocOf(rg.X)
							break
						}
						if fs, ok := x.(*ast.ForStmt); ok && fs.Init != nil {
							loc = cf.LocOf(fs.Init)
							break
						}
						if _, isFn := x.(*ast.FuncLit); isFn {
							break
						}
					}
					rel = append(rel, loc)
				}
				return true
			})
			for _, ac := range acqCalls {
				// start after the acquisition succeeded: the nil-error edge of its error test if there is one
				start := cf.LocOf(ac)
				for _, e := range factEdges(cf, func(ft eng.Fact) bool {
					call, isNilE, ok := ft.ErrCall()
					return ok && isNilE && call == ac
				}) {
					start = e.Start()
				}
				for i, ret := range cf.Returns() {
					if len(ret.Results) == 0 {
						continue
					}
					last := ret.Results[len(ret.Results)-1]
					if isNil(info, last) {
						continue // success return
					}
					if r, _ := cf.Reach(start, eng.LocSet(cf.LocOf(ret)), eng.ReachOpt{}); !r {
						continue
					}
					ok, w := cf.MustPass(start, eng.LocSet(cf.LocOf(ret)), eng.LocSet(rel...))
					// a deferred release registered before the return also counts
					for _, r := range rel {
						if _, isD := r.B.Nodes[r.I].(*ast.DeferStmt); isD && cf.Dominates(r, cf.LocOf(ret)) {
							ok = true
						}
					}
					c.CheckW(K(f.Name, "error return#"+itoa(i)+" releases "+a.What), ret.Pos(), ok, "a constructor that fails after acquiring "+a.What+" releases it before returning the error", "an error return is reachable after the acquisition without its release", cf.DescribePath(w))
				}
			}
		}
	}
	c14CleanupLists(c)
	c14Registration(c)
	// provider/dual.New closes providers built in EARLIER iterations: the release loop ranges over sweepingProviders[:i]
	{
		f := c.Fn("dht/provider/dual.New")
		okLoop := false
		info := f.Info()
		isProviders := func(e ast.Expr) bool {
			o := eng.ObjOf(info, e)
			return o != nil && eng.VarName(o) == "sweepingProviders"
		}
		f.Walk(func(n ast.Node) bool {
			switch lp := n.(type) {
			case *ast.RangeStmt:
				// for _, p := range sweepingProviders[:i]
				if se, isSl := eng.Unparen(eng.ArgExpr(info, lp.X)).(*ast.SliceExpr); isSl && se.Low == nil && se.High != nil && isProviders(se.X) {
					okLoop = true
					return true
				}
			}
			// for j := range i / for j := 0; j < i; j++ with sweepingProviders[j] closed in the body
			st, isStmt := n.(ast.Stmt)
			if !isStmt {
				return true
			}
			lo, hi, isLoop := tripCount(info, st)
			if !isLoop || lo != nil || hi == nil || lenOf(f, hi) != nil {
				return true
			}
			var counter eng.Object
			var body *ast.BlockStmt
			switch lp := st.(type) {
			case *ast.RangeStmt:
				if lp.Key != nil {
					counter = eng.ObjOf(info, lp.Key)
				}
				body = lp.Body
			case *ast.ForStmt:
				if b, isB := eng.Unparen(lp.Cond).(*ast.BinaryExpr); isB {
					counter = eng.ObjOf(info, b.X)
				}
				body = lp.Body
			}
			if counter == nil {
				return true
			}
			ast.Inspect(body, func(x ast.Node) bool {
				call, isCall := x.(*ast.CallExpr)
				if !isCall || eng.CalleeName(info, call) != "(*dht/provider.SweepingProvider).Close" {
					return true
				}
				sel, _ := eng.Unparen(call.Fun).(*ast.SelectorExpr)
				if sel == nil {
					return true
				}
				if ix, isIx := eng.Unparen(resolveLocal(f, sel.X)).(*ast.IndexExpr); isIx && isProviders(ix.X) && eng.ObjOf(info, ix.Index) == counter {
					okLoop = true
				}
				return true
			})
			return true
		})
		c.Check(K(f.Name, "closes earlier providers"), f.Pos(), okLoop, "a failing inner constructor closes the providers built before it", "no loop over sweepingProviders[:i]")
	}
	// success returns of constructors have started the joined goroutine
	for key, ent := range goTable {
		if ent.Class != "WG" && ent.Class != "DONE" {
			continue
		}
		spawner := key[:strings.Index(key, " -> ")]
		f := p.Func(spawner)
		if f == nil || f.Type.Results == nil {
			continue
		}
		// constructors: functions returning (T, error) or T with the object
		name := f.Obj.Name()
		if !(strings.HasPrefix(name, "New") || name == "StartGC") {
			continue
		}
		cf := f.CFG()
		info := f.Info()
		var gos []eng.Loc
		for _, g := range p.GoSites() {
			if g.Key() == key {
				gos = append(gos, cf.LocOf(g.Node))
			}
		}
		if name == "StartGC" {
			continue // conditional by design: a no-op when expiry is disabled; Close handles the never-started case
		}
		for i, ret := range cf.Returns() {
			if len(ret.Results) == 0 {
				continue
			}
			if len(ret.Results) >= 2 && !isNil(info, ret.Results[len(ret.Results)-1]) {
				continue // error return
			}
			if isNil(info, ret.Results[0]) {
				continue
			}
			ok, w := cf.MustPass(cf.Entry(), eng.LocSet(cf.LocOf(ret)), eng.LocSet(gos...))
			c.CheckW(K(f.Name, "success return#"+itoa(i)+" started "+key[strings.Index(key, " -> ")+4:]), ret.Pos(), ok, "every successful construction has started the goroutine its Close waits for (otherwise Close blocks forever)", "a success return is reachable without starting the goroutine", cf.DescribePath(w))
		}
	}
}

// localStoredInField: e names a single-assignment local that is the same value as the field
// when `before` runs: the local is defined from the field, or the field is assigned from the
// local by a statement dominating `before`.
func localStoredInField(f *eng.Func, e ast.Expr, field string, before ast.Node) bool {
	info := f.Info()
	d := localDef(f, e)
	if d == nil {
		return false
	}
	if eng.IsField(info, d, field) {
		return true
	}
	obj := eng.ObjOf(info, e)
	cf := f.CFG()
	found := false
	f.Walk(func(n ast.Node) bool {
		as, ok := n.(*ast.AssignStmt)
		if !ok || len(as.Lhs) != len(as.Rhs) {
			return true
		}
		for i, l := range as.Lhs {
			if eng.IsField(info, l, field) && eng.IsObj(info, as.Rhs[i], obj) && cf.Dominates(cf.LocOf(as), cf.LocOf(before)) {
				found = true
			}
		}
		return true
	})
	return found
}

// addsWhenTrue: h returns a single bool, contains exactly one Add(k) on the wait-group field,
// every `return true` is dominated by it and no `return false` is reachable from it.
func addsWhenTrue(h *eng.Func, wgField string) (int64, bool) {
	if h == nil || h.Type.Results == nil || len(h.Type.Results.List) != 1 || len(h.Type.Results.List[0].Names) > 1 {
		return 0, false
	}
	info := h.Info()
	cf := h.CFG()
	var adds []*ast.CallExpr
	for _, add := range h.Calls("(*sync.WaitGroup).Add") {
		if s, ok := eng.Unparen(add.Fun).(*ast.SelectorExpr); ok && eng.IsField(info, s.X, wgField) {
			adds = append(adds, add)
		}
	}
	if len(adds) != 1 {
		return 0, false
	}
	k, isC := eng.ConstInt(info, adds[0].Args[0])
	if !isC {
		return 0, false
	}
	al := cf.LocOf(adds[0])
	nTrue := 0
	for _, r := range cf.Returns() {
		if len(r.Results) != 1 {
			return 0, false
		}
		switch {
		case isBoolConst(info, r.Results[0], true):
			nTrue++
			if !cf.Dominates(al, cf.LocOf(r)) {
				return 0, false
			}
		case isBoolConst(info, r.Results[0], false):
			rl := cf.LocOf(r)
			if reach, _ := cf.Reach(al, func(l eng.Loc) bool { return l == rl }, eng.ReachOpt{}); reach {
				return 0, false
			}
		default:
			return 0, false
		}
	}
	return k, nTrue >= 1
}

// inferGoEntry proposes a join class for a goroutine site the table does not list: an owner
// WaitGroup field (spawned through field.Go, or behind a dominating field.Add) whose owner
// has a Close method, or a WaitGroup local to the spawner.  The proposal is then verified by
// the same obligations as a listed site; a site that fits neither shape stays a violation.
func inferGoEntry(c *Ctx, g eng.GoSite) (goEntry, bool) {
	info := g.F.Info()
	cf := g.F.CFG()
	fieldOf := func(e ast.Expr) string {
		if sel, ok := eng.Unparen(e).(*ast.SelectorExpr); ok {
			return eng.FieldName(info, sel)
		}
		return ""
	}
	ownerClose := func(fld string) (string, bool) {
		i := strings.LastIndex(fld, ".")
		if i < 0 {
			return "", false
		}
		cl := "(*" + fld[:i] + ").Close"
		return cl, c.P.Func(cl) != nil
	}
	if g.ViaWG != nil {
		if fld := fieldOf(g.ViaWG); fld != "" {
			if cl, ok := ownerClose(fld); ok {
				return goEntry{Class: "WG", Field: fld, Close: cl, Reason: "inferred: spawned through the owner's WaitGroup"}, true
			}
			return goEntry{}, false
		}
		return goEntry{Class: "SCOPED", Join: "wg", Reason: "inferred: WaitGroup local to the spawner"}, true
	}
	for _, add := range g.F.Calls("(*sync.WaitGroup).Add") {
		s, isSel := eng.Unparen(add.Fun).(*ast.SelectorExpr)
		if !isSel || !cf.Dominates(cf.LocOf(add), cf.LocOf(g.Node)) {
			continue
		}
		if fld := fieldOf(s.X); fld != "" {
			if cl, ok := ownerClose(fld); ok {
				return goEntry{Class: "WG", Field: fld, Close: cl, Reason: "inferred: registered with the owner's WaitGroup"}, true
			}
		} else if v, ok := eng.ObjOf(info, s.X).(*eng.Var); ok && !v.IsField() {
			return goEntry{Class: "SCOPED", Join: "wg", Reason: "inferred: WaitGroup local to the spawner"}, true
		}
	}
	return goEntry{}, false
}

// c14CleanupLists: wherever a list of clean-up functions is run, the loop visits every element
// of the list and calls each non-nil one (an off-by-one leaves the first registered resource —
// a datastore, the connectivity checker's probe goroutine — open after Close returned).
func c14CleanupLists(c *Ctx) {
	p := c.P
	n := 0
	for _, fn := range []string{"dht/provider.cleanup", "(*dht/provider/dual.SweepingProvider).Close", "dht/provider/dual.New"} {
		f := c.Fn(fn)
		info := f.Info()
		cf := f.CFG()
		f.Walk(func(x ast.Node) bool {
			call, ok := x.(*ast.CallExpr)
			if !ok || len(call.Args) != 0 {
				return true
			}
			tv, has := info.Types[call.Fun]
			if !has {
				return true
			}
			sig, isSig := tv.Type.Underlying().(*types.Signature)
			if !isSig || sig.Params().Len() != 0 || sig.Results().Len() != 1 || sig.Results().At(0).Type().String() != "error" {
				return true
			}
			switch fe := eng.Unparen(call.Fun).(type) {
			case *ast.IndexExpr:
			case *ast.Ident:
				if _, isVar := info.Uses[fe].(*types.Var); !isVar {
					return true
				}
			default:
				return true
			}
			// nearest enclosing loop
			var loop ast.Stmt
			for y := p.Parent(call); y != nil; y = p.Parent(y) {
				if _, isLit := y.(*ast.FuncLit); isLit {
					break
				}
				if st, isLoop := y.(*ast.ForStmt); isLoop {
					loop = st
					break
				}
				if st, isLoop := y.(*ast.RangeStmt); isLoop {
					loop = st
					break
				}
			}
			if loop == nil {
				return true
			}
			n++
			list, isElem, body := fullTraversal(f, loop)
			okList := false
			if list != nil {
				if ltv, has := info.Types[list]; has {
					if sl, isSl := ltv.Type.Underlying().(*types.Slice); isSl {
						_, okList = sl.Elem().Underlying().(*types.Signature)
					}
				}
			}
			if !c.Check(K(f.Name, "clean-up loop visits the whole list"), loop.Pos(), okList && isElem(call.Fun), "a loop that runs clean-up functions visits every element of their list, first to last or last to first", "the loop around "+short(call)+" is not a full traversal of the list it calls elements of") {
				return true
			}
			leaves := false
			ast.Inspect(body, func(y ast.Node) bool {
				switch b := y.(type) {
				case *ast.FuncLit:
					return false
				case *ast.ReturnStmt:
					leaves = true
				case *ast.BranchStmt:
					if b.Tok == token.GOTO || b.Label != nil || (b.Tok == token.BREAK && !insideInnerBreakable(p, b, loop)) {
						leaves = true
					}
				}
				return true
			})
			// every turn calls the element unless it is nil
			var outs []eng.Loc
			for _, b := range cf.G.Blocks {
				if !b.Live {
					continue
				}
				for i, nd := range b.Nodes {
					if !eng.Contains(body, nd) {
						outs = append(outs, eng.Loc{B: b, I: i})
					}
				}
			}
			outs = append(outs, cf.Exits(false)...)
			first := cf.FirstLocIn(body)
			okCall, w := passOrFact(cf, first, eng.LocSet(outs...), cf.LocsOf(call), func(ft eng.Fact) bool {
				e, isNilF, isN := ft.NilFact()
				return isN && isNilF && isElem(e)
			})
			for _, l := range cf.LocsOf(call) {
				if l == first {
					okCall = true // the call is the first thing a turn does
				}
			}
			c.CheckW(K(f.Name, "clean-up loop calls every element"), call.Pos(), okCall && !leaves, "every non-nil clean-up function of the list is called, whatever the others returned", "a turn of the loop can end without calling its element, or the loop can be left early", cf.DescribePath(w))
			return true
		})
	}
	c.Check("clean-up loops", 0, n >= 3, "the clean-up loops of provider and provider/dual were found", "found "+itoa(n))
}

// c14Registration: a resource whose release goes through a clean-up list is registered in that
// list as soon as it exists: from the successful acquisition no return is reachable before
// `<list> = append(<list>, <resource>.Close)` (a registration moved further down leaves the
// error returns in between without it, although they all run the list).
func c14Registration(c *Ctx) {
	type acq struct{ fn, callee, what string }
	for _, a := range []acq{
		{"dht/provider.New", "dht/provider/keystore.NewKeystore", "the keystore (worker goroutine)"},
		{"dht/provider.New", "dht/provider/internal/connectivity.New", "the connectivity checker (probe goroutine)"},
		{"dht/provider/dual.New", "dht/provider/keystore.NewKeystore", "the keystore (worker goroutine)"},
	} {
		f := c.Fn(a.fn)
		info := f.Info()
		cf := f.CFG()
		calls := f.Calls(a.callee)
		if !c.Check(K(f.Name, "acquires "+a.what+" once"), f.Pos(), len(calls) == 1, "the constructor creates "+a.what+" in one place", "found "+itoa(len(calls))) {
			continue
		}
		ac := calls[0]
		as, isAs := c.P.Parent(ac).(*ast.AssignStmt)
		if !c.Check(K(f.Name, "holds "+a.what), ac.Pos(), isAs && len(as.Lhs) == 2, "the result is kept", "not assigned") {
			continue
		}
		res := as.Lhs[0]
		// registrations: assignments to a []func() error variable whose right side mentions <res>.Close
		var regs []eng.Loc
		f.Walk(func(x ast.Node) bool {
			st, ok := x.(*ast.AssignStmt)
			if !ok || len(st.Lhs) != 1 || len(st.Rhs) != 1 {
				return true
			}
			tv, has := info.Types[st.Lhs[0]]
			if !has {
				return true
			}
			sl, isSl := tv.Type.Underlying().(*types.Slice)
			if !isSl {
				return true
			}
			if _, isFn := sl.Elem().Underlying().(*types.Signature); !isFn {
				return true
			}
			mentions := false
			ast.Inspect(st.Rhs[0], func(y ast.Node) bool {
				if sel, isSel := y.(*ast.SelectorExpr); isSel && sel.Sel.Name == "Close" && eng.SameExpr(info, sel.X, res) {
					if _, isCall := c.P.Parent(sel).(*ast.CallExpr); !isCall || c.P.Parent(sel).(*ast.CallExpr).Fun != ast.Expr(sel) {
						mentions = true
					}
				}
				return true
			})
			if mentions {
				regs = append(regs, cf.LocsOf(st)...)
			}
			return true
		})
		start := cf.LocOf(ac)
		for _, e := range factEdges(cf, func(ft eng.Fact) bool {
			call, isNilE, ok := ft.ErrCall()
			return ok && isNilE && call == ac
		}) {
			start = e.Start()
		}
		ok, w := cf.MustPass(start, eng.LocSet(cf.Exits(false)...), eng.LocSet(regs...))
		var rets []eng.Loc
		for _, r := range cf.Returns() {
			rets = append(rets, cf.LocOf(r))
		}
		ok2, w2 := cf.MustPass(start, eng.LocSet(rets...), eng.LocSet(regs...))
		if !ok2 {
			w = w2
		}
		c.CheckW(K(f.Name, "registers "+a.what+" at once"), ac.Pos(), ok && ok2 && len(regs) >= 1, "once "+a.what+" exists, its Close is put on the clean-up list before anything else can make the constructor return", "a return is reachable after the successful acquisition and before its Close is registered", cf.DescribePath(w))
	}
}
