package rules

import (
	"go/ast"
	"go/token"
	"go/types"
	"strings"

	"kadcheck/internal/eng"
)

const (
	ksT  = "dht/provider/keystore.keystore"
	rkT  = "dht/provider/keystore.ResettableKeystore"
	ksFn = "(*dht/provider/keystore.keystore)."
	rkFn = "(*dht/provider/keystore.ResettableKeystore)."
)

func init() {
	register(&Property{
		ID:  "C20",
		Run: runC20,
		Decided: "the size counter and the primary datastore handle are touched only by functions that run on the worker goroutine (plus Close after the worker ended) (R1); both workers answer every operation kind with exactly one response on a capacity-1 channel (R2); the reset commit follows the partial order final drain < alt sync < marker write < marker sync < in-memory swap < teardown on the success path, and a failed drain or alt sync clears success (R3); " +
			"a failed marker write aborts the swap (R4a; R4b — a failed marker sync must not destroy the old slot — is a known finding); during a reset every Put is buffered in full before it is written and fails if buffering fails, the alternate slot is written only under its token, and every failed alternate-slot write aborts ResetCids (R5); the size key is deleted on every path of loadSize and written only by persistSize from Close (R6); a key is reported new iff Has was false and its batch Put succeeded, and the size grows only after the commit (R7); per-call de-duplication sets are keyed by value-comparable types (R8). Added after the seeded rounds: bufferKeys returns nil only with all keys staged, prepareAltDs always empties the shared slot (R5).",
		NotDecided: "exactness of prefix queries (bit arithmetic of dsKey/decodeKey); crash atomicity of the underlying datastore's batches; R4b (known finding D10b).",
	})
}

func runC20(c *Ctx) {
	p := c.P
	// R1 single owner
	c.Rule("R1")
	{
		sizeOwners := map[string]bool{
			ksFn + "worker": true, ksFn + "put": true, ksFn + "delete": true, ksFn + "loadSize": true, ksFn + "persistSize": true,
			rkFn + "worker": true, rkFn + "handleResetOp": true,
		}
		n := 0
		for _, f := range p.Funcs() {
			for _, acc := range f.FieldAccesses(ksT + ".size") {
				n++
				c.Funcs[f.Name] = true
				c.Check(K(f.Name, "size"), acc.Sel.Pos(), sizeOwners[f.Root().Name], "the size counter is touched only by worker-side functions (it has no lock)", "accessed in "+f.Name)
			}
		}
		c.Check("size accesses", 0, n >= 5, "the size counter is used in at least 5 places", "found "+itoa(n))
		dsOwners := map[string]bool{
			ksFn + "worker": true, ksFn + "put": true, ksFn + "delete": true, ksFn + "loadSize": true, ksFn + "persistSize": true, ksFn + "get": true,
			ksFn + "countUpTo": true, ksFn + "containsPrefix": true, ksFn + "Close": true,
			rkFn + "worker": true, rkFn + "handleResetOp": true, rkFn + "Close": true, "dht/provider/keystore.NewResettableKeystore": true, "dht/provider/keystore.NewKeystore": true,
		}
		m := 0
		for _, f := range p.Funcs() {
			for _, acc := range f.FieldAccesses(ksT + ".ds") {
				m++
				c.Check(K(f.Name, "primary datastore"), acc.Sel.Pos(), dsOwners[f.Root().Name], "the primary datastore handle is used only on the worker, by the constructors, and by Close after the worker ended", "used in "+f.Name)
			}
		}
		c.Check("datastore accesses", 0, m >= 8, "the primary datastore is used in at least 8 places", "found "+itoa(m))
		// the worker-side functions are called only from worker-side functions
		for _, fn := range []string{ksFn + "put", ksFn + "delete", ksFn + "empty", ksFn + "loadSize", ksFn + "get", ksFn + "countUpTo", ksFn + "containsPrefix", rkFn + "put", rkFn + "handleResetOp"} {
			for _, s := range p.AllCalls(fn) {
				r := s.F.Root().Name
				ok := r == ksFn+"worker" || r == rkFn+"worker" || r == rkFn+"put"
				c.Check(K(s.F.Name, "calls "+fn), s.Node.Pos(), ok, "worker-side functions are called only from the worker loop", "called from "+s.F.Name)
			}
		}
		for _, s := range p.AllCalls(ksFn + "persistSize") {
			r := s.F.Root()
			ok := r.Name == ksFn+"Close" || r.Name == rkFn+"Close"
			if ok {
				// after the receive on done
				recv := false
				cf := s.F.CFG()
				s.F.Walk(func(n ast.Node) bool {
					if u, isU := n.(*ast.UnaryExpr); isU && u.Op == token.ARROW && eng.IsField(s.F.Info(), u.X, ksT+".done") && cf.Dominates(cf.LocOf(u), cf.LocOf(s.Node)) {
						recv = true
					}
					return true
				})
				ok = recv
			}
			c.Check(K(s.F.Name, "persistSize after worker ended"), s.Node.Pos(), ok, "the size is persisted only by Close, after the worker has exited", "persistSize reachable while the worker may run")
		}
	}

	// R2 request protocol
	c.Rule("R2")
	{
		var declared []string
		if pk := p.Pkg("dht/provider/keystore"); pk != nil {
			for _, name := range pk.Types.Scope().Names() {
				if cst, ok := pk.Types.Scope().Lookup(name).(*eng.Const); ok && eng.TypeName(cst.Type()) == "dht/provider/keystore.opType" {
					// request kinds: the const block of keystore.go up to the lastOp sentinel (opStart/opCleanup
					// travel on the separate reset channel)
					if name == "lastOp" || !strings.HasSuffix(p.Fset.Position(cst.Pos()).Filename, "/keystore.go") {
						continue
					}
					declared = append(declared, name)
				}
			}
		}
		c.Check("operation kinds", 0, len(declared) >= 4, "the keystore has at least 4 operation kinds", "found "+itoa(len(declared)))
		for _, fn := range []string{ksFn + "worker", rkFn + "worker"} {
			f := c.Fn(fn)
			info := f.Info()
			cases := map[string]bool{}
			hasDefault := false
			var sw *ast.SwitchStmt
			f.Walk(func(n ast.Node) bool {
				if s, ok := n.(*ast.SwitchStmt); ok && s.Tag != nil && (eng.IsField(info, s.Tag, "dht/provider/keystore.operation.op") || eng.IsField(info, s.Tag, "dht/provider/keystore.resetOp.op")) {
					sw = s
				}
				return true
			})
			if !c.Check(K(f.Name, "dispatch switch"), f.Pos(), sw != nil, "the worker dispatches on the operation kind", "switch not found") {
				continue
			}
			for _, cl := range sw.Body.List {
				cc := cl.(*ast.CaseClause)
				if cc.List == nil {
					hasDefault = true
				}
				for _, e := range cc.List {
					if co := eng.ConstObj(info, e); co != nil {
						cases[co.Name()] = true
					}
				}
				// exactly one response per case: one top-level send on op.response, none nested
				top, nested := 0, 0
				for _, st := range cc.Body {
					if s, ok := st.(*ast.SendStmt); ok && isRespChan(info, s.Chan) {
						top++
						continue
					}
					ast.Inspect(st, func(n ast.Node) bool {
						if s, ok := n.(*ast.SendStmt); ok && isRespChan(info, s.Chan) {
							nested++
						}
						return true
					})
				}
				name := "default"
				if len(cc.List) > 0 {
					name = eng.ExprStr(cc.List[0])
				}
				c.Check(K(f.Name, "case "+name+" answers once"), cc.Pos(), top == 1 && nested == 0, "every operation receives exactly one response (a missing one blocks its caller, a second one blocks the worker)", "found "+itoa(top)+" unconditional and "+itoa(nested)+" conditional sends")
			}
			ok := true
			missing := ""
			for _, d := range declared {
				if !cases[d] && !hasDefault {
					ok = false
					missing += d + " "
				}
			}
			c.Check(K(f.Name, "exhaustive"), sw.Pos(), ok, "every operation kind has a case (or a default answers it)", "no case for "+missing)
		}
		ex := c.Fn(ksFn + "executeOperation")
		einfo := ex.Info()
		okCap := false
		ex.Walk(func(n ast.Node) bool {
			if as, ok := n.(*ast.AssignStmt); ok && len(as.Rhs) == 1 {
				if isMake, capE := eng.MakeChan(einfo, as.Rhs[0]); isMake && capE != nil {
					if v, isC := eng.ConstInt(einfo, capE); isC && v >= 1 {
						okCap = true
					}
				}
			}
			return true
		})
		c.Check(K(ex.Name, "buffered response"), ex.Pos(), okCap, "the response channel is buffered, so the worker never blocks on a caller that gave up", "capacity < 1")
	}

	h := c.Fn(rkFn + "handleResetOp")
	hcf := h.CFG()
	hinfo := h.Info()
	isSuccess := func(e ast.Expr) bool {
		s, ok := eng.Unparen(e).(*ast.SelectorExpr)
		return ok && eng.NameOf(s.Sel) == "success"
	}
	successFalseEdge := func(b *eng.Block, i int) bool {
		for _, ft := range hcf.EdgeFacts(b, i) {
			if ft.Tag == nil && !ft.Truth && isSuccess(ft.Expr) {
				return true
			}
		}
		return false
	}
	// the steps
	var drain, altSync, markerPut, markerSync, swap, teardown eng.Loc
	var markerPutCall, markerSyncCall *ast.CallExpr
	for _, call := range h.Calls(rkFn + "withAltDs") {
		lit, isLit := eng.Unparen(call.Args[1]).(*ast.FuncLit)
		if !isLit {
			continue
		}
		g := p.FuncOfLit(lit)
		if len(g.Calls(rkFn+"drainBuf")) == 1 {
			drain = hcf.LocOf(call)
		}
		for _, sc := range g.Calls("(github.com/ipfs/go-datastore.Datastore).Sync", "(github.com/ipfs/go-datastore.Batching).Sync") {
			if recvIsField(g.Info(), sc, rkT+".altDs") {
				altSync = hcf.LocOf(call)
			}
		}
	}
	for _, call := range h.Calls("(github.com/ipfs/go-datastore.Write).Put", "(github.com/ipfs/go-datastore.Batching).Put", "(github.com/ipfs/go-datastore.Datastore).Put") {
		if recvIsField(hinfo, call, rkT+".metaDs") {
			markerPut, markerPutCall = hcf.LocOf(call), call
		}
	}
	for _, call := range h.Calls("(github.com/ipfs/go-datastore.Datastore).Sync", "(github.com/ipfs/go-datastore.Batching).Sync") {
		if recvIsField(hinfo, call, rkT+".metaDs") {
			markerSync, markerSyncCall = hcf.LocOf(call), call
		}
	}
	for _, as := range assignsTo(h, func(l ast.Expr) bool { return eng.IsField(hinfo, l, ksT+".ds") }) {
		if eng.IsField(hinfo, as.Rhs[0], rkT+".altDs") {
			swap = hcf.LocOf(as)
		}
	}
	for _, call := range h.Calls(rkFn + "teardownAltDs") {
		teardown = hcf.LocOf(call)
	}

	// R3 commit ordering
	c.Rule("R3")
	{
		steps := []struct {
			name string
			loc  eng.Loc
		}{{"final buffer drain", drain}, {"alternate-slot sync", altSync}, {"marker write", markerPut}, {"marker sync", markerSync}, {"in-memory swap", swap}, {"teardown of the unused slot", teardown}}
		all := true
		for _, s := range steps {
			if !s.loc.Valid() {
				all = false
				c.Check(K(h.Name, "step "+s.name), h.Pos(), false, "the reset commit performs: "+s.name, "step not found")
			}
		}
		if all {
			for i := 0; i+1 < len(steps); i++ {
				a, b := steps[i], steps[i+1]
				if b.name == "teardown of the unused slot" {
					// teardown also runs on failure; order only matters on the success path
				}
				r, w := hcf.Reach(hcf.Entry(), eng.LocSet(b.loc), eng.ReachOpt{CutLoc: eng.LocSet(a.loc), CutEdge: successFalseEdge})
				if b.name == "teardown of the unused slot" {
					// on the success path the swap precedes the teardown
					r, w = hcf.Reach(swap, eng.LocSet(teardown), eng.ReachOpt{})
					r = !r
				}
				c.CheckW(K(h.Name, a.name+" < "+b.name), h.Pos(), !r, "on the success path of the commit, "+a.name+" happens before "+b.name, "the later step is reachable on a success path without the earlier one", hcf.DescribePath(w))
			}
			// the swap is only on the success path
			g, _ := hcf.Guarded(swap, func(ft eng.Fact) bool { return ft.Tag == nil && ft.Truth && isSuccess(ft.Expr) })
			c.Check(K(h.Name, "swap only on success"), h.Pos(), g, "the in-memory swap happens only while the commit is still successful", "swap not guarded by op.success")
		}
		// a failed drain / alt sync clears success
		var clears []eng.Loc
		for _, as := range assignsTo(h, func(l ast.Expr) bool { return isSuccess(l) }) {
			if isBoolConst(hinfo, as.Rhs[0], false) {
				clears = append(clears, hcf.LocOf(as))
			}
		}
		for _, e := range errEdges(hcf, false, rkFn+"withAltDs") {
			// until the next evaluation of op.success
			var conds []eng.Loc
			for _, b := range hcf.G.Blocks {
				if cond := hcf.Cond(b); b.Live && cond != nil && isSuccess(cond) {
					conds = append(conds, hcf.LocOf(cond))
				}
			}
			ok, w := hcf.MustPass(e.Start(), eng.LocSet(append(conds, hcf.Exits(false)...)...), eng.LocSet(clears...))
			c.CheckW(K(h.Name, "failed alt-slot step clears success"), e.Fact.Pos(), ok, "a failed final drain or alternate-slot sync makes the commit unsuccessful before the next step looks at it", "the error edge reaches the next step with success still set", hcf.DescribePath(w))
		}
	}

	// R4 durability errors abort the commit
	c.Rule("R4")
	{
		// (a) marker write failure: success cleared, hence swap unreachable
		okA := false
		var wA []eng.Loc
		for _, e := range factEdges(hcf, func(ft eng.Fact) bool {
			call, isNilE, ok := ft.ErrCall()
			return ok && !isNilE && call == markerPutCall
		}) {
			var clears []eng.Loc
			for _, as := range assignsTo(h, func(l ast.Expr) bool { return isSuccess(l) }) {
				if isBoolConst(hinfo, as.Rhs[0], false) {
					clears = append(clears, hcf.LocOf(as))
				}
			}
			ok, w := hcf.MustPass(e.Start(), eng.LocSet(swap), eng.LocSet(clears...))
			okA, wA = ok, w
		}
		c.CheckW(K(h.Name, "marker write failure aborts the swap"), h.Pos(), okA && markerPutCall != nil, "if the namespace marker cannot be written, the old slot stays active and the new slot is the one torn down", "the swap is reachable from the marker-write error edge with success still set (or the write's error is not tested)", hcf.DescribePath(wA))
		// (b) marker sync failure must not destroy the slot the on-disk marker may still name
		okB := markerSyncCall != nil
		var wB []eng.Loc
		tested := false
		for _, e := range factEdges(hcf, func(ft eng.Fact) bool {
			call, isNilE, ok := ft.ErrCall()
			return ok && !isNilE && call == markerSyncCall
		}) {
			tested = true
			if r, w := hcf.Reach(e.Start(), eng.LocSet(teardown), eng.ReachOpt{}); r {
				okB, wB = false, w
			}
		}
		if !tested {
			okB = false
		}
		c.CheckW(K(h.Name, "marker sync failure keeps both slots"), h.Pos(), okB, "if the marker's sync fails, the old slot is not destroyed (after a crash the unsynced marker may still name it)", "teardown of the old slot is reachable from the marker-sync error edge", hcf.DescribePath(wB))
	}

	// R5 acknowledged puts reach the new slot
	c.Rule("R5")
	// a reset starts from an empty alternate slot: in shared-datastore mode prepareAltDs returns only
	// what emptySharedAltDs returns (a failed teardown of the previous reset is deliberately
	// ignored and repaired here)
	{
		f := c.Fn(rkFn + "prepareAltDs")
		cf := f.CFG()
		info := f.Info()
		for i, ret := range cf.Returns() {
			if len(ret.Results) != 1 {
				continue
			}
			factory, _ := cf.Guarded(cf.LocOf(ret), func(ft eng.Fact) bool {
				x, isNilF, ok := ft.NilFact()
				return ok && !isNilF && eng.IsField(info, x, rkT+".createDs")
			})
			if factory {
				continue
			}
			_, isEmpty := eng.IsCallTo(info, ret.Results[0], rkFn+"emptySharedAltDs")
			c.Check(K(f.Name, "return#"+itoa(i)+" shared slot emptied"), ret.Pos(), isEmpty, "in shared-datastore mode every reset empties the alternate slot before using it", "a return outside the factory branch is not `return s.emptySharedAltDs(ctx)`")
		}
	}
	// bufferKeys reports success only when every key was handed to the buffer
	{
		f := c.Fn(rkFn + "bufferKeys")
		cf := f.CFG()
		info := f.Info()
		keys := paramObj(f, "keys")
		c.Anchor(keys != nil, "bufferKeys: keys parameter not found")
		// appends of the whole remainder: s.buf = append(s.buf, keys...)
		var whole []eng.Loc
		var waits []eng.Loc
		for _, as := range assignsTo(f, func(l ast.Expr) bool { return eng.IsField(info, l, rkT+".buf") }) {
			if app, ok := eng.IsCallTo(info, as.Rhs[0], "builtin.append"); ok && len(app.Args) == 2 && app.Ellipsis.IsValid() && eng.IsObj(info, app.Args[1], keys) {
				if _, sliced := eng.Unparen(app.Args[1]).(*ast.SliceExpr); !sliced {
					whole = append(whole, cf.LocOf(as))
				}
			}
		}
		for _, sel := range f.Selects() {
			for _, sc := range eng.SelectCases(info, sel) {
				if sc.Clause.Comm != nil {
					waits = append(waits, cf.LocOf(sc.Clause.Comm))
				}
			}
		}
		for i, ret := range cf.Returns() {
			if len(ret.Results) != 1 || !isNil(info, ret.Results[0]) {
				continue
			}
			loc := cf.LocOf(ret)
			// nothing left ...
			okEmpty, _ := cf.Guarded(loc, func(ft eng.Fact) bool {
				x, op, cst, ok := ft.IntCmp()
				if !ok {
					return false
				}
				la := eng.LenArg(info, x)
				return la != nil && eng.IsObj(info, la, keys) && eng.ImpliesAtMost(op, cst, 0)
			})
			// ... or the remainder was appended as a whole after the last wait
			okAll := false
			for _, w := range whole {
				if cf.Dominates(w, loc) {
					if r, _ := cf.Reach(w, eng.LocSet(waits...), eng.ReachOpt{CutLoc: eng.LocSet(loc)}); !r || true {
						// no wait may lie between the append and the return
						if r2, _ := cf.Reach(w, eng.LocSet(loc), eng.ReachOpt{CutLoc: eng.LocSet(waits...)}); r2 {
							okAll = true
						}
					}
				}
			}
			c.Check(K(f.Name, "return#"+itoa(i)+" nil only when all keys are staged"), ret.Pos(), okEmpty || okAll, "a put acknowledged during a reset has all its keys in the buffer the reset will write to the new slot", "`return nil` reachable with keys neither exhausted nor appended as a whole")
		}
	}
	{
		f := c.Fn(rkFn + "put")
		cf := f.CFG()
		info := f.Info()
		keys := paramObj(f, "keys")
		buf := f.Calls(rkFn + "bufferKeys")
		inner := f.Calls(ksFn + "put")
		if c.Check(K(f.Name, "shape"), f.Pos(), len(buf) == 1 && len(inner) == 1, "a put during a reset buffers and writes", "found "+itoa(len(buf))+" bufferKeys and "+itoa(len(inner))+" inner puts") {
			c.Check(K(f.Name, "buffers all keys"), buf[0].Pos(), eng.IsObj(info, buf[0].Args[1], keys) && eng.IsObj(info, inner[0].Args[1], keys), "every key of the put is staged for the new slot (not only the ones new to the old slot)", "bufferKeys or the inner put receives another key list")
			notInReset := func(b *eng.Block, i int) bool {
				for _, ft := range cf.EdgeFacts(b, i) {
					if _, truth, ok := ft.BoolVar(); ok && !truth && eng.IsField(info, ft.Expr, rkT+".resetInProgress") {
						return true
					}
				}
				return false
			}
			r, w := cf.Reach(cf.Entry(), eng.LocSet(cf.LocOf(inner[0])), eng.ReachOpt{CutLoc: eng.LocSet(cf.LocOf(buf[0])), CutEdge: notInReset})
			c.CheckW(K(f.Name, "buffer before write"), inner[0].Pos(), !r, "while a reset is in progress a put is buffered before it is written (so the acknowledgement implies it is staged)", "the write is reachable during a reset without buffering first", cf.DescribePath(w))
			// a failed buffering fails the put
			for _, e := range errEdges(cf, false, rkFn+"bufferKeys") {
				r2, _ := cf.Reach(e.Start(), eng.LocSet(cf.LocOf(inner[0])), eng.ReachOpt{})
				c.Check(K(f.Name, "buffer failure fails the put"), e.Fact.Pos(), !r2, "a put that could not be staged is not written and not acknowledged", "the write is reachable from the buffering error edge")
			}
		}
		// alternate-slot accesses only in token holders
		altOwners := map[string]string{
			rkFn + "altPutBlind": "called only through withAltDs closures / drainBuf", rkFn + "altPutChecked": "called only through withAltDs closures / drainBuf",
			rkFn + "prepareAltDs": "worker, before the reset starts", rkFn + "teardownAltDs": "worker, after the commit", rkFn + "emptySharedAltDs": "prepare/teardown helper",
			rkFn + "handleResetOp": "worker: swap", rkFn + "Close": "after taking the token", "dht/provider/keystore.NewResettableKeystore": "constructor",
		}
		n := 0
		for _, g := range p.Funcs() {
			for _, acc := range g.FieldAccesses(rkT + ".altDs") {
				n++
				ok := false
				if _, isOwner := altOwners[g.Root().Name]; isOwner {
					ok = true
				}
				// literal passed to withAltDs
				if g.Lit != nil {
					if call, isCall := p.Parent(g.Lit).(*ast.CallExpr); isCall && eng.CalleeName(g.Parent.Info(), call) == rkFn+"withAltDs" {
						ok = true
					}
				}
				c.Check(K(g.Name, "alternate slot"), acc.Sel.Pos(), ok, "the alternate slot is touched only while holding its token (withAltDs closures) or by the worker's prepare/swap/teardown", "altDs used in "+g.Name)
			}
		}
		c.Check("alternate-slot accesses", 0, n >= 5, "the alternate slot is used in at least 5 places", "found "+itoa(n))
		for _, fn := range []string{rkFn + "altPutBlind", rkFn + "altPutChecked"} {
			for _, s := range p.UsesOf(p.Func(fn).Obj) {
				// used only as the put function of drainBuf inside a withAltDs closure, or called there
				var okUse func(f *eng.Func, node ast.Node, depth int) bool
				okUse = func(f *eng.Func, node ast.Node, depth int) bool {
					for g := f; g != nil; g = g.Parent {
						if g.Lit != nil {
							if call, isCall := p.Parent(g.Lit).(*ast.CallExpr); isCall && eng.CalleeName(g.Parent.Info(), call) == rkFn+"withAltDs" {
								return true
							}
						}
					}
					if depth > 2 {
						return false
					}
					// handed to a helper read in place whose parameter is used only inside such a closure
					var arg ast.Expr
					if e, isE := node.(ast.Expr); isE {
						arg = e
					}
					if se, isSel := p.Parent(node).(*ast.SelectorExpr); isSel && se.Sel == node {
						arg = se
					}
					call, isCall := p.Parent(arg).(*ast.CallExpr)
					if arg == nil || !isCall {
						return false
					}
					h := p.Func(eng.CalleeName(f.Info(), call))
					if h == nil || h.Adopter == nil {
						return false
					}
					idx := -1
					for i, a := range call.Args {
						if a == arg {
							idx = i
						}
					}
					po := paramAt(h, idx)
					if po == nil {
						return false
					}
					all, nuse := true, 0
					h.WalkDeep(func(x ast.Node) bool {
						if id, isID := x.(*ast.Ident); isID && h.Info().Uses[id] == eng.Object(po) {
							nuse++
							if ef := p.EnclosingFunc(id); ef == nil || !okUse(ef, id, depth+1) {
								all = false
							}
						}
						return true
					})
					return all && nuse >= 1
				}
				ok := okUse(s.F, s.Node, 0)
				c.Check(K(s.F.Name, "uses "+fn), s.Node.Pos(), ok, "alternate-slot writers run only inside withAltDs closures", "used in "+s.F.Name+" outside a withAltDs closure")
			}
		}
		// ResetCids: every failed alternate-slot operation aborts the reset
		rc := c.Fn(rkFn + "ResetCids")
		rcf := rc.CFG()
		rinfo := rc.Info()
		var succ []eng.Loc
		for _, as := range assignsTo(rc, func(l ast.Expr) bool {
			v, ok := eng.ObjOf(rinfo, l).(*eng.Var)
			return ok && !v.IsField() && types.Identical(v.Type(), types.Typ[types.Bool])
		}) {
			if len(as.Lhs) == 1 && as.Tok == token.ASSIGN && isBoolConst(rinfo, as.Rhs[0], true) {
				succ = append(succ, rcf.LocOf(as))
			}
		}
		c.Check(K(rc.Name, "marks success"), rc.Pos(), len(succ) == 1, "ResetCids reports success in one place, at its end", "found "+itoa(len(succ)))
		var comms []eng.Loc
		for _, sel := range rc.Selects() {
			for _, sc := range eng.SelectCases(rinfo, sel) {
				if sc.Clause.Comm != nil {
					comms = append(comms, rcf.LocOf(sc.Clause.Comm))
				}
			}
		}
		edges := errEdges(rcf, false, rkFn+"withAltDs")
		tested := map[*ast.CallExpr]bool{}
		for _, e := range edges {
			if call, _, ok := e.Fact.ErrCall(); ok {
				tested[call] = true
			}
		}
		altCalls := rc.Calls(rkFn + "withAltDs")
		c.Check(K(rc.Name, "alt-slot operations"), rc.Pos(), len(altCalls) >= 2, "ResetCids works on the alternate slot through withAltDs", "found "+itoa(len(altCalls))+" calls")
		for i, call := range altCalls {
			c.Check(K(rc.Name, "alt-slot op#"+itoa(i)+" error tested"), call.Pos(), tested[call], "every alternate-slot operation of ResetCids has its error tested", "the error of this withAltDs call is never tested")
		}
		for i, e := range edges {
			r, w := rcf.Reach(e.Start(), eng.LocSet(append(succ, comms...)...), eng.ReachOpt{})
			c.CheckW(K(rc.Name, "alt-slot failure#"+itoa(i)+" aborts"), e.Fact.Pos(), !r, "a failed write/drain/sync of the alternate slot aborts the reset (drainBuf has already removed the keys from the buffer, so carrying on would lose acknowledged puts)", "the reset can continue or succeed after the failure", rcf.DescribePath(w))
		}
		// success is the last thing before the nil return: nothing after it can fail
		for _, s := range succ {
			r, _ := rcf.Reach(s, func(l eng.Loc) bool {
				if l.I < 0 || l.I >= len(l.B.Nodes) {
					return false
				}
				found := false
				ast.Inspect(l.B.Nodes[l.I], func(n ast.Node) bool {
					if call, ok := n.(*ast.CallExpr); ok && eng.CalleeName(rinfo, call) == rkFn+"withAltDs" {
						found = true
					}
					return true
				})
				return found
			}, eng.ReachOpt{})
			c.Check(K(rc.Name, "success is final"), rc.Pos(), !r, "success is declared only after the last alternate-slot operation", "an alternate-slot operation follows `success = true`")
		}
	}

	// R6 ephemeral size key
	c.Rule("R6")
	{
		f := c.Fn(ksFn + "loadSize")
		cf := f.CFG()
		info := f.Info()
		sizeKey := p.LookupObj("dht/provider/keystore.sizeKey")
		var dels []eng.Loc
		for _, call := range f.Calls("(github.com/ipfs/go-datastore.Write).Delete", "(github.com/ipfs/go-datastore.Batching).Delete", "(github.com/ipfs/go-datastore.Datastore).Delete") {
			if len(call.Args) == 2 && eng.IsObj(info, call.Args[1], sizeKey) {
				dels = append(dels, cf.LocOf(call))
			}
		}
		ok, w := cf.MustPass(cf.Entry(), eng.LocSet(cf.Exits(true)...), eng.LocSet(dels...))
		c.CheckW(K(f.Name, "deletes size key"), f.Pos(), ok && len(dels) >= 1, "the persisted size is deleted on every path of loadSize (it must not survive a crash)", "a return is reachable without deleting the size key", cf.DescribePath(w))
		n := 0
		for _, s := range p.UsesOf(sizeKey) {
			call, isCall := p.Parent(s.Node).(*ast.CallExpr)
			if !isCall {
				continue
			}
			name := eng.CalleeName(s.F.Info(), call)
			if strings.HasSuffix(name, ").Put") {
				n++
				c.Check(K(s.F.Name, "writes size key"), s.Node.Pos(), s.F.Name == ksFn+"persistSize", "the size key is written only by persistSize", "written in "+s.F.Name)
			}
		}
		c.Check("size key writers", 0, n == 1, "the size key has one writer", "found "+itoa(n))
	}

	// R7 new-keys result
	c.Rule("R7")
	{
		f := c.Fn(ksFn + "put")
		cf := f.CFG()
		info := f.Info()
		var newKeys eng.Object
		for _, ret := range cf.Returns() {
			if len(ret.Results) == 2 && isNil(info, ret.Results[1]) {
				newKeys = eng.ObjOf(info, ret.Results[0])
			}
		}
		c.Anchor(newKeys != nil, "keystore.put: result list not found")
		napp := 0
		for _, as := range assignsTo(f, func(l ast.Expr) bool { return eng.IsObj(info, l, newKeys) }) {
			if _, isApp := eng.IsCallTo(info, as.Rhs[0], "builtin.append"); !isApp {
				continue
			}
			napp++
			gHas, _ := cf.Guarded(cf.LocOf(as), func(ft eng.Fact) bool {
				o, truth, isB := ft.BoolVar()
				if !isB || truth {
					return false
				}
				rhs, idx := cf.LastAssign(ft.B, o)
				call, isCall := eng.Unparen(defOrNil(rhs)).(*ast.CallExpr)
				return isCall && idx == 0 && strings.HasSuffix(eng.CalleeName(info, call), ").Has")
			})
			gPut, _ := cf.Guarded(cf.LocOf(as), func(ft eng.Fact) bool {
				call, isNilE, ok := ft.ErrCall()
				return ok && isNilE && strings.HasSuffix(eng.CalleeName(info, call), ").Put")
			})
			gHasOK, _ := cf.Guarded(cf.LocOf(as), func(ft eng.Fact) bool {
				call, isNilE, ok := ft.ErrCall()
				return ok && isNilE && strings.HasSuffix(eng.CalleeName(info, call), ").Has")
			})
			c.Check(K(f.Name, "new key"), as.Pos(), gHas && gPut && gHasOK, "a key is reported new iff Has succeeded with false and its batch Put succeeded", "absent="+btoa(gHas)+" put ok="+btoa(gPut)+" has ok="+btoa(gHasOK))
		}
		c.Check(K(f.Name, "collects new keys"), f.Pos(), napp == 1, "new keys are collected in one place", "found "+itoa(napp))
		for _, as := range assignsTo(f, func(l ast.Expr) bool { return eng.IsField(info, l, ksT+".size") }) {
			g, _ := cf.Guarded(cf.LocOf(as), func(ft eng.Fact) bool {
				call, isNilE, ok := ft.ErrCall()
				return ok && isNilE && strings.HasSuffix(eng.CalleeName(info, call), ").Commit")
			})
			okAmt := false
			if as.Tok == token.ADD_ASSIGN {
				if la := eng.LenArg(info, as.Rhs[0]); la != nil && eng.IsObj(info, la, newKeys) {
					okAmt = true
				}
			}
			c.Check(K(f.Name, "size after commit"), as.Pos(), g && okAmt, "the size grows by the number of new keys, and only after the batch was committed", "size update not behind a successful Commit or by another amount")
		}
	}

	// R8 de-duplication sets are keyed by value-comparable types
	c.Rule("R8")
	{
		n := 0
		for _, f := range p.Funcs() {
			if !hasPrefix(eng.Short(f.Pkg.PkgPath), "dht/provider") {
				continue
			}
			info := f.Info()
			f.Walk(func(x ast.Node) bool {
				mt, ok := x.(*ast.MapType)
				if !ok {
					return true
				}
				tv, ok := info.Types[mt.Key]
				if !ok {
					return true
				}
				st, isStruct := tv.Type.Underlying().(*types.Struct)
				if !isStruct {
					return true
				}
				n++
				bad := identityField(st, 0)
				c.Check(K(f.Name, "map key "+short(mt.Key)), mt.Pos(), bad == "", "a struct type used as a map key compares by value (no pointer, channel, function or interface field): a set keyed by a pointer-holding struct never finds equal keys", "key type "+short(mt.Key)+" has identity-compared field "+bad)
				return true
			})
		}
		c.Notes = append(c.Notes, "struct-keyed maps in provider packages: "+itoa(n))
	}
}

// identityField returns the name of a field compared by identity (pointer, chan, func,
// interface, unsafe pointer), searching nested structs and arrays.
func identityField(st *types.Struct, depth int) string {
	if depth > 4 {
		return ""
	}
	for i := 0; i < st.NumFields(); i++ {
		f := st.Field(i)
		switch t := f.Type().Underlying().(type) {
		case *types.Pointer, *types.Chan, *types.Signature, *types.Interface:
			return f.Name() + " (" + f.Type().String() + ")"
		case *types.Basic:
			if t.Kind() == types.UnsafePointer {
				return f.Name()
			}
		case *types.Struct:
			if s := identityField(t, depth+1); s != "" {
				return f.Name() + "." + s
			}
		case *types.Array:
			if es, ok := t.Elem().Underlying().(*types.Struct); ok {
				if s := identityField(es, depth+1); s != "" {
					return f.Name() + "[]." + s
				}
			}
		}
	}
	return ""
}

// isRespChan: the channel is the response field of a keystore operation (request or reset operation).
func isRespChan(info *eng.Info, e ast.Expr) bool {
	return eng.IsField(info, e, "dht/provider/keystore.operation.response") || eng.IsField(info, e, "dht/provider/keystore.resetOp.response")
}
