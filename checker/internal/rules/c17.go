package rules

import (
	"go/ast"
	"go/token"

	"kadcheck/internal/eng"
)

func init() {
	register(&Property{
		ID:  "C17",
		Run: runC17,
		Decided: "six necessary structural clauses only: work that failed after it was dequeued is re-queued on every error edge (provide: failedProvide with the same prefix and keys; reprovide: failedReprovide and reschedule), and every region handed to a reprovide is released and rescheduled (R1); the address record sent is built in the same operation from selfAddrInfo(), i.e. the current addresses and the provider's own ID, and the keys reprovided after exploration are those of the covered prefix (R2); " +
			"StopProviding removes from the provide queue and, in schedule mode, from the keystore, and reprovides load their keys from the keystore at reprovide time (R3); the buffered wrapper: a later start (not a provide-once) cancels an earlier stop, a stop is recorded, execution order is force-start, start, provide-once, stop (R4); the provide queue is persisted on Close and drained on resume (R5); going offline clears the provide queue and invalidates the prefix length, coming online re-measures and refreshes the schedule when it was offline and always catches up pending work (R6). Added after the seeded rounds: the buffered worker blocks only behind a flag that becomes true after a short dequeue and starts false (R4); claimed regions all reach provideRegions, every start cancels a queued stop, ExtendBinaryPrefix is only asked to extend (R7). Round 4: every key of a first provide is remembered for the failure path, whatever else switches the collection on (R8).",
		NotDecided: "THE BEHAVIOURAL CORE: the schedule itself, timing (`at least once per interval plus delay`), region coverage, catch-up bounds, which peers are the r nearest — all statements about runtime values over virtual time that no shape argument bounds.",
	})
}

// c17WorkerStartsByDraining: the buffered provider's worker blocks for new items only after a
// dequeue came back short, so operations persisted before a restart are applied without
// waiting for an unrelated new one.
func c17WorkerStartsByDraining(c *Ctx) {
	f := c.Fn("(*dht/provider/buffered.SweepingProvider).worker")
	info := f.Info()
	cf := f.CFG()
	var flag eng.Object
	nWait := 0
	for _, sel := range f.Selects() {
		hasDefault, onNew := false, false
		var at eng.Loc
		for _, sc := range eng.SelectCases(info, sel) {
			if sc.Kind == "default" {
				hasDefault = true
			}
			if sc.Chan != nil && eng.IsField(info, sc.Chan, "dht/provider/buffered.SweepingProvider.newItems") {
				onNew = true
				at = cf.LocOf(sc.Clause.Comm)
			}
		}
		if hasDefault || !onNew {
			continue
		}
		nWait++
		g, gd := cf.Guarded(at, func(ft eng.Fact) bool {
			o, truth, isB := ft.BoolVar()
			if isB && truth {
				flag = o
			}
			return isB && truth
		})
		_ = gd
		c.Check(K(f.Name, "blocking wait behind a flag"), sel.Pos(), g && flag != nil, "the worker blocks for new items only when a flag says the queue was drained", "the blocking select is not guarded by a boolean flag")
	}
	c.Check(K(f.Name, "blocking wait"), f.Pos(), nWait == 1, "the worker has one blocking wait for new items", "found "+itoa(nWait))
	if flag == nil {
		return
	}
	for i, d := range assignsDeep(f.Root(), flag) {
		if d == nil {
			continue // `var drained bool`: starts false
		}
		if isBoolConst(info, d, false) {
			continue
		}
		ok := false
		if isBoolConst(info, d, true) {
			// only after GetN returned fewer items than asked for
			var at eng.Loc
			f.Walk(func(n ast.Node) bool {
				switch x := n.(type) {
				case *ast.AssignStmt:
					for k, r := range x.Rhs {
						if r == d && k < len(x.Lhs) {
							at = cf.LocOf(x)
						}
					}
				case *ast.ValueSpec:
					for _, r := range x.Values {
						if r == d {
							at = cf.LocOf(x)
						}
					}
				}
				return true
			})
			if at.Valid() {
				ok, _ = cf.Guarded(at, func(ft eng.Fact) bool {
					x, op, y, isRel := ft.Rel()
					if !isRel || (op != eng.LSS && op != eng.LEQ) {
						return false
					}
					la := eng.LenArg(info, x)
					if la == nil || !eng.IsField(info, y, "dht/provider/buffered.SweepingProvider.batchSize") {
						return false
					}
					def := f.LocalVarDef(eng.ObjOf(info, la))
					_, isGet := eng.IsCallTo(info, defOrNil(def), "(*github.com/ipfs/go-dsqueue.DSQueue).GetN")
					return isGet
				})
			}
		}
		c.Check(K(f.Name, "drained flag#"+itoa(i)), d.Pos(), ok, "the drained flag becomes true only after a dequeue returned fewer items than the batch size (it starts false: what a previous run left in the queue is applied first)", "the flag is set by "+short(d)+" without a short dequeue")
	}
}

// c17Round3: rules added after the third seeded round.
func c17Round3(c *Ctx) {
	p := c.P
	// (a) the regions a reprovide claimed all reach provideRegions (which releases the claim of an
	// empty region): between the claim and the hand-over the list is only ever passed through
	// AssignKeysToRegions
	for _, fn := range []string{spFn + "batchReprovide", spFn + "batchProvide"} {
		f := c.Fn(fn)
		info := f.Info()
		var regions eng.Object
		for _, call := range f.Calls(spFn + "provideRegions") {
			if len(call.Args) >= 1 {
				regions = eng.ObjOf(info, call.Args[0])
			}
		}
		if !c.Check(K(f.Name, "hands regions over"), f.Pos(), regions != nil, "the batch hands its regions to provideRegions", "no provideRegions(regions, ...) call") {
			continue
		}
		for _, as := range assignsTo(f, func(l ast.Expr) bool { return eng.IsObj(info, l, regions) }) {
			rhs := rhsFor(as, 0)
			for i, l := range as.Lhs {
				if eng.IsObj(info, l, regions) {
					rhs = rhsFor(as, i)
				}
			}
			_, ok := eng.IsCallTo(info, rhs, spFn+"exploreSwarm", spFn+"claimRegionReprovide", "dht/provider/internal/keyspace.AssignKeysToRegions")
			c.Check(K(f.Name, "regions = "+short(rhs)), as.Pos(), ok, "the region list comes from the exploration, is narrowed by the claim, and gets its keys assigned — nothing else removes a region before provideRegions (a claimed region that never reaches it is never released)", "regions reassigned from "+short(rhs))
		}
	}
	// (b) every start, forced or not, cancels a queued stop of the same key
	{
		f := c.Fn("dht/provider/buffered.getOperations")
		cf := f.CFG()
		info := f.Info()
		dels, _ := cf.CallLocs("builtin.delete")
		isConstNamed := func(e ast.Expr, name string) bool {
			co := eng.ConstObj(info, e)
			return co != nil && co.Name() == name
		}
		for _, name := range []string{"startProvidingOp", "forceStartProvidingOp"} {
			n := 0
			for _, b := range cf.G.Blocks {
				if !b.Live || cf.Cond(b) == nil {
					continue
				}
				for si := 0; si < 2; si++ {
					hit := false
					fts := cf.EdgeFacts(b, si)
					for _, grp := range cf.EdgeDisj(b, si) {
						fts = append(fts, grp...) // `op == A || op == B`: the edge is taken for either
					}
					for _, ft := range fts {
						if x, y, eq, ok := ft.EqFact(); ok && eq && (isConstNamed(x, name) || isConstNamed(y, name)) {
							hit = true
						}
					}
					if !hit {
						continue
					}
					n++
					from := eng.Loc{B: b.Succs[si], I: -2}
					heads := loopHeads(cf, p, b.Nodes[len(b.Nodes)-1])
					r, w := cf.Reach(from, eng.LocSet(append(heads, cf.Exits(false)...)...), eng.ReachOpt{CutLoc: eng.LocSet(dels...)})
					c.CheckW(K(f.Name, name+" cancels a queued stop"), b.Nodes[len(b.Nodes)-1].Pos(), !r, "a StartProviding (forced or not) that follows a StopProviding of the same key in one batch removes the stop, so the key ends up provided as it would one by one", "the iteration for "+name+" can finish without delete(stopProv, key)", cf.DescribePath(w))
				}
			}
			c.Check(K(f.Name, name+" tested"), f.Pos(), n >= 1, "the dispatch has an edge on which the operation is "+name, "no such edge")
		}
	}
	// (c) ExtendBinaryPrefix(p, n) is only asked to extend: len(p) < n (it answers nil otherwise, and a
	// gap already at or beyond the target length would vanish from the schedule)
	for _, s := range p.AllCalls("dht/provider/internal/keyspace.ExtendBinaryPrefix") {
		info := s.F.Info()
		cf := s.F.CFG()
		call := s.Call()
		g, _ := cf.Guarded(cf.LocOf(call), func(ft eng.Fact) bool {
			x, op, y, ok := ft.Rel()
			if !ok {
				return false
			}
			la := eng.LenArg(info, x)
			if la != nil && eng.SameExpr(info, la, call.Args[0]) && eng.SameExpr(info, y, call.Args[1]) && (op == eng.LSS || op == eng.LEQ) {
				return true
			}
			la = eng.LenArg(info, y)
			return la != nil && eng.SameExpr(info, la, call.Args[0]) && eng.SameExpr(info, x, call.Args[1]) && (op == eng.GTR || op == eng.GEQ)
		})
		c.Check(K(s.F.Name, "extends only shorter prefixes"), call.Pos(), g, "ExtendBinaryPrefix is called only behind len(prefix) < n (longer prefixes are kept as they are)", "call not guarded by a length comparison of its two arguments")
	}
}

func runC17(c *Ctx) {
	p := c.P
	// R1 failed work is re-queued
	c.Rule("R1")
	{
		nEdges := 0
		type spec struct {
			fn        string
			steps     []string // callees whose error edge must requeue
			requeue   []string
			alsoCalls []string
		}
		for _, sp := range []spec{
			{spFn + "batchProvide", []string{spFn + "exploreSwarm"}, []string{spFn + "failedProvide"}, nil},
			{spFn + "batchReprovide", []string{spFn + "exploreSwarm", "(dht/provider/keystore.Keystore).CountKeysUpTo", "(dht/provider/keystore.Keystore).Get"}, []string{spFn + "failedReprovide"}, []string{spFn + "reschedulePrefix"}},
			{spFn + "provideRegions", []string{spFn + "sendProviderRecords"}, []string{spFn + "failedProvide", spFn + "failedReprovide"}, nil},
		} {
			f := c.Fn(sp.fn)
			cf := f.CFG()
			info := f.Info()
			rq, _ := cf.CallLocs(sp.requeue...)
			for _, step := range sp.steps {
				edges := errEdges(cf, false, step)
				c.Check(K(f.Name, "tests error of "+step), f.Pos(), len(edges) >= 1, "the error of "+step+" is tested", "no test found")
				for i, e := range edges {
					nEdges++
					// next loop iteration or exit
					targets := append([]eng.Loc{}, cf.Exits(false)...)
					if call, _, ok := e.Fact.ErrCall(); ok {
						targets = append(targets, loopHeads(cf, p, call)...)
					}
					ok, w := cf.MustPass(e.Start(), eng.LocSet(targets...), eng.LocSet(rq...))
					c.CheckW(K(f.Name, "requeue after failed "+step+"#"+itoa(i)), e.Fact.Pos(), ok, "work that failed at "+step+" is put back into its queue before the function moves on", "a path leaves the error edge without re-queuing", cf.DescribePath(w))
					for _, also := range sp.alsoCalls {
						al, _ := cf.CallLocs(also)
						ok2, w2 := cf.MustPass(e.Start(), eng.LocSet(targets...), eng.LocSet(al...))
						c.CheckW(K(f.Name, "reschedule after failed "+step+"#"+itoa(i)), e.Fact.Pos(), ok2, "a failed reprovide keeps its prefix in the schedule", "a path leaves the error edge without "+also, cf.DescribePath(w2))
					}
				}
			}
			// requeue arguments: the same prefix (and keys) that were being worked on
			for _, call := range f.Calls(spFn + "failedProvide") {
				okArgs := len(call.Args) == 3
				if okArgs && f.Name == spFn+"batchProvide" {
					okArgs = eng.IsObj(info, call.Args[0], paramObj(f, "prefix")) && eng.IsObj(info, call.Args[1], paramObj(f, "keys"))
				}
				if okArgs && f.Name == spFn+"provideRegions" {
					s, isSel := eng.Unparen(call.Args[0]).(*ast.SelectorExpr)
					okArgs = isSel && eng.NameOf(s.Sel) == "Prefix"
					if okArgs {
						// keys gathered from this region
						okArgs = false
						if o := eng.ObjOf(info, call.Args[1]); o != nil {
							for _, as := range assignsTo(f, func(l ast.Expr) bool { return eng.IsObj(info, l, o) }) {
								if _, isApp := eng.IsCallTo(info, as.Rhs[0], "builtin.append"); isApp {
									okArgs = true
								}
							}
						}
					}
				}
				c.Check(K(f.Name, "requeue arguments"), call.Pos(), okArgs, "failed keys are re-queued under the prefix they were dequeued with", "arguments differ")
			}
		}
		c.Check("error edges", 0, nEdges >= 3, "at least 3 error edges re-queue their work", "found "+itoa(nEdges))
		// the re-queue helpers really enqueue
		fp := c.Fn(spFn + "failedProvide")
		okFP := false
		for _, call := range fp.Calls("(*dht/provider/internal/queue.ProvideQueue).Enqueue") {
			okFP = eng.IsObj(fp.Info(), call.Args[0], paramObj(fp, "prefix")) && eng.IsObj(fp.Info(), call.Args[1], paramObj(fp, "keys")) && call.Ellipsis.IsValid()
		}
		c.Check(K(fp.Name, "enqueues"), fp.Pos(), okFP, "failedProvide puts prefix and keys back into the provide queue", "Enqueue(prefix, keys...) not found")
		fr := c.Fn(spFn + "failedReprovide")
		okFR := false
		for _, call := range fr.Calls("(*dht/provider/internal/queue.ReprovideQueue).Enqueue") {
			okFR = eng.IsObj(fr.Info(), call.Args[0], paramObj(fr, "prefix"))
		}
		c.Check(K(fr.Name, "enqueues"), fr.Pos(), okFR, "failedReprovide puts the prefix into the reprovide queue", "Enqueue(prefix) not found")
		// individual provides: a failed single provide is re-queued (provide) or reported+rescheduled (reprovide)
		ip := c.Fn(spFn + "individualProvide")
		nv := 0
		for _, s := range ip.CallsDeep(spFn + "vanillaProvide") {
			nv++
			g := s.F
			gcf := g.CFG()
			ginfo := g.Info()
			reprov := paramObj(ip, "reprovide")
			// on the error edge with !reprovide, failedProvide is reached
			rq, _ := gcf.CallLocs(spFn + "failedProvide")
			okRQ := false
			for _, l := range rq {
				at := func(leaf ast.Expr) (string, bool, bool) {
					if eng.IsObj(ginfo, leaf, reprov) {
						return "reprovide", true, true
					}
					b, ok := eng.Unparen(leaf).(*ast.BinaryExpr)
					if ok && isNil(ginfo, b.Y) {
						if o := eng.ObjOf(ginfo, b.X); o != nil && eng.VarName(o) == "err" {
							return "errNil", b.Op == token.EQL, true
						}
					}
					return "", false, false
				}
				if gcf.ImpliedAt(l, at, []string{"reprovide", "errNil"}, func(v map[string]bool) bool { return !v["errNil"] && !v["reprovide"] }) {
					// and conversely every such state reaches it: the guard is exactly that
					okRQ = true
				}
			}
			c.Check(K(g.Name, "failed individual provide re-queued"), s.Node.Pos(), okRQ, "a key whose individual provide failed goes back to the provide queue (provide mode)", "failedProvide not behind `err != nil && !reprovide`")
		}
		c.Check(K(ip.Name, "individual provides"), ip.Pos(), nv == 2, "single-key and multi-key branches both provide individually", "found "+itoa(nv))
		{
			cf := ip.CFG()
			info := ip.Info()
			reprov := paramObj(ip, "reprovide")
			rs, _ := cf.CallLocs(spFn + "reschedulePrefix")
			okRS := len(rs) == 1
			if okRS {
				okRS, _ = cf.Guarded(rs[0], func(ft eng.Fact) bool {
					o, truth, ok := ft.BoolVar()
					return ok && truth && o == eng.Object(reprov)
				})
				// nothing else conditions it
				okRS = okRS && len(cf.DominatingConds(rs[0])) == 2 // len(keys) != 0, reprovide
			}
			c.Check(K(ip.Name, "reprovide rescheduled"), ip.Pos(), okRS, "an individually reprovided prefix is always put back into the schedule", "reschedulePrefix conditional on more than `reprovide`")
			fl, _ := cf.CallLocs(spFn + "failedReprovide")
			okFl := len(fl) == 1
			if okFl {
				okFl, _ = cf.Guarded(fl[0], func(ft eng.Fact) bool {
					x, isNilF, ok := ft.NilFact()
					o := eng.ObjOf(info, x)
					return ok && !isNilF && o != nil && eng.VarName(o) == "provideErr"
				})
			}
			c.Check(K(ip.Name, "failed reprovide queued"), ip.Pos(), okFl, "an individual reprovide that failed is put into the reprovide queue", "failedReprovide not behind provideErr != nil")
		}
		// regions of a reprovide are released and rescheduled on every iteration
		pr := c.Fn(spFn + "provideRegions")
		{
			cf := pr.CFG()
			info := pr.Info()
			reprov := paramObj(pr, "reprovide")
			var rng *ast.RangeStmt
			pr.Walk(func(n ast.Node) bool {
				if r, ok := n.(*ast.RangeStmt); ok && rng == nil && eng.IsObj(info, r.X, paramObj(pr, "regions")) {
					rng = r
				}
				return true
			})
			if c.Check(K(pr.Name, "region loop"), pr.Pos(), rng != nil && len(rng.Body.List) > 0, "provideRegions iterates its regions", "loop not found") {
				start := eng.Loc{B: cf.FirstLocIn(rng.Body.List[0]).B, I: -2}
				heads := loopHeads(cf, p, rng.Body.List[0])
				notReprov := func(b *eng.Block, i int) bool {
					for _, ft := range cf.EdgeFacts(b, i) {
						if o, truth, ok := ft.BoolVar(); ok && !truth && o == eng.Object(reprov) {
							return true
						}
					}
					return false
				}
				rel, _ := cf.CallLocs(spFn + "releaseRegionReprovide")
				r, w := cf.Reach(start, eng.LocSet(append(heads, cf.Exits(false)...)...), eng.ReachOpt{CutLoc: eng.LocSet(rel...), CutEdge: notReprov})
				c.CheckW(K(pr.Name, "every claimed region released"), rng.Pos(), !r, "every region of a reprovide is released again, whatever happens to it (an unreleased region is skipped by every later reprovide)", "an iteration can end in reprovide mode without releaseRegionReprovide", cf.DescribePath(w))
				// released regions with keys are rescheduled
				rs, _ := cf.CallLocs(spFn + "reschedulePrefix")
				sends, _ := cf.CallLocs(spFn + "sendProviderRecords")
				okRS := len(sends) == 1
				if okRS {
					r2, _ := cf.Reach(sends[0], eng.LocSet(append(heads, cf.Exits(false)...)...), eng.ReachOpt{CutLoc: eng.LocSet(rs...), CutEdge: notReprov})
					okRS = !r2
				}
				c.Check(K(pr.Name, "reprovided region rescheduled"), rng.Pos(), okRS, "a region whose records were sent in reprovide mode is put back into the schedule", "an iteration can end in reprovide mode without reschedulePrefix")
				for _, call := range pr.Calls(spFn+"releaseRegionReprovide", spFn+"reschedulePrefix") {
					s, isSel := eng.Unparen(call.Args[0]).(*ast.SelectorExpr)
					c.Check(K(pr.Name, short(call.Fun)+" argument"), call.Pos(), isSel && eng.NameOf(s.Sel) == "Prefix" && eng.SameExpr(info, s.X, rng.Value), "release and reschedule name the region being processed", "another prefix")
				}
			}
		}
	}

	// R2 current addresses, covered prefix
	c.Rule("R2")
	{
		sa := c.Fn(spFn + "selfAddrInfo")
		sinfo := sa.Info()
		okSA := false
		for _, ret := range sa.CFG().Returns() {
			if len(ret.Results) != 2 || !isBoolConst(sinfo, ret.Results[1], true) {
				continue
			}
			cl, isCL := eng.Unparen(ret.Results[0]).(*ast.CompositeLit)
			if !isCL {
				continue
			}
			idOK, addrOK := false, false
			for _, el := range cl.Elts {
				kv := el.(*ast.KeyValueExpr)
				switch eng.NameOf(kv.Key.(*ast.Ident)) {
				case "ID":
					idOK = eng.IsField(sinfo, kv.Value, spT+".peerid")
				case "Addrs":
					if o := eng.ObjOf(sinfo, kv.Value); o != nil {
						for _, d := range sa.AssignedFrom(o) {
							if call, ok := eng.Unparen(defOrNil(d)).(*ast.CallExpr); ok && eng.CalleeName(sinfo, call) == "field:"+spT+".getSelfAddrs" {
								addrOK = true
							}
						}
					}
				}
			}
			g, _ := sa.CFG().Guarded(sa.CFG().LocOf(ret), func(ft eng.Fact) bool {
				_, nonEmpty, ok := emptinessFact(ft)
				return ok && nonEmpty
			})
			okSA = idOK && addrOK && g
		}
		c.Check(K(sa.Name, "record"), sa.Pos(), okSA, "the advertised record is {own peer ID, getSelfAddrs() evaluated now}, and only when non-empty", "record built differently")
		for _, fn := range []string{spFn + "batchProvide", spFn + "batchReprovide"} {
			f := c.Fn(fn)
			info := f.Info()
			var ai eng.Object
			for _, call := range f.Calls(spFn + "selfAddrInfo") {
				if as, ok := p.Parent(call).(*ast.AssignStmt); ok {
					ai = eng.ObjOf(info, as.Lhs[0])
				}
			}
			n := 0
			for _, call := range f.Calls(spFn + "provideRegions") {
				n++
				c.Check(K(f.Name, "addresses of this operation"), call.Pos(), ai != nil && eng.IsObj(info, call.Args[1], ai), "the records sent carry the address record computed at the start of this very operation", "another AddrInfo is passed")
			}
			c.Check(K(f.Name, "provides regions"), f.Pos(), n == 1, "the operation provides its regions", "found "+itoa(n)+" provideRegions calls")
		}
		// after exploration the keys of the COVERED prefix are reprovided
		br := c.Fn(spFn + "batchReprovide")
		binfo := br.Info()
		bcf := br.CFG()
		var covered eng.Object
		for _, call := range br.Calls(spFn + "exploreSwarm") {
			if as, ok := p.Parent(call).(*ast.AssignStmt); ok && len(as.Lhs) == 3 {
				covered = eng.ObjOf(binfo, as.Lhs[1])
			}
		}
		nGet := 0
		for _, call := range br.Calls("(dht/provider/keystore.Keystore).Get") {
			after, _ := bcf.Guarded(bcf.LocOf(call), func(ft eng.Fact) bool { return ft.ErrOf(true, spFn+"exploreSwarm") })
			if !after {
				c.Check(K(br.Name, "small region keys"), call.Pos(), eng.IsObj(binfo, call.Args[1], paramObj(br, "prefix")), "without exploration the keys of the requested prefix are reprovided", "another prefix")
				continue
			}
			nGet++
			c.Check(K(br.Name, "covered prefix keys"), call.Pos(), covered != nil && eng.IsObj(binfo, call.Args[1], covered), "after exploring the swarm, the keys of the prefix actually covered are loaded (sibling regions merged by a shrinking swarm are unscheduled together, so their keys must go out together)", "keys loaded for another prefix than the covered one")
		}
		c.Check(K(br.Name, "loads covered keys"), br.Pos(), nGet == 1, "the explored branch loads its keys once", "found "+itoa(nGet))
	}

	// R3 StopProviding
	c.Rule("R3")
	{
		f := c.Fn(spFn + "StopProviding")
		cf := f.CFG()
		info := f.Info()
		keys := paramObj(f, "keys")
		rm := f.Calls("(*dht/provider/internal/queue.ProvideQueue).Remove")
		okRm := len(rm) == 1 && eng.IsObj(info, rm[0].Args[0], keys)
		if okRm {
			// on every path that is not the closed() early return
			for _, ret := range cf.Returns() {
				if g, _ := cf.Guarded(cf.LocOf(ret), func(ft eng.Fact) bool {
					_, truth, ok := ft.CallFact(spFn + "closed")
					return ok && truth
				}); g {
					continue
				}
				if ok, _ := cf.MustPass(cf.Entry(), eng.LocSet(cf.LocOf(ret)), eng.LocSet(cf.LocOf(rm[0]))); !ok {
					okRm = false
				}
			}
		}
		c.Check(K(f.Name, "removes from provide queue"), f.Pos(), okRm, "StopProviding removes the keys from the provide queue", "Remove(keys...) missing or skippable")
		del := f.Calls("(dht/provider/keystore.Keystore).Delete")
		okDel := len(del) == 1 && eng.IsObj(info, del[0].Args[1], keys)
		if okDel {
			// skipped only in no-schedule mode
			conds := cf.DominatingConds(cf.LocOf(del[0]))
			okDel = len(conds) == 2
			g, _ := cf.Guarded(cf.LocOf(del[0]), func(ft eng.Fact) bool {
				_, truth, ok := ft.CallFact(spFn + "scheduleEnabled")
				return ok && truth
			})
			okDel = okDel && g
		}
		c.Check(K(f.Name, "deletes from keystore"), f.Pos(), okDel, "in schedule mode StopProviding deletes the keys from the keystore, so no later reprovide can load them", "Delete missing or conditional on more than closed()/scheduleEnabled()")
		// reprovides read their keys from the keystore at reprovide time (not from a cached list)
		br := c.Fn(spFn + "batchReprovide")
		okKS := len(br.Calls("(dht/provider/keystore.Keystore).Get")) >= 1 && br.Type.Params != nil && len(br.Type.Params.List) == 1
		c.Check(K(br.Name, "keys from keystore"), br.Pos(), okKS, "a reprovide takes only a prefix and loads the keys to advertise from the keystore when it runs", "batchReprovide receives keys from its caller")
	}

	// R4 buffered coalescing
	c.Rule("R7")
	c17Round3(c)

	// R8 a failed first provide puts the region's keys back in the queue
	c.Rule("R8")
	c17FailedProvideKeepsKeys(c)

	c.Rule("R4")
	c17WorkerStartsByDraining(c)
	{
		f := c.Fn("dht/provider/buffered.getOperations")
		cf := f.CFG()
		info := f.Info()
		// the operation variable: what the dispatch compares with the operation constants
		var opObj eng.Object
		isOpConst := func(e ast.Expr) bool {
			co := eng.ConstObj(info, e)
			return co != nil && eng.NameIn(co.Name(), "provideOnceOp", "startProvidingOp", "forceStartProvidingOp", "stopProvidingOp")
		}
		for _, b := range cf.G.Blocks {
			if !b.Live || cf.Cond(b) == nil {
				continue
			}
			var fts []eng.Fact
			for si := 0; si < 2; si++ {
				fts = append(fts, cf.EdgeFacts(b, si)...)
				for _, grp := range cf.EdgeDisj(b, si) {
					fts = append(fts, grp...)
				}
			}
			for _, ft := range fts {
				if x, y, _, ok := ft.EqFact(); ok {
					if isOpConst(y) && eng.ObjOf(info, x) != nil {
						opObj = eng.ObjOf(info, x)
					} else if isOpConst(x) && eng.ObjOf(info, y) != nil {
						opObj = eng.ObjOf(info, y)
					}
				}
			}
		}
		c.Anchor(opObj != nil, "getOperations: op variable not found")
		opCase := func(names ...string) func(eng.Fact) bool {
			return func(ft eng.Fact) bool {
				v, ok := eqOperand(ft, func(e ast.Expr) bool { return eng.IsObj(info, e, opObj) })
				if !ok {
					return false
				}
				co := eng.ConstObj(info, v)
				if co == nil {
					return false
				}
				for _, n := range names {
					if co.Name() == n {
						return true
					}
				}
				return false
			}
		}
		dels := f.Calls("builtin.delete")
		c.Check(K(f.Name, "cancels stops"), f.Pos(), len(dels) == 1, "a later start cancels an earlier stop in one place", "found "+itoa(len(dels))+" deletes")
		for _, d := range dels {
			ok := cf.GuardedBySet(cf.LocOf(d), opCase("startProvidingOp", "forceStartProvidingOp"))
			bad := false
			for _, e := range factEdges(cf, opCase("provideOnceOp", "stopProvidingOp")) {
				if r, _ := cf.Reach(e.Start(), eng.LocSet(cf.LocOf(d)), eng.ReachOpt{CutLoc: eng.LocSet(loopHeads(cf, p, d)...)}); r {
					bad = true
				}
			}
			c.Check(K(f.Name, "only a start cancels a stop"), d.Pos(), ok && !bad, "only StartProviding (forced or not) cancels a queued StopProviding; ProvideOnce does not take over reproviding and must not", "the stop is also cancelled under provideOnceOp/stopProvidingOp")
		}
		// the stop case records the key
		okStop := false
		for _, as := range assignsTo(f, func(l ast.Expr) bool { _, ok := eng.Unparen(l).(*ast.IndexExpr); return ok }) {
			if cf.GuardedBySet(cf.LocOf(as), opCase("stopProvidingOp")) {
				okStop = true
			}
		}
		c.Check(K(f.Name, "records stops"), f.Pos(), okStop, "a StopProviding operation is recorded", "no store under the stop case")
		// every operation constant has a case
		// (a case of `switch op`, or a comparison `op == K`, alone or as a member of an || chain)
		cases := map[string]bool{}
		for _, name := range []string{"provideOnceOp", "startProvidingOp", "forceStartProvidingOp", "stopProvidingOp"} {
			pred := opCase(name)
			for _, b := range cf.G.Blocks {
				if !b.Live || cf.Cond(b) == nil {
					continue
				}
				for si := 0; si < 2; si++ {
					for _, ft := range cf.EdgeFacts(b, si) {
						if pred(ft) {
							cases[name] = true
						}
					}
					for _, grp := range cf.EdgeDisj(b, si) {
						for _, ft := range grp {
							if pred(ft) {
								cases[name] = true
							}
						}
					}
				}
			}
		}
		for _, name := range []string{"provideOnceOp", "startProvidingOp", "forceStartProvidingOp", "stopProvidingOp"} {
			c.Check(K(f.Name, "case "+name), f.Pos(), cases[name], "every queued operation kind is handled", "no case for "+name)
		}
		// execution order in the worker
		w := c.Fn("(*dht/provider/buffered.SweepingProvider).worker")
		wcf := w.CFG()
		winfo := w.Info()
		var order []eng.Loc
		var names []string
		for _, call := range w.Calls("(*dht/provider/buffered.SweepingProvider).executeOperation") {
			if ix, ok := eng.Unparen(call.Args[1]).(*ast.IndexExpr); ok {
				if co := eng.ConstObj(winfo, ix.Index); co != nil {
					names = append(names, co.Name())
					order = append(order, wcf.LocOf(call))
				}
			}
		}
		want := []string{"forceStartProvidingOp", "startProvidingOp", "provideOnceOp", "stopProvidingOp"}
		okOrder := len(names) == 4
		for i := 0; okOrder && i < 4; i++ {
			okOrder = names[i] == want[i] && (i == 0 || wcf.Dominates(order[i-1], order[i]))
		}
		c.Check(K(w.Name, "execution order"), w.Pos(), okOrder, "a batch is executed as force-start, start, provide-once, then stop", "order is "+joinStr(names))
		// each kind is executed by the matching provider method
		wantFn := map[string]string{"provideOnceOp": "ProvideOnce", "stopProvidingOp": "StopProviding"}
		for _, call := range w.Calls("(*dht/provider/buffered.SweepingProvider).executeOperation") {
			ix, _ := eng.Unparen(call.Args[1]).(*ast.IndexExpr)
			if ix == nil {
				continue
			}
			co := eng.ConstObj(winfo, ix.Index)
			if co == nil {
				continue
			}
			if m, ok := wantFn[co.Name()]; ok {
				s, isSel := eng.Unparen(call.Args[0]).(*ast.SelectorExpr)
				c.Check(K(w.Name, co.Name()+" executes "+m), call.Pos(), isSel && eng.NameOf(s.Sel) == m, "queued "+co.Name()+" keys are passed to "+m, "another method")
			}
		}
	}

	// R5 persistence hooks
	c.Rule("R5")
	{
		f := c.Fn("dht/provider.New")
		info := f.Info()
		okPersist, okDrain := false, false
		for _, l := range f.Lits {
			if len(l.Calls("(*dht/provider/internal/queue.ProvideQueue).Persist")) == 1 {
				// the literal is appended to cleanupFuncs
				if as, ok := p.Parent(l.Lit).(*ast.AssignStmt); ok {
					po := eng.ObjOf(info, as.Lhs[0])
					for _, app := range f.Calls("builtin.append") {
						for _, a := range app.Args[1:] {
							if eng.IsObj(info, a, po) && eng.IsField(info, app.Args[0], spT+".cleanupFuncs") {
								okPersist = true
							}
						}
					}
				}
			}
		}
		for _, call := range f.Calls("(*dht/provider/internal/queue.ProvideQueue).DrainDatastore") {
			g, _ := f.CFG().Guarded(f.CFG().LocOf(call), func(ft eng.Fact) bool {
				s, ok := eng.Unparen(ft.Expr).(*ast.SelectorExpr)
				return ok && ft.Truth && eng.NameOf(s.Sel) == "resumeCycle"
			})
			okDrain = g
		}
		c.Check(K(f.Name, "persists queue on close"), f.Pos(), okPersist, "the provide queue is persisted by one of the cleanup functions Close runs", "persistProvideQueue not among cleanupFuncs")
		c.Check(K(f.Name, "drains queue on resume"), f.Pos(), okDrain, "a resumed provider reloads the persisted provide queue", "DrainDatastore not called behind cfg.resumeCycle")
	}

	// R6 offline / online transitions
	c.Rule("R6")
	{
		off := c.Fn(spFn + "onOffline")
		oinfo := off.Info()
		okClear := len(off.Calls("(*dht/provider/internal/queue.ProvideQueue).Clear")) == 1
		okInv := false
		for _, as := range assignsTo(off, func(l ast.Expr) bool { return eng.IsField(oinfo, l, spT+".cachedAvgPrefixLen") }) {
			okInv = isConstVal(oinfo, as.Rhs[0], -1)
		}
		c.Check(K(off.Name, "clears queue"), off.Pos(), okClear, "going offline clears the provide queue (its prefixes depend on the network size)", "no provideQueue.Clear()")
		c.Check(K(off.Name, "invalidates prefix length"), off.Pos(), okInv, "going offline invalidates the cached prefix length", "cachedAvgPrefixLen not set to -1")
		on := c.Fn(spFn + "onOnline")
		ocf := on.CFG()
		catch, _ := ocf.CallLocs(spFn + "catchupPendingWork")
		okCatch := len(catch) >= 1
		for _, ret := range ocf.Returns() {
			// exempt: closed(), and the TryLock failure (a measurement is already running and will catch up itself)
			if g, _ := ocf.Guarded(ocf.LocOf(ret), func(ft eng.Fact) bool {
				if _, truth, ok := ft.CallFact(spFn + "closed"); ok && truth {
					return true
				}
				if _, truth, ok := ft.CallFact("(*sync.Mutex).TryLock"); ok && !truth {
					return true
				}
				return false
			}); g {
				continue
			}
			if ok, _ := ocf.MustPass(ocf.Entry(), eng.LocSet(ocf.LocOf(ret)), eng.LocSet(catch...)); !ok {
				okCatch = false
			}
		}
		c.Check(K(on.Name, "catches up"), on.Pos(), okCatch, "coming online always ends by catching up pending provides and late reprovides (unless closed or a measurement already runs)", "a return is reachable without catchupPendingWork")
		meas := on.Calls(spFn + "approxPrefixLen")
		refr := on.Calls(spFn + "RefreshSchedule")
		okMeas := len(meas) == 1 && len(refr) == 1 && ocf.Dominates(ocf.LocOf(meas[0]), ocf.LocOf(refr[0]))
		if okMeas {
			// whenever it was offline (or never bootstrapped) the measurement branch is taken
			conds := ocf.DominatingConds(ocf.LocOf(meas[0]))
			okMeas = false
			for _, ce := range conds {
				at := func(leaf ast.Expr) (string, bool, bool) {
					if o := eng.ObjOf(on.Info(), leaf); o != nil {
						switch eng.VarName(o) {
						case "wasOffline":
							return "wasOffline", true, true
						case "bootstrapped":
							return "bootstrapped", true, true
						}
					}
					return "", false, false
				}
				if ce.Truth && eng.Equivalent(ce.Cond, at, []string{"wasOffline", "bootstrapped"}, func(v map[string]bool) bool { return v["wasOffline"] || !v["bootstrapped"] }) {
					okMeas = true
				}
			}
		}
		c.Check(K(on.Name, "re-measures after offline"), on.Pos(), okMeas, "after having been offline (or before the first bootstrap) the prefix length is re-measured and the schedule refreshed", "measurement branch missing or under another condition")
	}
}

func joinStr(ss []string) string {
	out := ""
	for i, s := range ss {
		if i > 0 {
			out += ","
		}
		out += s
	}
	return out
}

// c17FailedProvideKeepsKeys: the key list handed to failedProvide is filled with every key of
// the region whenever the operation is a first provide — whatever else (a log level) also
// switches the collection on.  The keys themselves are pruned from the region while the
// records are on the wire, so that list is the only copy a failed provide can requeue.
func c17FailedProvideKeepsKeys(c *Ctx) {
	p := c.P
	f := c.Fn("(*dht/provider.SweepingProvider).provideRegions")
	info := f.Info()
	cf := f.CFG()
	reprov := paramObj(f, "reprovide")
	fps := f.Calls("(*dht/provider.SweepingProvider).failedProvide")
	if !c.Check(K(f.Name, "requeues on failure"), f.Pos(), len(fps) == 1 && len(fps[0].Args) == 3 && reprov != nil, "a failed provide is handed to failedProvide with its keys", "found "+itoa(len(fps))+" calls") {
		return
	}
	keys := eng.ObjOf(info, fps[0].Args[1])
	var apps []*ast.AssignStmt
	okOnly := keys != nil
	for _, as := range assignsTo(f, func(l ast.Expr) bool { return keys != nil && eng.IsObj(info, l, keys) }) {
		app, isApp := eng.IsCallTo(info, as.Rhs[0], "builtin.append")
		if !isApp || len(app.Args) != 2 || !eng.IsObj(info, app.Args[0], keys) {
			okOnly = false
			continue
		}
		apps = append(apps, as)
	}
	if !c.Check(K(f.Name, "key list built by appends"), fps[0].Pos(), okOnly && len(apps) == 1, "the list handed to failedProvide is built by one append", "found "+itoa(len(apps))+" appends, or another assignment") {
		return
	}
	as := apps[0]
	app, _ := eng.IsCallTo(info, as.Rhs[0], "builtin.append")
	// the enclosing loop over the region's keys
	var loop *ast.RangeStmt
	for x := p.Parent(as); x != nil; x = p.Parent(x) {
		if rg, ok := x.(*ast.RangeStmt); ok {
			loop = rg
			break
		}
	}
	okLoop := false
	if loop != nil {
		if it, isIt := eng.IsCallTo(info, loop.X, "dht/provider/internal/keyspace.ValuesIter"); isIt && len(it.Args) >= 1 && loop.Key != nil {
			if sel, isSel := eng.Unparen(it.Args[0]).(*ast.SelectorExpr); isSel && eng.NameOf(sel.Sel) == "Keys" {
				okLoop = eng.IsObj(info, app.Args[1], eng.ObjOf(info, loop.Key)) && cf.Dominates(cf.LocOf(loop.X), cf.LocOf(fps[0]))
			}
		}
	}
	if !c.Check(K(f.Name, "collects the region's keys"), as.Pos(), okLoop, "the list is filled from the loop over the region's own keys, which every failing region has passed", "append is not `keys = append(keys, h)` in a loop over ValuesIter(r.Keys, …) dominating the failure call") {
		return
	}
	// conditions on the append inside that loop
	outer := cf.DominatingConds(cf.LocOf(loop.X))
	var inner []eng.CondEdge
	for _, ce := range cf.DominatingCondsAt(cf.LocOf(as)) {
		isOuter := false
		for _, o := range outer {
			if o == ce {
				isOuter = true
			}
		}
		if !isOuter {
			inner = append(inner, ce)
		}
	}
	at := func(leaf ast.Expr) (string, bool, bool) {
		if eng.IsObj(info, leaf, reprov) {
			return "reprovide", true, true
		}
		return "", false, false
	}
	ok := eng.Sufficient(inner, at, []string{"reprovide"}, func(v map[string]bool) bool { return !v["reprovide"] })
	c.Check(K(f.Name, "keys kept for every first provide"), as.Pos(), ok, "when the operation is a first provide every key of the region is remembered (so that a failure after the region was pruned can put them back in the queue)", "the append is skipped for some first provide (its conditions are not implied by !reprovide)")
}
