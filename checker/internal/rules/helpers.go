package rules

import (
	"go/ast"
	"go/token"
	"go/types"

	"kadcheck/internal/eng"
)

// edge is a CFG edge carrying facts.
type edge struct {
	B    *eng.Block
	Succ int
	Fact eng.Fact
}

func (e edge) Start() eng.Loc { return eng.Loc{B: e.B.Succs[e.Succ], I: -2} }

// errEdges returns the edges on which the error of a call matching pats is known to be
// non-nil (wantNil=false) or nil (wantNil=true).
func errEdges(cf *eng.CFG, wantNil bool, pats ...string) []edge {
	var out []edge
	for _, b := range cf.G.Blocks {
		if !b.Live || cf.Cond(b) == nil {
			continue
		}
		for si := 0; si < 2; si++ {
			for _, ft := range cf.EdgeFacts(b, si) {
				if ft.ErrOf(wantNil, pats...) {
					out = append(out, edge{b, si, ft})
				}
			}
		}
	}
	return out
}

// factEdges returns the edges carrying a fact accepted by pred.
func factEdges(cf *eng.CFG, pred func(eng.Fact) bool) []edge {
	var out []edge
	for _, b := range cf.G.Blocks {
		if !b.Live || cf.Cond(b) == nil {
			continue
		}
		for si := 0; si < 2; si++ {
			for _, ft := range cf.EdgeFacts(b, si) {
				if pred(ft) {
					out = append(out, edge{b, si, ft})
				}
			}
		}
	}
	return out
}

// locsOf maps nodes to their locations.
func locsOf[T ast.Node](cf *eng.CFG, ns []T) []eng.Loc {
	var out []eng.Loc
	for _, n := range ns {
		if l := cf.LocOf(n); l.Valid() {
			out = append(out, l)
		}
	}
	return out
}

// assignsTo returns the assignment statements in f's own body having an LHS accepted by pred.
func assignsTo(f *eng.Func, pred func(lhs ast.Expr) bool) []*ast.AssignStmt {
	var out []*ast.AssignStmt
	f.Walk(func(n ast.Node) bool {
		if as, ok := n.(*ast.AssignStmt); ok && !eng.IsInlinedAssign(as) {
			for i, l := range as.Lhs {
				if eng.IsSelfAssign(f.Info(), as, i) {
					continue
				}
				if pred(l) {
					out = append(out, as)
					break
				}
			}
		}
		return true
	})
	return out
}

// rhsFor returns the RHS expression assigned to lhs index i.
func rhsFor(as *ast.AssignStmt, i int) ast.Expr {
	if len(as.Rhs) == len(as.Lhs) {
		return as.Rhs[i]
	}
	if len(as.Rhs) == 1 {
		return as.Rhs[0]
	}
	return nil
}

func isNil(info *eng.Info, e ast.Expr) bool {
	tv, ok := info.Types[e]
	return ok && tv.IsNil()
}

func isBoolConst(info *eng.Info, e ast.Expr, want bool) bool {
	tv, ok := info.Types[e]
	if !ok || tv.Value == nil {
		return false
	}
	return tv.Value.String() == map[bool]string{true: "true", false: "false"}[want]
}

// ---------------------------------------------------------------------------
// lock discipline

// lockSpec describes which fields a lock protects.
type lockSpec struct {
	Lock        string                  // lock identity (qualified field)
	Fields      []string                // protected fields (qualified)
	CallerHolds map[string]eng.LockMode // functions entered with the lock held
	Exempt      map[string]string       // function name -> reason (init phase / single-threaded)
	ReadNeedsW  bool                    // reads need the write lock too (plain Mutex: any mode is W anyway)
	SyncLits    []string                // callees that run a literal argument synchronously under the caller's locks
}

// lockStateOf computes the lock analysis of f under the spec's conventions.
func lockStateOf(c *Ctx, f *eng.Func, spec *lockSpec, memo map[*eng.Func]*eng.LockInfo) *eng.LockInfo {
	if li, ok := memo[f]; ok {
		return li
	}
	var entry eng.LockState
	if f.Lit == nil {
		if m, ok := spec.CallerHolds[f.Name]; ok {
			entry = eng.LockState{spec.Lock: m}
		} else if m, ok := inferredEntry(c, f, spec, memo); ok {
			entry = eng.LockState{spec.Lock: m}
		}
	} else if f.Parent != nil {
		pli := lockStateOf(c, f.Parent, spec, memo)
		if litRunsSync(c.P, f, spec) {
			entry = pli.HeldBefore(f.Lit)
		}
	}
	li := f.LocksWithEntry(entry)
	memo[f] = li
	return li
}

// inferredEntry: an unexported function that is only ever entered through direct calls
// (never used as a value, never spawned or deferred, not reachable through an interface of
// its package) starts with the lock in the weakest mode held at all of its call sites.  This
// makes an extracted helper inherit its callers' critical section.
func inferredEntry(c *Ctx, f *eng.Func, spec *lockSpec, memo map[*eng.Func]*eng.LockInfo) (eng.LockMode, bool) {
	if f.Obj == nil || f.Obj.Exported() || f.Decl == nil {
		return 0, false
	}
	if f.Decl.Recv != nil {
		sc := f.Pkg.Types.Scope()
		for _, n := range sc.Names() {
			tn, ok := sc.Lookup(n).(*types.TypeName)
			if !ok {
				continue
			}
			if it, ok := tn.Type().Underlying().(*types.Interface); ok {
				for i := 0; i < it.NumMethods(); i++ {
					if it.Method(i).Name() == f.Obj.Name() {
						return 0, false
					}
				}
			}
		}
	}
	uses := c.P.UsesOf(f.Obj)
	if len(uses) == 0 {
		return 0, false
	}
	memo[f] = f.Locks() // cycle guard: a recursive path contributes the empty state
	defer delete(memo, f)
	mode := eng.LockW
	for _, u := range uses {
		var fun ast.Expr = u.Node.(*ast.Ident)
		if se, ok := c.P.Parent(u.Node).(*ast.SelectorExpr); ok && se.Sel == u.Node {
			fun = se
		}
		par := c.P.Parent(fun)
		for {
			pe, ok := par.(*ast.ParenExpr)
			if !ok {
				break
			}
			fun, par = pe, c.P.Parent(pe)
		}
		call, ok := par.(*ast.CallExpr)
		if !ok || eng.Unparen(call.Fun) != eng.Unparen(fun) {
			return 0, false // used as a value
		}
		switch c.P.Parent(call).(type) {
		case *ast.GoStmt, *ast.DeferStmt:
			return 0, false
		}
		held := lockStateOf(c, u.F, spec, memo).HeldBefore(call)
		m, ok := held[spec.Lock]
		if !ok {
			return 0, false
		}
		if m < mode {
			mode = m
		}
	}
	return mode, true
}

// litRunsSync: the literal is invoked in place (possibly deferred) or passed to a callee
// known to run it synchronously.
func litRunsSync(p *eng.Prog, f *eng.Func, spec *lockSpec) bool {
	par := p.Parent(f.Lit)
	if pe, ok := par.(*ast.ParenExpr); ok {
		par = p.Parent(pe)
	}
	call, ok := par.(*ast.CallExpr)
	if !ok {
		return false
	}
	if eng.Unparen(call.Fun) == ast.Expr(f.Lit) {
		// func(){...}() — not when spawned with go
		if _, isGo := p.Parent(call).(*ast.GoStmt); isGo {
			return false
		}
		return true
	}
	name := eng.CalleeName(f.Parent.Info(), call)
	syncs := append([]string{"(*sync.Once).Do", "slices.SortFunc", "sort.Slice", "slices.ContainsFunc", "slices.IndexFunc", "slices.DeleteFunc"}, spec.SyncLits...)
	if eng.NameIn(name, syncs...) {
		if _, isGo := p.Parent(call).(*ast.GoStmt); isGo {
			return false
		}
		return true
	}
	return false
}

// checkLockSpec records one obligation per access of a protected field and per call of a
// caller-holds function.
func checkLockSpec(c *Ctx, spec *lockSpec, scopePkgs ...string) (accesses int) {
	memo := map[*eng.Func]*eng.LockInfo{}
	inScope := func(f *eng.Func) bool {
		if len(scopePkgs) == 0 {
			return true
		}
		for _, s := range scopePkgs {
			if eng.Short(f.Pkg.PkgPath) == s {
				return true
			}
		}
		return false
	}
	for _, f := range c.P.Funcs() {
		if !inScope(f) {
			continue
		}
		root := f.Root().Name
		if _, ex := spec.Exempt[root]; ex {
			continue
		}
		var li *eng.LockInfo
		for _, fq := range spec.Fields {
			for _, acc := range f.FieldAccesses(fq) {
				if li == nil {
					li = lockStateOf(c, f, spec, memo)
				}
				accesses++
				c.Funcs[f.Name] = true
				held := li.HeldBefore(acc.Sel)
				m, ok := held[spec.Lock]
				need := eng.LockR
				if acc.Write || spec.ReadNeedsW {
					need = eng.LockW
				}
				kind := "read"
				if acc.Write {
					kind = "write"
				}
				c.Check(K(f.Name, kind+" "+short(acc.Sel)), acc.Sel.Pos(), ok && m >= need,
					"access to "+fq+" requires "+spec.Lock+" to be held on every path",
					"locks held on all paths here: "+held.String())
			}
		}
		// calls of caller-holds functions
		for name, mode := range spec.CallerHolds {
			for _, call := range f.Calls(name) {
				if li == nil {
					li = lockStateOf(c, f, spec, memo)
				}
				held := li.HeldBefore(call)
				m, ok := held[spec.Lock]
				c.Check(K(f.Name, "call "+short(call)), call.Pos(), ok && m >= mode,
					name+" must be called with "+spec.Lock+" held",
					"locks held on all paths here: "+held.String())
			}
		}
	}
	return
}

// checkNoBadUnlock: every Unlock in f is reached with the lock held (C03.R5d).
func checkNoBadUnlock(c *Ctx, f *eng.Func, entry eng.LockState) {
	li := f.LocksWithEntry(entry)
	for _, e := range li.Errors {
		c.Check(K(f.Name, "unlock "+e.Lock), e.Call.Pos(), false, "a lock is released only when held", e.Lock+" is not held on every path to this Unlock")
	}
}

var _ = token.NoPos

// ---------------------------------------------------------------------------
// copy propagation through single-assignment locals

// assignsDeep collects the right-hand sides assigned to obj anywhere in root (nested
// literals included); inc/dec statements and address-taking count as an unknown assignment (nil).
func assignsDeep(root *eng.Func, obj eng.Object) []ast.Expr {
	var out []ast.Expr
	var rec func(g *eng.Func)
	rec = func(g *eng.Func) {
		out = append(out, g.AssignedFrom(obj)...)
		info := g.Info()
		g.Walk(func(n ast.Node) bool {
			switch s := n.(type) {
			case *ast.IncDecStmt:
				if eng.IsObj(info, s.X, obj) {
					out = append(out, nil)
				}
			case *ast.UnaryExpr:
				if s.Op == token.AND && eng.IsObj(info, s.X, obj) {
					out = append(out, nil)
				}
			}
			return true
		})
		for _, l := range g.Lits {
			rec(l)
		}
	}
	rec(root)
	return out
}

// localDef returns the defining expression of e when e names a local variable (not a
// parameter, not a named result) that is assigned exactly once in its root function.
func localDef(f *eng.Func, e ast.Expr) ast.Expr {
	id, ok := eng.Unparen(e).(*ast.Ident)
	if !ok {
		return nil
	}
	v, ok := eng.ObjOf(f.Info(), id).(*eng.Var)
	if !ok || v.IsField() || v.Parent() == nil || v.Parent() == v.Pkg().Scope() {
		return nil
	}
	vf := f.P.EnclosingFuncAt(v.Pos())
	if vf == nil {
		return nil
	}
	root := vf.SynRoot()
	if v.Pos() < root.Body.Pos() || v.Pos() > root.Body.End() {
		return nil // parameter or result
	}
	as := assignsDeep(root, v)
	if len(as) != 1 || as[0] == nil {
		return nil
	}
	if _, isCall := eng.Unparen(as[0]).(*ast.CallExpr); isCall {
		// a tuple-assigned call result is not an alias of anything
		if tv, ok := f.Info().Types[as[0]]; ok {
			if _, isTuple := tv.Type.(*types.Tuple); isTuple {
				return nil
			}
		}
	}
	return as[0]
}

// aliasOf: e satisfies base, or is a single-assignment local whose definition does
// (transitively, depth <= 4).
func aliasOf(f *eng.Func, e ast.Expr, base func(ast.Expr) bool) bool {
	for depth := 0; depth < 5 && e != nil; depth++ {
		if base(e) {
			return true
		}
		e = localDef(f, e)
	}
	return false
}

// resolveLocal follows single-assignment locals to the expression they were defined from.
func resolveLocal(f *eng.Func, e ast.Expr) ast.Expr {
	for depth := 0; depth < 5; depth++ {
		d := localDef(f, e)
		if d == nil {
			return e
		}
		e = d
	}
	return e
}

// passOrFact: every path from `from` to a location accepted by to executes one of via or
// takes an edge carrying a fact accepted by pred.  It is the path form of "X happens unless
// C holds" and is indifferent to whether the code says `if C { return }; X` or `if !C { X }`.
func passOrFact(cf *eng.CFG, from eng.Loc, to func(eng.Loc) bool, via []eng.Loc, pred func(eng.Fact) bool) (bool, []eng.Loc) {
	type ek struct {
		b *eng.Block
		i int
	}
	cut := map[ek]bool{}
	for _, e := range factEdges(cf, pred) {
		cut[ek{e.B, e.Succ}] = true
	}
	r, w := cf.Reach(from, to, eng.ReachOpt{
		CutLoc:  eng.LocSet(via...),
		CutEdge: func(b *eng.Block, i int) bool { return cut[ek{b, i}] },
	})
	return !r, w
}

// eqOperand: the fact states `subject == v`, as a case of `switch subject` or as a
// comparison in either operand order; returns v.
func eqOperand(ft eng.Fact, isSubject func(ast.Expr) bool) (ast.Expr, bool) {
	x, y, equal, ok := ft.EqFact()
	if !ok || !equal {
		return nil, false
	}
	if isSubject(x) {
		return y, true
	}
	if isSubject(y) {
		return x, true
	}
	// a parameter of a helper read in place stands for its argument
	info := ft.C.F.Info()
	if ax := eng.ArgExpr(info, x); ax != x && isSubject(ax) {
		return y, true
	}
	if ay := eng.ArgExpr(info, y); ay != y && isSubject(ay) {
		return x, true
	}
	// a local assigned once from the subject (`m := cfg.Mode; if m == ...`)
	if lx := resolveLocal(ft.C.F, x); lx != x && isSubject(lx) {
		return y, true
	}
	if ly := resolveLocal(ft.C.F, y); ly != y && isSubject(ly) {
		return x, true
	}
	return nil, false
}

// lenOf returns X when e is len(X), or a local assigned once from len(X) with no assignment to
// X reachable after that definition (so the local still is the length wherever it is read).
func lenOf(f *eng.Func, e ast.Expr) ast.Expr {
	info := f.Info()
	if la := eng.LenArg(info, e); la != nil {
		return la
	}
	d := localDef(f, e)
	if d == nil {
		return nil
	}
	la := eng.LenArg(info, d)
	if la == nil {
		return nil
	}
	xo := eng.ObjOf(info, la)
	if xo == nil {
		return nil
	}
	cf := f.CFG()
	var later []eng.Loc
	for _, as := range assignsTo(f, func(l ast.Expr) bool { return eng.IsObj(info, l, xo) }) {
		later = append(later, cf.LocOf(as))
	}
	if len(later) > 0 {
		if r, _ := cf.Reach(cf.LocOf(d), eng.LocSet(later...), eng.ReachOpt{}); r {
			return nil
		}
	}
	return la
}

// tripCount: the loop runs exactly hi-lo times (lo == nil: from zero) and its body does not
// touch the counter: `for i := lo; i < hi; i++`, `for i := 0; i < hi-lo; i++`, `for range hi-lo`,
// `for i := range hi` (integer range).
func tripCount(info *eng.Info, st ast.Stmt) (lo, hi ast.Expr, ok bool) {
	split := func(e ast.Expr) (ast.Expr, ast.Expr) {
		if b, isB := eng.Unparen(e).(*ast.BinaryExpr); isB && b.Op == token.SUB {
			return b.Y, b.X
		}
		return nil, e
	}
	switch lp := st.(type) {
	case *ast.RangeStmt:
		tv, has := info.Types[lp.X]
		if !has {
			return nil, nil, false
		}
		if bt, isBasic := tv.Type.Underlying().(*types.Basic); !isBasic || bt.Info()&types.IsInteger == 0 {
			return nil, nil, false
		}
		lo, hi = split(lp.X)
		return lo, hi, true
	case *ast.ForStmt:
		b, isB := eng.Unparen(lp.Cond).(*ast.BinaryExpr)
		if lp.Cond == nil || !isB || b.Op != token.LSS {
			return nil, nil, false
		}
		iv := eng.ObjOf(info, b.X)
		init, isAs := lp.Init.(*ast.AssignStmt)
		if iv == nil || !isAs || len(init.Lhs) != 1 || len(init.Rhs) != 1 || !eng.IsObj(info, init.Lhs[0], iv) {
			return nil, nil, false
		}
		post, isInc := lp.Post.(*ast.IncDecStmt)
		if !isInc || post.Tok != token.INC || !eng.IsObj(info, post.X, iv) {
			return nil, nil, false
		}
		touched := false
		ast.Inspect(lp.Body, func(n ast.Node) bool {
			switch x := n.(type) {
			case *ast.AssignStmt:
				for _, l := range x.Lhs {
					if eng.IsObj(info, l, iv) {
						touched = true
					}
				}
			case *ast.IncDecStmt:
				if eng.IsObj(info, x.X, iv) {
					touched = true
				}
			}
			return true
		})
		if touched {
			return nil, nil, false
		}
		if isConstVal(info, init.Rhs[0], 0) {
			lo, hi = split(b.Y)
			return lo, hi, true
		}
		return init.Rhs[0], b.Y, true
	}
	return nil, nil, false
}

// countedOver returns X when the loop runs once per element of X: `for range X`,
// `for range len(X)`, `for i := range X`, or `for i := 0; i < len(X); i++`.
func countedOver(info *eng.Info, st ast.Stmt) ast.Expr {
	switch lp := st.(type) {
	case *ast.RangeStmt:
		if la := eng.LenArg(info, lp.X); la != nil {
			return la
		}
		return lp.X
	case *ast.ForStmt:
		b, ok := eng.Unparen(lp.Cond).(*ast.BinaryExpr)
		if lp.Cond == nil || !ok || b.Op != token.LSS {
			return nil
		}
		la := eng.LenArg(info, b.Y)
		iv := eng.ObjOf(info, b.X)
		if la == nil || iv == nil {
			return nil
		}
		init, ok := lp.Init.(*ast.AssignStmt)
		if !ok || len(init.Lhs) != 1 || !eng.IsObj(info, init.Lhs[0], iv) || !isConstVal(info, init.Rhs[0], 0) {
			return nil
		}
		post, ok := lp.Post.(*ast.IncDecStmt)
		if !ok || post.Tok != token.INC || !eng.IsObj(info, post.X, iv) {
			return nil
		}
		// the counter is not touched in the body
		touched := false
		ast.Inspect(lp.Body, func(n ast.Node) bool {
			switch x := n.(type) {
			case *ast.AssignStmt:
				for _, l := range x.Lhs {
					if eng.IsObj(info, l, iv) {
						touched = true
					}
				}
			case *ast.IncDecStmt:
				if eng.IsObj(info, x.X, iv) {
					touched = true
				}
			}
			return true
		})
		if touched {
			return nil
		}
		return la
	}
	return nil
}

// elemLoop is a loop that visits every element of a list once, in order: `for _, v := range
// L`, `for i := range L` or `for i := 0; i < len(L); i++` (the element then being L[i]).
type elemLoop struct {
	Stmt   ast.Stmt
	Body   *ast.BlockStmt
	Head   ast.Node // the node of the loop located in the control-flow graph (range operand or condition)
	List   ast.Expr
	IsElem func(e ast.Expr) bool
}

func elemLoopsOver(f *eng.Func, isList func(ast.Expr) bool) []elemLoop {
	info := f.Info()
	var out []elemLoop
	f.Walk(func(n ast.Node) bool {
		switch lp := n.(type) {
		case *ast.RangeStmt:
			if !isList(lp.X) {
				return true
			}
			el := elemLoop{Stmt: lp, Body: lp.Body, Head: lp.X, List: lp.X}
			val, key := lp.Value, lp.Key
			el.IsElem = func(e ast.Expr) bool {
				if val != nil {
					if id, ok := val.(*ast.Ident); !ok || id.Name != "_" {
						if eng.SameExpr(info, e, val) {
							return true
						}
					}
				}
				if ix, ok := eng.Unparen(e).(*ast.IndexExpr); ok && key != nil {
					return eng.SameExpr(info, ix.X, lp.X) && eng.SameExpr(info, ix.Index, key)
				}
				return false
			}
			out = append(out, el)
		case *ast.ForStmt:
			la := countedOver(info, lp)
			if la == nil || !isList(la) {
				return true
			}
			iv := eng.Unparen(lp.Cond).(*ast.BinaryExpr).X
			el := elemLoop{Stmt: lp, Body: lp.Body, Head: lp.Cond, List: la}
			el.IsElem = func(e ast.Expr) bool {
				ix, ok := eng.Unparen(e).(*ast.IndexExpr)
				return ok && eng.SameExpr(info, ix.X, la) && eng.SameExpr(info, ix.Index, iv)
			}
			out = append(out, el)
		}
		return true
	})
	return out
}

// memberFact: the fact states that a map lookup found its key: `m[k]` of a bool-valued
// map tested directly, or the ok of `_, ok := m[k]`.  Returns the index expression.
func memberFact(cf *eng.CFG, ft eng.Fact) (*ast.IndexExpr, bool) {
	if ft.Tag != nil || !ft.Truth {
		return nil, false
	}
	info := cf.F.Info()
	if ix, ok := eng.Unparen(ft.Expr).(*ast.IndexExpr); ok {
		if tv, ok := info.Types[ix.X]; ok {
			if _, isMap := tv.Type.Underlying().(*eng.MapType); isMap {
				return ix, true
			}
		}
		return nil, false
	}
	o, truth, isB := ft.BoolVar()
	if !isB || !truth {
		return nil, false
	}
	rhs, idx := cf.LastAssign(ft.B, o)
	ix, isIx := eng.Unparen(defOrNil(rhs)).(*ast.IndexExpr)
	if !isIx || idx != 1 {
		return nil, false
	}
	if tv, ok := info.Types[ix.X]; ok {
		if _, isMap := tv.Type.Underlying().(*eng.MapType); isMap {
			return ix, true
		}
	}
	return nil, false
}

// HeadLoc is the location every iteration of the loop passes: the loop-header block of a
// range statement, the condition of a for statement.
func (el elemLoop) HeadLoc(cf *eng.CFG) eng.Loc {
	if rg, ok := el.Stmt.(*ast.RangeStmt); ok {
		for _, b := range cf.G.Blocks {
			if b.Live && b.Kind.String() == "RangeLoop" && b.Stmt == ast.Stmt(rg) {
				return eng.Loc{B: b, I: -1}
			}
		}
		return eng.Loc{}
	}
	return cf.LocOf(el.Head)
}

// checkBalancedLocks: a function that acquires a mutex releases it before every return (directly
// or by a defer registered on the way).  lockHandoffs lists the functions that hand a held
// lock to a goroutine they start or to their caller, each confirmed by reading.
var lockHandoffs = map[string]string{}

func checkBalancedLocks(c *Ctx, pkgs ...string) int {
	n := 0
	for _, f := range c.P.Funcs() {
		in := false
		for _, pk := range pkgs {
			if eng.Short(f.Pkg.PkgPath) == pk {
				in = true
			}
		}
		if !in {
			continue
		}
		info := f.Info()
		acquired := map[string]bool{}
		deferred := map[string][]eng.Loc{}
		cf := f.CFG()
		f.Walk(func(x ast.Node) bool {
			switch s := x.(type) {
			case *ast.DeferStmt:
				if id, kind := eng.LockCallID(info, s.Call); kind == "unlock" {
					deferred[id] = append(deferred[id], cf.LocOf(s))
				}
				return false
			case *ast.CallExpr:
				if id, kind := eng.LockCallID(info, s); kind == "lock" {
					acquired[id] = true
				}
			}
			return true
		})
		if len(acquired) == 0 {
			continue
		}
		li := f.Locks()
		for i, ex := range cf.Exits(true) {
			held := li.AtExit(ex)
			for id := range held {
				if !acquired[id] {
					continue
				}
				released := false
				for _, d := range deferred[id] {
					if cf.Dominates(d, ex) {
						released = true
					}
				}
				n++
				_, handoff := lockHandoffs[f.Name+" | "+id]
				c.Check(K(f.Name, "return#"+itoa(i)+" releases "+id), ex.B.Nodes[ex.I].Pos(), released || handoff, "a mutex acquired by a function is released before it returns (a return with the mutex held blocks every later user of it)", "return reachable with "+id+" still held")
			}
		}
	}
	return n
}

// flowsOnlyInto: e is an argument of a call to one of pats, or an argument of a helper read
// in place whose corresponding parameter is used for nothing but that.
func flowsOnlyInto(p *eng.Prog, info *eng.Info, e ast.Expr, pats ...string) bool {
	call, isCall := p.Parent(e).(*ast.CallExpr)
	if !isCall {
		return false
	}
	name := eng.CalleeName(info, call)
	if eng.NameIn(name, pats...) {
		return true
	}
	h := p.Func(name)
	if h == nil || h.Adopter == nil {
		return false
	}
	idx := -1
	for i, a := range call.Args {
		if a == e {
			idx = i
		}
	}
	po := paramAt(h, idx)
	if po == nil {
		return false
	}
	hinfo := h.Info()
	ok, n := true, 0
	h.Walk(func(x ast.Node) bool {
		id, isID := x.(*ast.Ident)
		if !isID || hinfo.Uses[id] != eng.Object(po) {
			return true
		}
		n++
		if !flowsOnlyInto(p, hinfo, id, pats...) {
			ok = false
		}
		return true
	})
	return ok && n >= 1
}

// exprAt sees through a parameter of a helper spliced into cf: at location loc (inside one
// copy of the helper) an identifier naming a parameter stands for the argument of that copy's call.
func exprAt(cf *eng.CFG, loc eng.Loc, e ast.Expr) ast.Expr {
	info := cf.F.Info()
	for i := 0; i < 3; i++ {
		id, ok := eng.Unparen(e).(*ast.Ident)
		if !ok {
			return e
		}
		o := info.Uses[id]
		if o == nil {
			return e
		}
		a := cf.ArgAt(loc, o)
		if a == nil {
			return eng.ArgExpr(info, e)
		}
		e = a
	}
	return e
}

// ctxDerives: every value the context expression e can hold derives from root: it is root, or
// the result of a call one of whose arguments derives from root (context.WithCancel(root),
// StartSpan(root, ...), RegisterForQueryEvents(root) ...), through any number of reassignments.
func ctxDerives(f *eng.Func, e ast.Expr, root eng.Object, depth int) bool {
	info := f.Info()
	e = eng.Unparen(e)
	if depth > 6 {
		return false
	}
	if call, ok := e.(*ast.CallExpr); ok {
		for _, a := range call.Args {
			if tv, ok := info.Types[a]; ok && eng.TypeKey(tv.Type) == "context.Context" {
				return ctxDerives(f, a, root, depth+1)
			}
		}
		return false
	}
	o := eng.ObjOf(info, e)
	if o == nil {
		return false
	}
	if eng.Rep(o) == eng.Rep(root) {
		return true
	}
	defs := assignsDeep(f.Root(), o)
	if len(defs) == 0 {
		return false
	}
	derived := false
	for _, d := range defs {
		if d == nil {
			return false
		}
		// self-referential re-derivation (ctx, span := StartSpan(ctx, ...)) is fine as long as the other definitions derive
		if call, ok := eng.Unparen(d).(*ast.CallExpr); ok {
			self := false
			for _, a := range call.Args {
				if eng.IsObj(info, a, o) {
					self = true
				}
			}
			if self {
				continue
			}
		}
		if !ctxDerives(f, d, root, depth+1) {
			return false
		}
		derived = true
	}
	return derived
}

// iteratorLits resolves a function-typed argument to the literal(s) it can be: the literal
// itself, a local assigned once from one, or a call of a function of the analysed program
// every return of which is a literal.
func iteratorLits(p *eng.Prog, f *eng.Func, e ast.Expr) []*ast.FuncLit {
	e = resolveLocal(f, eng.Unparen(e))
	if lit, ok := eng.Unparen(e).(*ast.FuncLit); ok {
		return []*ast.FuncLit{lit}
	}
	call, ok := eng.Unparen(e).(*ast.CallExpr)
	if !ok {
		return nil
	}
	h := p.Func(eng.CalleeName(f.Info(), call))
	if h == nil || h.Body == nil {
		return nil
	}
	var out []*ast.FuncLit
	for _, ret := range h.CFG().Returns() {
		if len(ret.Results) != 1 {
			return nil
		}
		lit, isLit := eng.Unparen(resolveLocal(h, ret.Results[0])).(*ast.FuncLit)
		if !isLit {
			return nil
		}
		out = append(out, lit)
	}
	return out
}

// insideInnerBreakable: the unlabelled break b, found inside loop outer, targets a for, range,
// switch or select nested inside outer (and so does not leave outer).
func insideInnerBreakable(p *eng.Prog, b *ast.BranchStmt, outer ast.Node) bool {
	for x := p.Parent(b); x != nil && x != outer; x = p.Parent(x) {
		switch x.(type) {
		case *ast.ForStmt, *ast.RangeStmt, *ast.SwitchStmt, *ast.TypeSwitchStmt, *ast.SelectStmt:
			return true
		}
	}
	return false
}

// fullTraversal recognises a loop that visits every element of a slice exactly once and
// returns the slice and a predicate for "e denotes the element of this iteration":
// `for _, v := range L` / `for i := range L` / `for i := 0; i < len(L); i++` /
// `for i := len(L)-1; i >= 0; i--` / `range slices.Backward(L)`, `slices.All(L)`, `slices.Values(L)`.
func fullTraversal(f *eng.Func, st ast.Stmt) (list ast.Expr, isElem func(ast.Expr) bool, body *ast.BlockStmt) {
	info := f.Info()
	elemPred := func(list ast.Expr, idx, val eng.Object) func(ast.Expr) bool {
		var isE func(e ast.Expr, depth int) bool
		isE = func(e ast.Expr, depth int) bool {
			e = eng.Unparen(e)
			if depth > 4 {
				return false
			}
			if val != nil && eng.ObjOf(info, e) == val {
				if _, isID := e.(*ast.Ident); isID {
					return true
				}
			}
			if ix, ok := e.(*ast.IndexExpr); ok && idx != nil && eng.SameExpr(info, ix.X, list) && eng.ObjOf(info, ix.Index) == idx {
				return true
			}
			if d := localDef(f, e); d != nil {
				return isE(d, depth+1)
			}
			return false
		}
		return func(e ast.Expr) bool { return isE(e, 0) }
	}
	objOrNil := func(e ast.Expr) eng.Object {
		if e == nil {
			return nil
		}
		if id, ok := e.(*ast.Ident); ok && id.Name == "_" {
			return nil
		}
		return eng.ObjOf(info, e)
	}
	switch lp := st.(type) {
	case *ast.RangeStmt:
		if it, ok := eng.IsCallTo(info, lp.X, "slices.Backward", "slices.All", "slices.Values"); ok && len(it.Args) == 1 {
			if eng.CalleeName(info, it) == "slices.Values" {
				return it.Args[0], elemPred(it.Args[0], nil, objOrNil(lp.Key)), lp.Body
			}
			return it.Args[0], elemPred(it.Args[0], objOrNil(lp.Key), objOrNil(lp.Value)), lp.Body
		}
		if tv, ok := info.Types[lp.X]; ok {
			if _, isSlice := tv.Type.Underlying().(*types.Slice); isSlice {
				return lp.X, elemPred(lp.X, objOrNil(lp.Key), objOrNil(lp.Value)), lp.Body
			}
		}
		// for i := range len(L)
		if lo, hi, ok := tripCount(info, st); ok && lo == nil {
			if la := eng.LenArg(info, hi); la != nil {
				return la, elemPred(la, objOrNil(lp.Key), nil), lp.Body
			}
		}
	case *ast.ForStmt:
		if lo, hi, ok := tripCount(info, st); ok && lo == nil {
			if la := eng.LenArg(info, hi); la != nil {
				b := eng.Unparen(lp.Cond).(*ast.BinaryExpr)
				return la, elemPred(la, eng.ObjOf(info, b.X), nil), lp.Body
			}
			return nil, nil, nil
		}
		// descending: i := len(L)-1; i >= 0 (or i > -1); i--
		init, isAs := lp.Init.(*ast.AssignStmt)
		cond, isB := eng.Unparen(lp.Cond).(*ast.BinaryExpr)
		post, isDec := lp.Post.(*ast.IncDecStmt)
		if lp.Cond == nil || !isAs || !isB || !isDec || post.Tok != token.DEC || len(init.Lhs) != 1 || len(init.Rhs) != 1 {
			return nil, nil, nil
		}
		iv := eng.ObjOf(info, init.Lhs[0])
		if iv == nil || !eng.IsObj(info, post.X, iv) || !eng.IsObj(info, cond.X, iv) {
			return nil, nil, nil
		}
		okCond := (cond.Op == token.GEQ && isConstVal(info, cond.Y, 0)) || (cond.Op == token.GTR && isConstVal(info, cond.Y, -1))
		start, isSub := eng.Unparen(init.Rhs[0]).(*ast.BinaryExpr)
		if !okCond || !isSub || start.Op != token.SUB || !isConstVal(info, start.Y, 1) {
			return nil, nil, nil
		}
		la := eng.LenArg(info, start.X)
		if la == nil {
			return nil, nil, nil
		}
		touched := false
		ast.Inspect(lp.Body, func(n ast.Node) bool {
			switch x := n.(type) {
			case *ast.AssignStmt:
				for _, l := range x.Lhs {
					if eng.IsObj(info, l, iv) {
						touched = true
					}
				}
			case *ast.IncDecStmt:
				if eng.IsObj(info, x.X, iv) {
					touched = true
				}
			}
			return true
		})
		if touched {
			return nil, nil, nil
		}
		return la, elemPred(la, iv, nil), lp.Body
	}
	return nil, nil, nil
}
