package rules

import (
	"go/ast"
	"go/token"

	"kadcheck/internal/eng"
)

// edge is a CFG edge carrying facts.
type edge struct {
	B    *eng.Block
	Succ int
	Fact eng.Fact
}

func (e edge) Start() eng.Loc { return eng.Loc{B: e.B.Succs[e.Succ], I: -2} }

// errEdges returns the edges on which the error of a call matching pats is known to be
// non-nil (wantNil=false) or nil (wantNil=true).
func errEdges(cf *eng.CFG, wantNil bool, pats ...string) []edge {
	var out []edge
	for _, b := range cf.G.Blocks {
		if !b.Live || cf.Cond(b) == nil {
			continue
		}
		for si := 0; si < 2; si++ {
			for _, ft := range cf.EdgeFacts(b, si) {
				if ft.ErrOf(wantNil, pats...) {
					out = append(out, edge{b, si, ft})
				}
			}
		}
	}
	return out
}

// factEdges returns the edges carrying a fact accepted by pred.
func factEdges(cf *eng.CFG, pred func(eng.Fact) bool) []edge {
	var out []edge
	for _, b := range cf.G.Blocks {
		if !b.Live || cf.Cond(b) == nil {
			continue
		}
		for si := 0; si < 2; si++ {
			for _, ft := range cf.EdgeFacts(b, si) {
				if pred(ft) {
					out = append(out, edge{b, si, ft})
				}
			}
		}
	}
	return out
}

// locsOf maps nodes to their locations.
func locsOf[T ast.Node](cf *eng.CFG, ns []T) []eng.Loc {
	var out []eng.Loc
	for _, n := range ns {
		if l := cf.LocOf(n); l.Valid() {
			out = append(out, l)
		}
	}
	return out
}

// assignsTo returns the assignment statements in f's own body having an LHS accepted by pred.
func assignsTo(f *eng.Func, pred func(lhs ast.Expr) bool) []*ast.AssignStmt {
	var out []*ast.AssignStmt
	f.Walk(func(n ast.Node) bool {
		if as, ok := n.(*ast.AssignStmt); ok {
			for _, l := range as.Lhs {
				if pred(l) {
					out = append(out, as)
					break
				}
			}
		}
		return true
	})
	return out
}

// rhsFor returns the RHS expression assigned to lhs index i.
func rhsFor(as *ast.AssignStmt, i int) ast.Expr {
	if len(as.Rhs) == len(as.Lhs) {
		return as.Rhs[i]
	}
	if len(as.Rhs) == 1 {
		return as.Rhs[0]
	}
	return nil
}

func isNil(info *eng.Info, e ast.Expr) bool {
	tv, ok := info.Types[e]
	return ok && tv.IsNil()
}

func isBoolConst(info *eng.Info, e ast.Expr, want bool) bool {
	tv, ok := info.Types[e]
	if !ok || tv.Value == nil {
		return false
	}
	return tv.Value.String() == map[bool]string{true: "true", false: "false"}[want]
}

// ---------------------------------------------------------------------------
// lock discipline

// lockSpec describes which fields a lock protects.
type lockSpec struct {
	Lock        string                  // lock identity (qualified field)
	Fields      []string                // protected fields (qualified)
	CallerHolds map[string]eng.LockMode // functions entered with the lock held
	Exempt      map[string]string       // function name -> reason (init phase / single-threaded)
	ReadNeedsW  bool                    // reads need the write lock too (plain Mutex: any mode is W anyway)
	SyncLits    []string                // callees that run a literal argument synchronously under the caller's locks
}

// lockStateOf computes the lock analysis of f under the spec's conventions.
func lockStateOf(c *Ctx, f *eng.Func, spec *lockSpec, memo map[*eng.Func]*eng.LockInfo) *eng.LockInfo {
	if li, ok := memo[f]; ok {
		return li
	}
	var entry eng.LockState
	if f.Lit == nil {
		if m, ok := spec.CallerHolds[f.Name]; ok {
			entry = eng.LockState{spec.Lock: m}
		}
	} else if f.Parent != nil {
		pli := lockStateOf(c, f.Parent, spec, memo)
		if litRunsSync(c.P, f, spec) {
			entry = pli.HeldBefore(f.Lit)
		}
	}
	li := f.LocksWithEntry(entry)
	memo[f] = li
	return li
}

// litRunsSync: the literal is invoked in place (possibly deferred) or passed to a callee
// known to run it synchronously.
func litRunsSync(p *eng.Prog, f *eng.Func, spec *lockSpec) bool {
	par := p.Parent(f.Lit)
	if pe, ok := par.(*ast.ParenExpr); ok {
		par = p.Parent(pe)
	}
	call, ok := par.(*ast.CallExpr)
	if !ok {
		return false
	}
	if eng.Unparen(call.Fun) == ast.Expr(f.Lit) {
		// func(){...}() — not when spawned with go
		if _, isGo := p.Parent(call).(*ast.GoStmt); isGo {
			return false
		}
		return true
	}
	name := eng.CalleeName(f.Parent.Info(), call)
	syncs := append([]string{"(*sync.Once).Do", "slices.SortFunc", "sort.Slice", "slices.ContainsFunc", "slices.IndexFunc", "slices.DeleteFunc"}, spec.SyncLits...)
	if eng.NameIn(name, syncs...) {
		if _, isGo := p.Parent(call).(*ast.GoStmt); isGo {
			return false
		}
		return true
	}
	return false
}

// checkLockSpec records one obligation per access of a protected field and per call of a
// caller-holds function.
func checkLockSpec(c *Ctx, spec *lockSpec, scopePkgs ...string) (accesses int) {
	memo := map[*eng.Func]*eng.LockInfo{}
	inScope := func(f *eng.Func) bool {
		if len(scopePkgs) == 0 {
			return true
		}
		for _, s := range scopePkgs {
			if eng.Short(f.Pkg.PkgPath) == s {
				return true
			}
		}
		return false
	}
	for _, f := range c.P.Funcs() {
		if !inScope(f) {
			continue
		}
		root := f.Root().Name
		if _, ex := spec.Exempt[root]; ex {
			continue
		}
		var li *eng.LockInfo
		for _, fq := range spec.Fields {
			for _, acc := range f.FieldAccesses(fq) {
				if li == nil {
					li = lockStateOf(c, f, spec, memo)
				}
				accesses++
				c.Funcs[f.Name] = true
				held := li.HeldBefore(acc.Sel)
				m, ok := held[spec.Lock]
				need := eng.LockR
				if acc.Write || spec.ReadNeedsW {
					need = eng.LockW
				}
				kind := "read"
				if acc.Write {
					kind = "write"
				}
				c.Check(K(f.Name, kind+" "+short(acc.Sel)), acc.Sel.Pos(), ok && m >= need,
					"access to "+fq+" requires "+spec.Lock+" to be held on every path",
					"locks held on all paths here: "+held.String())
			}
		}
		// calls of caller-holds functions
		for name, mode := range spec.CallerHolds {
			for _, call := range f.Calls(name) {
				if li == nil {
					li = lockStateOf(c, f, spec, memo)
				}
				held := li.HeldBefore(call)
				m, ok := held[spec.Lock]
				c.Check(K(f.Name, "call "+short(call)), call.Pos(), ok && m >= mode,
					name+" must be called with "+spec.Lock+" held",
					"locks held on all paths here: "+held.String())
			}
		}
	}
	return
}

// checkNoBadUnlock: every Unlock in f is reached with the lock held (C03.R5d).
func checkNoBadUnlock(c *Ctx, f *eng.Func, entry eng.LockState) {
	li := f.LocksWithEntry(entry)
	for _, e := range li.Errors {
		c.Check(K(f.Name, "unlock "+e.Lock), e.Call.Pos(), false, "a lock is released only when held", e.Lock+" is not held on every path to this Unlock")
	}
}

var _ = token.NoPos
