package rules

import (
	"go/ast"
	"go/token"

	"kadcheck/internal/eng"
)

func init() {
	register(&Property{
		ID:  "C12",
		Run: runC12,
		Decided: "single admission path: TryAddPeer only in the routing-table loop with the peer received from the admission channel, that channel is sent to only by validPeerFound, which is called only on the nil-error edge of a lookup request or of the admission probe; the probe never reports success without a successful request (R1); " +
			"the probe starts only for a useful new peer that validRTPeer accepted (primary protocol supported and routing-table filter passed) (R2); in a lookup every failed dial/request evicts the peer exactly when the context governing that step is still alive (R3); protocol-change events lead to probe on valid, eviction on invalid, nothing on error, for both identify events (R4); " +
			"the refresh liveness probe evicts on failed connect and on failed ping, and skips only peers heard from within the grace period (R5); every refresh request is answered and its channel closed on every path, also when the manager is closing (R6); the admission probe is fed only from connected peers and peer events (R7).",
		NotDecided: "kbucket's own replacement policy; that identify events are delivered.",
	})
}

func runC12(c *Ctx) {
	p := c.P
	const fnTryAddPeer = "(*github.com/libp2p/go-libp2p-kbucket.RoutingTable).TryAddPeer"
	const fnRemovePeer = "(*github.com/libp2p/go-libp2p-kbucket.RoutingTable).RemovePeer"

	// R1 single admission path
	c.Rule("R1")
	{
		sites := p.AllCalls(fnTryAddPeer)
		c.Check("TryAddPeer sites", 0, len(sites) == 1, "the routing table is extended in exactly one place", "found "+itoa(len(sites)))
		for _, s := range sites {
			ok := s.F.Root().Name == "(*dht.IpfsDHT).rtPeerLoop"
			// the peer is the one received from the admission channel
			okSrc := false
			if cc := p.EnclosingSelectClause(nil); cc == nil {
				info := s.F.Info()
				po := eng.ObjOf(info, s.Call().Args[0])
				for _, sel := range s.F.Selects() {
					for _, sc := range eng.SelectCases(info, sel) {
						if sc.Kind == "recv" && eng.IsField(info, sc.Chan, "dht.IpfsDHT.addPeerToRTChan") {
							if as, isAs := sc.Clause.Comm.(*ast.AssignStmt); isAs && eng.ObjOf(info, as.Lhs[0]) == po && s.F.CFG().Dominates(s.F.CFG().LocOf(sc.Clause.Comm), s.F.CFG().LocOf(s.Node)) {
								okSrc = true
							}
						}
					}
				}
			}
			c.Check(K(s.F.Name, "TryAddPeer"), s.Node.Pos(), ok && okSrc, "TryAddPeer runs only in the routing-table loop, on the peer received from the admission channel", "caller or peer source differs")
		}
		// senders on the admission channel
		ns := 0
		for _, f := range p.Funcs() {
			info := f.Info()
			f.Walk(func(n ast.Node) bool {
				if s, ok := n.(*ast.SendStmt); ok && eng.IsField(info, s.Chan, "dht.IpfsDHT.addPeerToRTChan") {
					ns++
					c.Check(K(f.Name, "sends on admission channel"), s.Pos(), f.Name == "(*dht.IpfsDHT).validPeerFound" && eng.IsObj(info, s.Value, paramObj(f, "p")), "only validPeerFound feeds the admission channel, with its own argument", "sent from "+f.Name)
				}
				return true
			})
		}
		c.Check("admission channel senders", 0, ns == 1, "the admission channel has one sender", "found "+itoa(ns))
		// callers of validPeerFound
		vs := p.AllCalls("(*dht.IpfsDHT).validPeerFound")
		c.Check("validPeerFound callers", 0, len(vs) == 2, "a lookup request and the admission probe report valid peers", "found "+itoa(len(vs))+" call sites")
		for _, s := range vs {
			cf := s.F.CFG()
			info := s.F.Info()
			var okG bool
			var peerOK bool
			switch s.F.Root().Name {
			case "(*dht.query).queryPeer":
				var qcall *ast.CallExpr
				okG, _ = cf.Guarded(cf.LocOf(s.Node), func(ft eng.Fact) bool {
					call, isNilE, ok := ft.ErrCall()
					if ok && isNilE && eng.CalleeName(info, call) == "field:dht.query.queryFn" {
						qcall = call
						return true
					}
					return false
				})
				peerOK = qcall != nil && len(qcall.Args) == 2 && eng.SameExpr(info, qcall.Args[1], s.Call().Args[0])
			case "(*dht.IpfsDHT).peerFound":
				var pcall *ast.CallExpr
				okG, _ = cf.Guarded(cf.LocOf(s.Node), func(ft eng.Fact) bool {
					call, isNilE, ok := ft.ErrCall()
					if ok && isNilE && eng.CalleeName(info, call) == "(*dht.IpfsDHT).lookupCheck" {
						pcall = call
						return true
					}
					return false
				})
				peerOK = pcall != nil && len(pcall.Args) == 2 && eng.SameExpr(info, pcall.Args[1], s.Call().Args[0])
			}
			c.Check(K(s.F.Name, "validPeerFound behind success"), s.Node.Pos(), okG && peerOK, "a peer is reported valid only after it answered a request of this node without error", "call not on the nil-error edge of the request to that very peer")
		}
		// the probe cannot succeed without a successful request
		lc := c.Fn("(*dht.IpfsDHT).lookupCheck")
		linfo := lc.Info()
		reqs := lc.Calls("(*dht/pb.ProtocolMessenger).GetClosestPeers")
		okReq := len(reqs) == 1
		var errObj eng.Object
		if okReq {
			if as, isAs := p.Parent(reqs[0]).(*ast.AssignStmt); isAs && len(as.Lhs) == 2 {
				errObj = eng.ObjOf(linfo, as.Lhs[1])
			}
			pp := paramObj(lc, "p")
			okReq = len(reqs[0].Args) == 3 && eng.IsObj(linfo, reqs[0].Args[1], pp)
		}
		c.Check(K(lc.Name, "asks the peer"), lc.Pos(), okReq && errObj != nil, "the admission probe sends a request to the probed peer", "request missing or addressed elsewhere")
		for i, ret := range lc.CFG().Returns() {
			if len(ret.Results) != 1 {
				continue
			}
			r0 := ret.Results[0]
			ok := eng.IsObj(linfo, r0, errObj)
			if call, isCall := eng.Unparen(r0).(*ast.CallExpr); isCall && (eng.CalleeName(linfo, call) == "fmt.Errorf" || eng.CalleeName(linfo, call) == "errors.New") {
				ok = true
			}
			c.Check(K(lc.Name, "return#"+itoa(i)), ret.Pos(), ok, "the probe returns the request's error or a new error, never an unconditional nil", "returns "+short(r0))
		}
	}

	// R2 probe preconditions
	c.Rule("R2")
	{
		f := c.Fn("(*dht.IpfsDHT).peerFound")
		cf := f.CFG()
		info := f.Info()
		pp := paramObj(f, "p")
		var gs *ast.GoStmt
		f.Walk(func(n ast.Node) bool {
			if g, ok := n.(*ast.GoStmt); ok {
				gs = g
			}
			return true
		})
		if c.Check(K(f.Name, "probe goroutine"), f.Pos(), gs != nil, "peerFound starts the probe", "no go statement") {
			loc := cf.LocOf(gs)
			gU, _ := cf.Guarded(loc, func(ft eng.Fact) bool {
				call, truth, ok := ft.CallFact("(*github.com/libp2p/go-libp2p-kbucket.RoutingTable).UsefulNewPeer")
				return ok && truth && eng.IsObj(info, call.Args[0], pp)
			})
			gE, _ := cf.Guarded(loc, func(ft eng.Fact) bool {
				call, isNilE, ok := ft.ErrCall()
				return ok && isNilE && eng.CalleeName(info, call) == "(*dht.IpfsDHT).validRTPeer" && eng.IsObj(info, call.Args[0], pp)
			})
			gB, _ := cf.Guarded(loc, func(ft eng.Fact) bool {
				o, truth, isB := ft.BoolVar()
				if !isB || !truth {
					return false
				}
				for _, d := range f.AssignedFrom(o) {
					if _, ok := eng.IsCallTo(info, defOrNil(d), "(*dht.IpfsDHT).validRTPeer"); ok {
						return true
					}
				}
				return false
			})
			c.Check(K(f.Name, "probe only useful peers"), gs.Pos(), gU, "a peer already in the table, or whose bucket is full, is not probed", "probe not guarded by UsefulNewPeer(p)")
			c.Check(K(f.Name, "probe only valid DHT peers"), gs.Pos(), gE && gB, "only a peer that advertises the DHT protocol and passes the routing-table filter is probed", "probe not guarded by validRTPeer(p) == (true, nil)")
		}
		v := c.Fn("(*dht.IpfsDHT).validRTPeer")
		vcf := v.CFG()
		vinfo := v.Info()
		fsp := v.Calls("(github.com/libp2p/go-libp2p/core/peerstore.ProtoBook).FirstSupportedProtocol")
		okP := len(fsp) == 1 && len(fsp[0].Args) == 2 && eng.IsField(vinfo, fsp[0].Args[1], "dht.IpfsDHT.protocols") && eng.IsObj(vinfo, fsp[0].Args[0], paramObj(v, "p"))
		c.Check(K(v.Name, "primary protocols"), v.Pos(), okP, "membership requires support of a primary DHT protocol (not a legacy server-only one)", "FirstSupportedProtocol not called with dht.protocols")
		nTrue := 0
		for _, ret := range vcf.Returns() {
			if len(ret.Results) != 2 || isBoolConst(vinfo, ret.Results[0], false) {
				continue
			}
			nTrue++
			gErr, _ := vcf.Guarded(vcf.LocOf(ret), func(ft eng.Fact) bool {
				return ft.ErrOf(true, "(github.com/libp2p/go-libp2p/core/peerstore.ProtoBook).FirstSupportedProtocol")
			})
			gLen, _ := vcf.Guarded(vcf.LocOf(ret), func(ft eng.Fact) bool {
				x, nonEmpty, ok := emptinessFact(ft)
				if !ok || !nonEmpty {
					return false
				}
				for _, d := range v.AssignedFrom(eng.ObjOf(vinfo, x)) {
					if _, isF := eng.IsCallTo(vinfo, defOrNil(d), "(github.com/libp2p/go-libp2p/core/peerstore.ProtoBook).FirstSupportedProtocol"); isF {
						return true
					}
				}
				return false
			})
			at := func(leaf ast.Expr) (string, bool, bool) {
				if call, ok := eng.Unparen(leaf).(*ast.CallExpr); ok && eng.CalleeName(vinfo, call) == "field:dht.IpfsDHT.routingTablePeerFilter" {
					return "passes", true, true
				}
				if b, ok := eng.Unparen(leaf).(*ast.BinaryExpr); ok && eng.IsField(vinfo, b.X, "dht.IpfsDHT.routingTablePeerFilter") && isNil(vinfo, b.Y) {
					return "noFilter", b.Op == token.EQL, true
				}
				return "", false, false
			}
			okF := eng.Equivalent(ret.Results[0], at, []string{"passes", "noFilter"}, func(m map[string]bool) bool { return m["noFilter"] || m["passes"] })
			c.Check(K(v.Name, "valid only with protocol and filter"), ret.Pos(), gErr && gLen && okF, "a peer is valid only if the protocol lookup succeeded with a match and the routing-table filter (if any) accepts it", "protocol="+btoa(gErr && gLen)+" filter="+btoa(okF))
		}
		c.Check(K(v.Name, "has positive return"), v.Pos(), nTrue == 1, "validRTPeer has one non-false return", "found "+itoa(nTrue))
	}

	// R3 eviction unless cancelled
	c.Rule("R3")
	{
		f := c.Fn("(*dht.query).queryPeer")
		cf := f.CFG()
		info := f.Info()
		pp := paramObj(f, "p")
		for _, step := range []string{"(*dht.IpfsDHT).dialPeer", "field:dht.query.queryFn"} {
			calls := f.Calls(step)
			if !c.Check(K(f.Name, "step "+step), f.Pos(), len(calls) == 1, "queryPeer performs the step once", "found "+itoa(len(calls))) {
				continue
			}
			ctxObj := eng.ObjOf(info, calls[0].Args[0])
			edges := errEdges(cf, false, step)
			c.Check(K(f.Name, "tests error of "+step), f.Pos(), len(edges) == 1, "the step's error is tested", "found "+itoa(len(edges))+" tests")
			for _, e := range edges {
				n := 0
				for _, ev := range f.Calls("(*dht.IpfsDHT).peerStoppedDHT") {
					// an eviction shared by both steps through a helper stands once per call of the helper
					for _, at := range cf.Clones(cf.LocOf(ev)) {
						if !cf.GuardedAt(at, func(ft eng.Fact) bool { return ft.ErrOf(false, step) }) {
							continue
						}
						n++
						gAlive := cf.GuardedAt(at, func(ft eng.Fact) bool {
							x, isNilF, ok := ft.NilFact()
							if !ok || !isNilF {
								return false
							}
							call, isErr := eng.IsCallTo(info, x, "(context.Context).Err")
							if !isErr {
								return false
							}
							s, _ := eng.Unparen(call.Fun).(*ast.SelectorExpr)
							if s == nil {
								return false
							}
							if eng.IsObj(info, s.X, ctxObj) {
								return true
							}
							// the helper's context parameter, bound to the step's context at this call
							if arg := cf.ArgAt(at, eng.ObjOf(info, s.X)); arg != nil {
								return eng.IsObj(info, arg, ctxObj)
							}
							return false
						})
						// no other condition narrows the eviction
						extra := 0
						for _, ce := range cf.DominatingCondsAt(at) {
							b, isB := eng.Unparen(ce.Cond).(*ast.BinaryExpr)
							if isB && (isNil(info, b.Y) || isNil(info, b.X)) {
								continue // error tests of the steps and the ctx.Err() test
							}
							extra++
						}
						c.Check(K(f.Name, "evict after failed "+step), ev.Pos(), gAlive && extra == 0 && eng.IsObj(info, ev.Args[0], pp),
							"a peer that failed this step is evicted exactly when the context that governed the step is still alive", "eviction not guarded by <step's ctx>.Err() == nil, guarded by more, or evicting another peer")
					}
				}
				c.Check(K(f.Name, "eviction exists for "+step), e.Fact.Pos(), n == 1, "a failed step can evict the peer", "found "+itoa(n)+" evictions on its error edge")
			}
		}
		ps := c.Fn("(*dht.IpfsDHT).peerStoppedDHT")
		rm := ps.Calls(fnRemovePeer)
		okRm := len(rm) == 1 && eng.IsObj(ps.Info(), rm[0].Args[0], paramObj(ps, "p"))
		if okRm {
			okRm, _ = ps.CFG().MustPass(ps.CFG().Entry(), eng.LocSet(ps.CFG().Exits(true)...), eng.LocSet(ps.CFG().LocOf(rm[0])))
		}
		c.Check(K(ps.Name, "removes"), ps.Pos(), okRm, "peerStoppedDHT removes the peer from the routing table on every path", "RemovePeer(p) missing or conditional")
	}

	// R4 protocol change
	c.Rule("R4")
	{
		f := c.Fn("dht.handlePeerChangeEvent")
		cf := f.CFG()
		info := f.Info()
		pp := paramObj(f, "p")
		var validObj eng.Object
		for _, call := range f.Calls("(*dht.IpfsDHT).validRTPeer") {
			if as, ok := p.Parent(call).(*ast.AssignStmt); ok && len(as.Lhs) == 2 && eng.IsObj(info, call.Args[0], pp) {
				validObj = eng.ObjOf(info, as.Lhs[0])
			}
		}
		c.Anchor(validObj != nil, "handlePeerChangeEvent: validRTPeer result not found")
		noErr := func(ft eng.Fact) bool { return ft.ErrOf(true, "(*dht.IpfsDHT).validRTPeer") }
		valid := func(want bool) func(eng.Fact) bool {
			return func(ft eng.Fact) bool {
				o, truth, isB := ft.BoolVar()
				return isB && truth == want && o == validObj
			}
		}
		for _, tc := range []struct {
			callee string
			want   bool
			desc   string
		}{
			{"(*dht.IpfsDHT).peerFound", true, "a peer that now supports the DHT protocol is probed"},
			{"(*dht.IpfsDHT).peerStoppedDHT", false, "a peer that no longer supports the DHT protocol leaves the routing table"},
		} {
			calls := f.Calls(tc.callee)
			ok := len(calls) == 1 && eng.IsObj(info, calls[0].Args[0], pp)
			if ok {
				g1, _ := cf.Guarded(cf.LocOf(calls[0]), noErr)
				g2, _ := cf.Guarded(cf.LocOf(calls[0]), valid(tc.want))
				ok = g1 && g2
			}
			c.Check(K(f.Name, tc.callee), f.Pos(), ok, tc.desc+" (and nothing happens when the check itself failed)", "call missing or under the wrong verdict")
		}
		// reached for both identify events, with the event's peer
		sub := c.Fn("(*dht.IpfsDHT).startNetworkSubscriber")
		sites := sub.CallsDeep("dht.handlePeerChangeEvent")
		c.Check(K(sub.Name, "handles both identify events"), sub.Pos(), len(sites) == 2, "protocol updates and identification completion are both handled", "found "+itoa(len(sites))+" call sites")
		seen := map[string]bool{}
		for _, s := range sites {
			for x := p.Parent(s.Node); x != nil; x = p.Parent(x) {
				if cc, ok := x.(*ast.CaseClause); ok && len(cc.List) == 1 {
					if tv, ok := s.F.Info().Types[cc.List[0]]; ok {
						seen[eng.TypeName(tv.Type)] = true
					}
					break
				}
			}
		}
		for _, ev := range []string{"EvtPeerProtocolsUpdated", "EvtPeerIdentificationCompleted"} {
			c.Check(K(sub.Name, ev), sub.Pos(), seen["github.com/libp2p/go-libp2p/core/event."+ev], ev+" triggers the protocol check", "no case for it")
			found := false
			sub.WalkDeep(func(n ast.Node) bool {
				if call, ok := n.(*ast.CallExpr); ok && eng.NameIn(eng.CalleeName(sub.Info(), call), "builtin.new") && len(call.Args) == 1 {
					if tv, ok := sub.Info().Types[call.Args[0]]; ok && eng.TypeName(tv.Type) == "github.com/libp2p/go-libp2p/core/event."+ev {
						found = true
					}
				}
				return true
			})
			c.Check(K(sub.Name, "subscribes "+ev), sub.Pos(), found, ev+" is subscribed", "not in the subscription list")
		}
	}

	// R5 refresh liveness probe
	c.Rule("R5")
	{
		f := c.Fn("(*dht/rtrefresh.RtRefreshManager).pingAndEvictPeers")
		n := 0
		for _, g := range f.Lits {
			gcf := g.CFG()
			ginfo := g.Info()
			rm := gcf.CallLocsThrough(fnRemovePeer)
			for _, step := range []string{"(github.com/libp2p/go-libp2p/core/host.Host).Connect", "field:dht/rtrefresh.RtRefreshManager.refreshPingFnc"} {
				for _, e := range errEdges(gcf, false, step) {
					n++
					ok, w := gcf.MustPass(e.Start(), eng.LocSet(gcf.Exits(false)...), eng.LocSet(rm...))
					c.CheckW(K(g.Name, "evict after failed "+step), e.Fact.Pos(), ok, "a routing-table member that fails the liveness probe is evicted", "an exit is reachable from the error edge without RemovePeer", gcf.DescribePath(w))
				}
			}
			// evicts the probed peer
			var pr eng.Object // the peer handed to the ping function
			for _, ping := range g.Calls("field:dht/rtrefresh.RtRefreshManager.refreshPingFnc") {
				if len(ping.Args) == 2 {
					pr = rootObj(ginfo, ping.Args[1])
				}
			}
			for _, site := range g.CallsDeep(fnRemovePeer) {
				call := site.Call()
				c.Check(K(g.Name, "evicts the probed peer"), call.Pos(), pr != nil && rootObj(site.F.Info(), call.Args[0]) == pr, "the evicted peer is the one that was probed", "RemovePeer on another peer")
			}
		}
		c.Check(K(f.Name, "error edges"), f.Pos(), n == 2, "connect and ping failures are both handled", "found "+itoa(n)+" error tests")
		// only recently-heard peers are skipped
		cf := f.CFG()
		info := f.Info()
		var gs *ast.GoStmt
		f.Walk(func(x ast.Node) bool {
			if g, ok := x.(*ast.GoStmt); ok {
				gs = g
			}
			return true
		})
		if gs != nil {
			conds := cf.DominatingConds(cf.LocOf(gs))
			okSkip := false
			nCond := 0
			for _, ce := range conds {
				nCond++
				ft := eng.Fact{C: cf, Expr: ce.Cond, Truth: ce.Truth}
				if ts, expired, ok := ageFact(ft, func(e ast.Expr) bool {
					return eng.IsField(info, e, "dht/rtrefresh.RtRefreshManager.successfulOutboundQueryGracePeriod")
				}); ok && expired {
					if s, isSel := eng.Unparen(ts).(*ast.SelectorExpr); isSel && eng.NameOf(s.Sel) == "LastSuccessfulOutboundQueryAt" {
						okSkip = true
					}
				}
			}
			c.Check(K(f.Name, "skips only recently heard peers"), gs.Pos(), okSkip && nCond == 1, "every member not heard from within the grace period is probed", "probe guarded by something other than `since(last successful query) > grace`")
		}
	}

	// R6 every refresh request is answered
	c.Rule("R6")
	{
		f := c.Fn("(*dht/rtrefresh.RtRefreshManager).loop")
		cf := f.CFG()
		info := f.Info()
		var waiting eng.Object
		var appends []eng.Loc
		// the waiter list is the local slice that reply channels (triggerRefreshReq.respCh) are appended to
		for _, as := range assignsTo(f, func(l ast.Expr) bool {
			v, ok := eng.ObjOf(info, l).(*eng.Var)
			return ok && !v.IsField()
		}) {
			if app, isApp := eng.IsCallTo(info, as.Rhs[0], "builtin.append"); isApp && len(as.Lhs) == 1 && len(app.Args) == 2 &&
				eng.IsObj(info, app.Args[0], eng.ObjOf(info, as.Lhs[0])) && eng.IsField(info, app.Args[1], "dht/rtrefresh.triggerRefreshReq.respCh") {
				if waiting == nil || waiting == eng.ObjOf(info, as.Lhs[0]) {
					waiting = eng.ObjOf(info, as.Lhs[0])
					appends = append(appends, cf.LocOf(as))
				}
			}
		}
		// one collection point per place a request is received
		nrecv := 0
		f.Walk(func(n ast.Node) bool {
			if u, ok := n.(*ast.UnaryExpr); ok && u.Op == token.ARROW && eng.IsField(info, u.X, "dht/rtrefresh.RtRefreshManager.triggerRefresh") {
				nrecv++
			}
			return true
		})
		// (an append inside a helper read in place stands once per call of the helper)
		nstand := 0
		for _, a := range appends {
			nstand += len(cf.Clones(a))
		}
		if c.Check(K(f.Name, "collects waiters"), f.Pos(), len(appends) >= 1 && nstand == nrecv && waiting != nil, "requests with a reply channel are collected wherever a request is received (first request and batched ones)", "found "+itoa(nstand)+" appends for "+itoa(nrecv)+" receives") {
			var ans *ast.RangeStmt
			f.Walk(func(n ast.Node) bool {
				if rg, ok := n.(*ast.RangeStmt); ok && eng.IsObj(info, rg.X, waiting) {
					ans = rg
				}
				return true
			})
			if c.Check(K(f.Name, "answer loop"), f.Pos(), ans != nil && ans.Value != nil, "the waiters are answered in a loop", "no loop over waiting") {
				ansLoc := cf.LocOf(ans.X)
				// the first select of the next iteration / exits
				var targets []eng.Loc
				targets = append(targets, cf.Exits(false)...)
				for _, as := range assignsTo(f, func(l ast.Expr) bool { return eng.IsObj(info, l, waiting) }) {
					_ = as
				}
				f.Walk(func(n ast.Node) bool {
					if vs, ok := n.(*ast.ValueSpec); ok && len(vs.Names) == 1 && info.Defs[vs.Names[0]] == waiting {
						targets = append(targets, cf.LocOf(vs))
					}
					return true
				})
				for i, a := range appends {
					ok, w := cf.MustPass(a, eng.LocSet(targets...), eng.LocSet(ansLoc))
					c.CheckW(K(f.Name, "waiter#"+itoa(i)+" answered"), a.B.Nodes[a.I].Pos(), ok, "once a request is accepted, the answer loop is reached before the next round or the loop's exit", "the waiter list can be dropped unanswered", cf.DescribePath(w))
				}
				// the body sends and closes, with nothing that could skip them
				sent, closed, early := false, false, false
				ast.Inspect(ans.Body, func(n ast.Node) bool {
					switch x := n.(type) {
					case *ast.SendStmt:
						if eng.SameExpr(info, x.Chan, ans.Value) {
							sent = true
						}
					case *ast.CallExpr:
						if eng.NameIn(eng.CalleeName(info, x), "builtin.close") && eng.SameExpr(info, x.Args[0], ans.Value) {
							closed = true
						}
					case *ast.BranchStmt, *ast.ReturnStmt, *ast.IfStmt, *ast.SelectStmt:
						early = true
					}
					return true
				})
				c.Check(K(f.Name, "answer = send + close"), ans.Pos(), sent && closed && !early, "every waiter receives the result and has its channel closed, unconditionally", "sent="+btoa(sent)+" closed="+btoa(closed)+" conditional="+btoa(early))
			}
		}
		r := c.Fn("(*dht/rtrefresh.RtRefreshManager).Refresh")
		rinfo := r.Info()
		var resp eng.Object
		r.Walk(func(n ast.Node) bool {
			if as, ok := n.(*ast.AssignStmt); ok && len(as.Rhs) == 1 {
				if isMake, capE := eng.MakeChan(rinfo, as.Rhs[0]); isMake {
					resp = eng.ObjOf(rinfo, as.Lhs[0])
					v, isC := eng.ConstInt(rinfo, defOrNil(capE))
					c.Check(K(r.Name, "reply capacity"), as.Pos(), isC && v >= 1, "the reply channel is buffered, so the answer never blocks the manager", "capacity < 1")
				}
			}
			return true
		})
		okCtx := false
		for _, g := range r.Lits {
			for _, sel := range g.Selects() {
				for _, sc := range eng.SelectCases(g.Info(), sel) {
					if sc.Kind != "ctx" {
						continue
					}
					s, cl := false, false
					for _, st := range sc.Clause.Body {
						ast.Inspect(st, func(n ast.Node) bool {
							switch x := n.(type) {
							case *ast.SendStmt:
								if eng.IsObj(g.Info(), x.Chan, resp) {
									s = true
								}
							case *ast.CallExpr:
								if eng.NameIn(eng.CalleeName(g.Info(), x), "builtin.close") && eng.IsObj(g.Info(), x.Args[0], resp) {
									cl = true
								}
							}
							return true
						})
					}
					okCtx = s && cl
				}
			}
		}
		c.Check(K(r.Name, "answered when closing"), r.Pos(), okCtx && resp != nil, "a request that cannot be handed to the manager because it is closing is answered and closed by the requester's goroutine", "the ctx.Done() arm does not send and close")
	}

	// R7 admission probe sources
	c.Rule("R7")
	{
		allowed := map[string]bool{"dht.New": true, "(*dht.IpfsDHT).fixLowPeers": true, "dht.handlePeerChangeEvent": true}
		sites := p.AllCalls("(*dht.IpfsDHT).peerFound")
		c.Check("peerFound callers", 0, len(sites) == 3, "connected peers (at start and when the table is low) and protocol events feed the probe", "found "+itoa(len(sites)))
		for _, s := range sites {
			ok := allowed[s.F.Root().Name]
			info := s.F.Info()
			if ok && s.F.Root().Name != "dht.handlePeerChangeEvent" {
				// argument is the element of Network().Peers()
				ok = false
				for x := p.Parent(s.Node); x != nil; x = p.Parent(x) {
					if rg, isR := x.(*ast.RangeStmt); isR {
						_, isPeers := eng.IsCallTo(info, rg.X, "(github.com/libp2p/go-libp2p/core/network.Network).Peers", "(github.com/libp2p/go-libp2p/core/network.Dialer).Peers")
						ok = isPeers && rg.Value != nil && eng.SameExpr(info, s.Call().Args[0], rg.Value)
						break
					}
				}
			}
			c.Check(K(s.F.Name, "feeds probe"), s.Node.Pos(), ok, "only currently connected peers and peers named by identify events are probed (the local node is neither)", "peerFound called from "+s.F.Name+" with "+short(s.Call().Args[0]))
		}
	}
}

// emptinessFact applies emptiness() to a fact, folding its truth.
func emptinessFact(ft eng.Fact) (x ast.Expr, nonEmpty bool, ok bool) {
	if ft.Tag != nil {
		return nil, false, false
	}
	x, ne, ok := emptiness(ft.C.F.Info(), ft.Expr)
	if !ok {
		return nil, false, false
	}
	if !ft.Truth {
		ne = !ne
	}
	return x, ne, true
}
