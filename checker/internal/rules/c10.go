package rules

import (
	"go/ast"
	"go/token"

	"kadcheck/internal/eng"
)

func init() {
	register(&Property{
		ID:  "C10",
		Run: runC10,
		Decided: "nil-safe access to every protobuf reply/record pointer (whole program); the mis-keyed-record check dominates the record return of ProtocolMessenger.GetValue; " +
			"reply peers are exposed only through the bounding converter PBPeersToPeerInfos, which bounds each record before converting and skips undecodable addresses; " +
			"the closer-peer list of one response is cut to at most 2*bucketSize before it is iterated; both reply readers are size-bounded and select on a context and a timer/deadline with a buffered reply channel; an aborted value search processes no further response (its stop channel is closed once). Added after the seeded rounds: a slice made with len(L) is filled by position only in a loop over L (R7); the per-peer sender retries at most once, flag set first (R8, shared C11.R2). Round 4: every admission slot taken for a lookup check is given back on every path of the check goroutine (R9).",
		NotDecided: "behaviour of protobuf-go unmarshalling on arbitrary bytes; transport behaviour.",
	})
}

func runC10(c *Ctx) {
	p := c.P

	// R1 nil-safety of protobuf pointers, whole program
	c.Rule("R1")
	sites, sources := p.NilPB()
	c.Notes = append(c.Notes, "NILPB: possibly-nil sources seen: "+itoa(sources))
	for _, s := range sites {
		c.Funcs[s.F.Name] = true
		c.Check(K(s.F.Name, short(s.Sel)), s.Sel.Pos(), s.Guarded,
			"field selection through a possibly-nil protobuf pointer needs a dominating nil test",
			short(s.Base)+" may be nil: "+s.Source)
	}
	// the possibly-nil sources themselves must still exist (vacuity guard)
	c.Check("sources", 0, sources >= 2, "at least 2 possibly-nil protobuf sources are recognised in the program", "found "+itoa(sources))

	// R2 key check in ProtocolMessenger.GetValue
	c.Rule("R2")
	c04R3(c)

	// R3 ingress bounding
	c.Rule("R3")
	c10R3(c)

	// R4 2K cap
	c.Rule("R4")
	c10R4(c)

	// R5 bounded, escapable reads
	c.Rule("R5")
	c10R5(c)

	// R7 a slice made with the length of one list is indexed by a loop over that same list
	// (response-derived lists differ in length at the remote's pleasure: indexing a slice sized
	// from one by positions of another is an index-out-of-range panic)
	c.Rule("R7")
	{
		n := 0
		for _, f := range c.P.Funcs() {
			if pk := eng.Short(f.Pkg.PkgPath); pk != "dht/pb" && pk != "dht" && pk != "dht/fullrt" && pk != "dht/dual" && pk != "dht/crawler" && pk != "dht/internal/net" {
				continue
			}
			info := f.Info()
			f.Walk(func(x ast.Node) bool {
				as, ok := x.(*ast.AssignStmt)
				if !ok || len(as.Lhs) != 1 {
					return true
				}
				ix, ok := eng.Unparen(as.Lhs[0]).(*ast.IndexExpr)
				if !ok {
					return true
				}
				so, io := eng.ObjOf(info, ix.X), eng.ObjOf(info, ix.Index)
				if so == nil || io == nil {
					return true
				}
				// slice made with len(Z)
				var z ast.Expr
				for _, d := range assignsDeep(f.Root(), so) {
					if mk, isMk := eng.IsCallTo(info, defOrNil(d), "builtin.make"); isMk && len(mk.Args) == 2 {
						if la := eng.LenArg(info, mk.Args[1]); la != nil {
							z = la
						}
					}
				}
				if z == nil {
					return true
				}
				// index is the key of an enclosing range over Y
				for y := c.P.Parent(as); y != nil; y = c.P.Parent(y) {
					rg, isR := y.(*ast.RangeStmt)
					if !isR || rg.Key == nil || !eng.IsObj(info, rg.Key, io) {
						continue
					}
					n++
					c.Funcs[f.Name] = true
					c.Check(K(f.Name, "index "+short(ix)), as.Pos(), eng.SameExpr(info, rg.X, z), "a slice sized by len(L) is filled by position only in a loop over L", "made with len("+short(z)+") but indexed by a loop over "+short(rg.X))
					break
				}
				return true
			})
		}
		c.Check("sized-and-indexed slices", 0, n >= 3, "slices filled by position exist in the client-side packages", "found "+itoa(n))
	}

	// R8 a failing peer costs a bounded number of attempts: the retry discipline of the
	// per-peer sender (one retry, flag set before it) — C11.R2
	c.Rule("R8")
	c.Share("C11", "R2")

	// R9 no answer (or silence) of a probed peer uses up an admission slot for good: every slot
	// taken for a lookup check is given back when the check ends, whatever its outcome
	c.Rule("R9")
	c10AdmissionSlots(c)

	// R6 no response sequence makes the value search close its stop channel twice (a panic):
	// the abort verdict is kept and ends the processing loop before the next response (shared with C04.R2)
	c.Rule("R6")
	c04R2(c)
}

// c04R3: ProtocolMessenger.GetValue returns a non-nil record only behind bytes.Equal(key, rec.GetKey()).
func c04R3(c *Ctx) {
	f := c.Fn("(*dht/pb.ProtocolMessenger).GetValue")
	cf := f.CFG()
	info := f.Info()
	n := 0
	for _, ret := range cf.Returns() {
		if len(ret.Results) == 0 {
			continue
		}
		r0 := ret.Results[0]
		if tv, ok := info.Types[r0]; ok && tv.IsNil() {
			continue
		}
		n++
		recObj := eng.ObjOf(info, r0)
		ok, _ := cf.Guarded(cf.LocOf(ret), func(ft eng.Fact) bool {
			call, truth, isCall := ft.CallFact("bytes.Equal")
			if !isCall || !truth || len(call.Args) != 2 {
				return false
			}
			// one operand derives from the key parameter, the other is rec.GetKey()
			keyParam := paramObj(f, "key")
			hasKey, hasRecKey := false, false
			for _, a := range call.Args {
				if keyParam != nil && eng.Mentions(info, a, keyParam) {
					hasKey = true
				}
				if gc, isGet := eng.IsCallTo(info, a, "(*github.com/libp2p/go-libp2p-record/pb.Record).GetKey"); isGet {
					if sel, ok := eng.Unparen(gc.Fun).(*ast.SelectorExpr); ok && recObj != nil && eng.IsObj(info, sel.X, recObj) {
						hasRecKey = true
					}
				}
			}
			return hasKey && hasRecKey
		})
		c.Check(K(f.Name, "return "+short(r0)), ret.Pos(), ok,
			"a record is returned only behind bytes.Equal(key, rec.GetKey()) for the requested key",
			"no dominating key comparison on the returned record")
	}
	c.Check(K(f.Name, "record returns"), f.Pos(), n >= 1, "GetValue has a return carrying the received record", "none found")
}

// paramObj resolves a parameter of f by name; when the name no longer exists (a rename)
// it falls back to the parameter's position on the pinned tree (paramtable_gen.go), so
// renaming a parameter never changes a verdict.
func paramObj(f *eng.Func, name string) *eng.Var {
	if f.Type.Params == nil {
		return nil
	}
	idx := 0
	var byIdx []*eng.Var
	for _, fl := range f.Type.Params.List {
		if len(fl.Names) == 0 {
			byIdx = append(byIdx, nil)
			idx++
			continue
		}
		for _, id := range fl.Names {
			v, _ := f.Info().Defs[id].(*eng.Var)
			if id.Name == name && v != nil {
				recordParam(f.Name, name, idx, false)
				return v
			}
			byIdx = append(byIdx, v)
			idx++
		}
	}
	if i, ok := paramTable[f.Name+"|"+name]; ok && i < len(byIdx) {
		return byIdx[i]
	}
	return nil
}

// c10R3: ingress bounding.
func c10R3(c *Ctx) {
	p := c.P
	conv := c.Fn("dht/pb.PBPeersToPeerInfos")
	cf := conv.CFG()
	info := conv.Info()
	bound, _ := cf.CallLocs("dht/pb.boundPeerRecordAddrs")
	uses := conv.Calls("dht/pb.PBPeerToPeerInfo", "(*dht/pb.Message_Peer).Addresses")
	c.Check(K(conv.Name, "converts"), conv.Pos(), len(uses) >= 1, "PBPeersToPeerInfos converts each element", "no conversion call found")
	for _, u := range uses {
		ok := false
		for _, b := range bound {
			bc := b.B.Nodes[b.I]
			// same element variable
			var bcall *ast.CallExpr
			ast.Inspect(bc, func(n ast.Node) bool {
				if x, isCall := n.(*ast.CallExpr); isCall && eng.NameIn(eng.CalleeName(info, x), "dht/pb.boundPeerRecordAddrs") {
					bcall = x
				}
				return true
			})
			if bcall == nil || len(bcall.Args) != 1 {
				continue
			}
			var arg ast.Expr
			if len(u.Args) == 1 {
				arg = u.Args[0]
			} else if s, isSel := eng.Unparen(u.Fun).(*ast.SelectorExpr); isSel {
				arg = s.X
			}
			if arg != nil && eng.SameExpr(info, arg, bcall.Args[0]) && cf.Dominates(b, cf.LocOf(u)) {
				ok = true
			}
		}
		c.Check(K(conv.Name, short(u)), u.Pos(), ok, "boundPeerRecordAddrs on the same element dominates its conversion", "conversion reachable without bounding the record")
	}
	// Addresses skips undecodable addresses
	addr := c.Fn("(*dht/pb.Message_Peer).Addresses")
	acf := addr.CFG()
	ainfo := addr.Info()
	nApp := 0
	for _, app := range addr.Calls("builtin.append") {
		nApp++
		ok, _ := acf.Guarded(acf.LocOf(app), func(ft eng.Fact) bool {
			return ft.ErrOf(true, "github.com/multiformats/go-multiaddr.NewMultiaddrBytes")
		})
		c.Check(K(addr.Name, short(app)), app.Pos(), ok, "an address is appended only after NewMultiaddrBytes succeeded", "append not dominated by the nil-error edge")
	}
	_ = ainfo
	c.Check(K(addr.Name, "appends"), addr.Pos(), nApp >= 1, "Addresses builds its result by append", "no append found")
	// nil receiver guard
	{
		recv := addr.Decl.Recv.List[0].Names[0]
		robj := ainfo.Defs[recv]
		for _, acc := range derefsOf(addr, robj) {
			ok, _ := acf.Guarded(acf.LocOf(acc), func(ft eng.Fact) bool {
				x, isNil, isNF := ft.NilFact()
				return isNF && !isNil && eng.IsObj(ainfo, x, robj)
			})
			c.Check(K(addr.Name, "deref "+short(acc)), acc.Pos(), ok, "Addresses tolerates a nil receiver", "receiver field read without nil test")
		}
	}
	// who reads CloserPeers / ProviderPeers
	readers := 0
	for _, f := range p.Funcs() {
		if isGenerated(p, f) {
			continue
		}
		finfo := f.Info()
		f.Walk(func(n ast.Node) bool {
			var e ast.Expr
			switch x := n.(type) {
			case *ast.CallExpr:
				if eng.NameIn(eng.CalleeName(finfo, x), "(*dht/pb.Message).GetCloserPeers", "(*dht/pb.Message).GetProviderPeers") {
					e = x
				}
			case *ast.SelectorExpr:
				fn := eng.FieldName(finfo, x)
				if fn == "dht/pb.Message.CloserPeers" || fn == "dht/pb.Message.ProviderPeers" {
					e = x
				}
			}
			if e == nil {
				return true
			}
			// writes are C09.R5's business
			if sel, isSel := e.(*ast.SelectorExpr); isSel {
				if as, isAs := p.Parent(sel).(*ast.AssignStmt); isAs {
					for _, l := range as.Lhs {
						if l == ast.Expr(sel) {
							return true
						}
					}
				}
			}
			readers++
			c.Funcs[f.Name] = true
			ok := false
			if call, isCall := p.Parent(e).(*ast.CallExpr); isCall {
				if eng.NameIn(eng.CalleeName(finfo, call), "dht/pb.PBPeersToPeerInfos") {
					ok = true
				}
				// append(resp.ProviderPeers, rec) inside the budgeted appender
				if eng.NameIn(eng.CalleeName(finfo, call), "builtin.append") && f.Root().Name == "dht.appendFittingProviderPeers" {
					ok = true
				}
			}
			c.Check(K(f.Name, short(e)), e.Pos(), ok,
				"peer records of a message are read only through the bounding converter PBPeersToPeerInfos",
				"raw read of wire peer records")
			return true
		})
	}
	c.Check("readers", 0, readers >= 3, "at least 3 readers of wire peer records exist", "found "+itoa(readers))
}

func isGenerated(p *eng.Prog, f *eng.Func) bool {
	fn := p.Fset.Position(f.Pos()).Filename
	return len(fn) > 6 && fn[len(fn)-6:] == ".pb.go"
}

// derefsOf returns the field selections through pointer variable obj in f.
func derefsOf(f *eng.Func, obj eng.Object) []*ast.SelectorExpr {
	var out []*ast.SelectorExpr
	info := f.Info()
	f.Walk(func(n ast.Node) bool {
		if s, ok := n.(*ast.SelectorExpr); ok && eng.IsObj(info, s.X, obj) && eng.FieldName(info, s) != "" {
			out = append(out, s)
		}
		return true
	})
	return out
}

// c10R4: the closer-peer list of one response is cut to <= 2*bucketSize before use.
func c10R4(c *Ctx) {
	rc := findRespColl(c)
	f := rc.QP
	cf := f.CFG()
	info := f.Info()
	qcalls := []*ast.CallExpr{rc.QCall}
	v := rc.RespQ
	loops := rc.Loops
	c.Check(K(f.Name, "response loop"), f.Pos(), len(loops) >= 1, "queryPeer iterates the response peers", "no range over the queryFn result")
	if rc.Call != nil {
		// the helper never replaces the list it was handed
		n := len(assignsDeep(rc.F, rc.Resp))
		c.Check(K(rc.F.Name, "response list not replaced"), rc.F.Pos(), n == 0, "the response list is only ever replaced by a subset of itself", "the helper reassigns its response parameter")
	}
	// every assignment to v: queryFn result, a cut v = v[:B], or an allow-listed filter
	var cuts []*ast.AssignStmt
	f.Walk(func(n ast.Node) bool {
		as, ok := n.(*ast.AssignStmt)
		if !ok {
			return true
		}
		for i, l := range as.Lhs {
			if !eng.IsObj(info, l, v) {
				continue
			}
			var rhs ast.Expr
			if len(as.Rhs) == len(as.Lhs) {
				rhs = as.Rhs[i]
			} else {
				rhs = as.Rhs[0]
			}
			rhs = eng.Unparen(rhs)
			switch x := rhs.(type) {
			case *ast.CallExpr:
				name := eng.CalleeName(info, x)
				if name == "field:dht.query.queryFn" {
					continue
				}
				ok := eng.NameIn(name, "dht.filterPeersByIPDiversity") && len(x.Args) >= 1 && eng.IsObj(info, x.Args[0], v)
				c.Check(K(f.Name, "reassign "+short(rhs)), as.Pos(), ok, "the response list is only ever replaced by a subset of itself", "assignment from "+name)
			case *ast.SliceExpr:
				if eng.IsObj(info, x.X, v) && (x.Low == nil || isZero(info, x.Low)) && x.High != nil {
					cuts = append(cuts, as)
					continue
				}
				c.Check(K(f.Name, "reassign "+short(rhs)), as.Pos(), false, "the response list is only ever replaced by a prefix of itself", "unexpected slice form")
			default:
				c.Check(K(f.Name, "reassign "+short(rhs)), as.Pos(), false, "the response list is only ever replaced by a subset of itself", "unexpected assignment")
			}
		}
		return true
	})
	for _, loop := range loops {
		ok := false
		detail := "no cut of the response list to k*bucketSize (k<=2) precedes the loop on the path where the reply is longer"
		for _, cut := range cuts {
			hi := cut.Rhs[0].(*ast.SliceExpr).High
			k, isK := bucketMultiple(f, hi)
			if !isK || k > 2 {
				detail = "cut bound " + short(hi) + " is not k*bucketSize with k<=2"
				continue
			}
			// every path to the loop either passes the cut or takes the edge len(v) <= bound
			cutLoc := cf.LocOf(cut)
			loopLoc := cf.LocOf(loop.X)
			if rc.Call != nil {
				loopLoc = cf.LocOf(rc.Call)
			}
			reach, _ := cf.Reach(cf.LocOf(qcalls[0]), eng.LocSet(loopLoc), eng.ReachOpt{
				CutLoc: eng.LocSet(cutLoc),
				CutEdge: func(b *eng.Block, i int) bool {
					for _, ft := range cf.EdgeFacts(b, i) {
						x, op, y, isRel := ft.Rel()
						if !isRel {
							continue
						}
						// len(v) <= hi  (or hi >= len(v))
						if la := eng.LenArg(info, x); la != nil && eng.IsObj(info, la, v) && eng.SameExpr(info, y, hi) && (op == eng.LEQ || op == eng.LSS || op == eng.EQL) {
							return true
						}
						if la := eng.LenArg(info, y); la != nil && eng.IsObj(info, la, v) && eng.SameExpr(info, x, hi) && (op == eng.GEQ || op == eng.GTR || op == eng.EQL) {
							return true
						}
					}
					return false
				},
			})
			if !reach {
				ok = true
			}
		}
		c.Check(K(f.Name, "cap before loop"), loop.Pos(), ok, "at most 2*bucketSize closer peers of one response are processed", detail)
	}
}

func isZero(info *eng.Info, e ast.Expr) bool {
	v, ok := eng.ConstInt(info, e)
	return ok && v == 0
}

// bucketMultiple evaluates e as k * <IpfsDHT.bucketSize> (through one local definition).
func bucketMultiple(f *eng.Func, e ast.Expr) (int64, bool) {
	info := f.Info()
	e = eng.Unparen(e)
	if id, ok := e.(*ast.Ident); ok {
		if def := f.LocalVarDef(eng.ObjOf(info, id)); def != nil {
			return bucketMultiple(f, def)
		}
		return 0, false
	}
	if eng.IsField(info, e, "dht.IpfsDHT.bucketSize") {
		return 1, true
	}
	if b, ok := e.(*ast.BinaryExpr); ok && b.Op == eng.MUL {
		if k, isC := eng.ConstInt(info, b.X); isC {
			if m, ok := bucketMultiple(f, b.Y); ok {
				return k * m, true
			}
		}
		if k, isC := eng.ConstInt(info, b.Y); isC {
			if m, ok := bucketMultiple(f, b.X); ok {
				return k * m, true
			}
		}
	}
	return 0, false
}

// c10R5: bounded, escapable reads of a reply.
func c10R5(c *Ctx) {
	for _, name := range []string{"(*dht/internal/net.peerMessageSender).ctxReadMsg", "dht/crawler.ctxReadMsg"} {
		f := c.Fn(name)
		info := f.Info()
		sels := f.Selects()
		c.Anchor(len(sels) == 1, "%s: expected one select, found %d", name, len(sels))
		cases := eng.SelectCases(info, sels[0])
		hasCtx, hasTimer, hasDefault := false, false, false
		var replyCh eng.Object
		for _, sc := range cases {
			switch sc.Kind {
			case "ctx":
				hasCtx = true
			case "timer":
				hasTimer = true
			case "default":
				hasDefault = true
			case "recv":
				o := eng.ObjOf(info, sc.Chan)
				if o == nil {
					continue
				}
				def := f.LocalVarDef(o)
				if def != nil {
					if k, _ := eng.ClassifyRecvChan(info, def); k == "timer" {
						hasTimer = true
						continue
					}
				}
				if isMake, _ := eng.MakeChan(info, defOrNil(def)); isMake || replyCh == nil {
					replyCh = o
				}
			}
		}
		c.Check(K(f.Name, "select ctx case"), sels[0].Pos(), hasCtx && !hasDefault, "the reply wait can be left through the caller's context", "no <-ctx.Done() case")
		if name == "dht/crawler.ctxReadMsg" {
			// deadline comes from the context: every caller passes a context.WithTimeout result
			for _, s := range c.P.AllCalls("dht/crawler.ctxReadMsg") {
				cinfo := s.F.Info()
				arg := s.Call().Args[0]
				def := s.F.LocalVarDef(eng.ObjOf(cinfo, arg))
				_, isTO := eng.IsCallTo(cinfo, defOrNil(def), "context.WithTimeout", "context.WithDeadline")
				c.Check(K(s.F.Name, "ctxReadMsg deadline"), s.Node.Pos(), isTO, "the crawler reads a reply under a deadline context", "context argument is not a WithTimeout/WithDeadline result")
			}
		} else {
			c.Check(K(f.Name, "select timer case"), sels[0].Pos(), hasTimer, "the reply wait is bounded by a timer", "no timer case")
		}
		// reply channel buffered, reader sends at most once
		if c.Check(K(f.Name, "reply channel"), sels[0].Pos(), replyCh != nil, "the select receives from the reader's reply channel", "no plain receive case") {
			def := f.LocalVarDef(replyCh)
			isMake, capE := eng.MakeChan(info, defOrNil(def))
			capOK := false
			if isMake && capE != nil {
				if v, ok := eng.ConstInt(info, capE); ok && v >= 1 {
					capOK = true
				}
			}
			c.Check(K(f.Name, "reply channel capacity"), sels[0].Pos(), capOK, "the reply channel is buffered so an abandoned reader never blocks", "capacity < 1 or not constant")
			sends := f.SendsOn(replyCh)
			for _, g := range f.Lits {
				hit := func(l eng.Loc) bool { return false }
				var locs []eng.Loc
				for _, s := range sends {
					if s.F == g {
						locs = append(locs, g.CFG().LocOf(s.Send))
					}
				}
				if len(locs) == 0 {
					continue
				}
				hit = eng.LocSet(locs...)
				_, max, inLoop, _, _ := g.CFG().CountOnPaths(hit, false)
				c.Check(K(g.Name, "sends on reply channel"), g.Pos(), max <= 1 && !inLoop, "the reader sends at most once on the capacity-1 reply channel", "max sends per run = "+itoa(max))
			}
		}
	}
	c09R3(c)
}

func defOrNil(e ast.Expr) ast.Expr {
	if e == nil {
		return &ast.BadExpr{}
	}
	return e
}

// c09R3: every wire reader is size-bounded by network.MessageSizeMax.
func c09R3(c *Ctx) {
	p := c.P
	maxObj := p.LookupObj("github.com/libp2p/go-libp2p/core/network.MessageSizeMax")
	c.Anchor(maxObj != nil, "network.MessageSizeMax not found")
	limit, _ := eng.ConstValInt(maxObj)
	n := 0
	for _, f := range p.Funcs() {
		info := f.Info()
		for _, call := range f.Calls("~Reader", "~ReaderSize", "~ReaderSizeWithPool", "~ReaderWithPool") {
			name := eng.CalleeName(info, call)
			if !(hasPrefix(name, "github.com/libp2p/go-msgio.") || hasPrefix(name, "github.com/libp2p/go-msgio/pbio.")) {
				continue
			}
			n++
			c.Funcs[f.Name] = true
			ok := false
			detail := name + " has no size limit"
			switch name {
			case "github.com/libp2p/go-msgio.NewVarintReaderSize", "github.com/libp2p/go-msgio.NewReaderSize",
				"github.com/libp2p/go-msgio/pbio.NewDelimitedReader", "github.com/libp2p/go-msgio.NewVarintReaderSizeWithPool":
				if len(call.Args) >= 2 {
					if v, isC := eng.ConstInt(info, call.Args[1]); isC && v <= limit && v > 0 {
						ok = true
					} else {
						detail = "limit " + short(call.Args[1]) + " is not a constant <= network.MessageSizeMax"
					}
				}
			}
			c.Check(K(f.Name, name), call.Pos(), ok, "wire readers are bounded by network.MessageSizeMax", detail)
		}
	}
	c.Check("readers", 0, n >= 2, "at least 2 wire reader constructions exist", "found "+itoa(n))
}

// respColl locates the code that consumes one query response: the loop over the peers
// returned by q.queryFn and the list of IDs it reports as heard.  The loop normally lives in
// queryPeer; when it has been extracted, it is followed into the helper that queryPeer hands
// the response to (one level).
type respColl struct {
	QP    *eng.Func     // (*query).queryPeer
	QCall *ast.CallExpr // the q.queryFn call
	RespQ eng.Object    // the response list in queryPeer
	F     *eng.Func     // function holding the loop: QP or the helper
	Resp  eng.Object    // the response list in F (a parameter of the helper)
	Call  *ast.CallExpr // the helper call in queryPeer, nil when F == QP
	Loops []*ast.RangeStmt
	SawQ  eng.Object // heard list in queryPeer (value of `heard:` in the success update)
	Saw   eng.Object // heard list in F
}

func findRespColl(c *Ctx) *respColl {
	qp := c.Fn("(*dht.query).queryPeer")
	info := qp.Info()
	qcalls := qp.Calls("field:dht.query.queryFn")
	c.Anchor(len(qcalls) == 1, "expected exactly one q.queryFn call in queryPeer, found %d", len(qcalls))
	rc := &respColl{QP: qp, QCall: qcalls[0], F: qp}
	if as, ok := c.P.Parent(qcalls[0]).(*ast.AssignStmt); ok && len(as.Lhs) >= 1 {
		rc.RespQ = eng.ObjOf(info, as.Lhs[0])
	}
	c.Anchor(rc.RespQ != nil, "result variable of q.queryFn not found")
	rc.Resp = rc.RespQ
	loopsOver := func(f *eng.Func, v eng.Object) []*ast.RangeStmt {
		var out []*ast.RangeStmt
		f.Walk(func(n ast.Node) bool {
			if r, ok := n.(*ast.RangeStmt); ok && eng.IsObj(f.Info(), r.X, v) {
				out = append(out, r)
			}
			return true
		})
		return out
	}
	rc.Loops = loopsOver(qp, rc.RespQ)
	// the heard list of the success update
	qp.Walk(func(n ast.Node) bool {
		cl, ok := n.(*ast.CompositeLit)
		if !ok {
			return true
		}
		if tv, ok := info.Types[cl]; !ok || eng.TypeName(tv.Type) != "dht.queryUpdate" {
			return true
		}
		for _, el := range cl.Elts {
			if kv, isKV := el.(*ast.KeyValueExpr); isKV && eng.NameOf(kv.Key.(*ast.Ident)) == "heard" {
				if o := eng.ObjOf(info, kv.Value); o != nil {
					rc.SawQ = o
				}
			}
		}
		return true
	})
	if len(rc.Loops) == 0 && rc.SawQ != nil {
		// handed to a helper whose result is the heard list?
		defs := assignsDeep(qp, rc.SawQ)
		if len(defs) == 1 && defs[0] != nil {
			if call, ok := eng.Unparen(defs[0]).(*ast.CallExpr); ok {
				if g := c.P.Func(eng.CalleeName(info, call)); g != nil && g.Lit == nil {
					for i, a := range call.Args {
						if eng.IsObj(info, a, rc.RespQ) {
							if po := paramAt(g, i); po != nil {
								if ls := loopsOver(g, po); len(ls) > 0 {
									rc.F, rc.Resp, rc.Call, rc.Loops = g, po, call, ls
									c.Funcs[g.Name] = true
								}
							}
						}
					}
				}
			}
		}
	}
	rc.Saw = rc.SawQ
	if rc.Call != nil && rc.SawQ != nil {
		// in queryPeer the list is the helper's result; in the helper it is what every return hands back
		rc.Saw = nil
		defs := assignsDeep(qp, rc.SawQ)
		if len(defs) == 1 && defs[0] != nil && eng.Unparen(defs[0]) == ast.Expr(rc.Call) {
			var ret eng.Object
			same := true
			for _, r := range rc.F.CFG().Returns() {
				if len(r.Results) != 1 {
					same = false
					continue
				}
				o := eng.ObjOf(rc.F.Info(), r.Results[0])
				if o == nil || (ret != nil && o != ret) {
					same = false
				}
				ret = o
			}
			if same {
				rc.Saw = ret
			}
		}
	}
	return rc
}

// paramAt returns the i-th parameter object of f.
func paramAt(f *eng.Func, i int) *eng.Var {
	if f.Type.Params == nil {
		return nil
	}
	idx := 0
	for _, fl := range f.Type.Params.List {
		if len(fl.Names) == 0 {
			idx++
			continue
		}
		for _, id := range fl.Names {
			if idx == i {
				v, _ := f.Info().Defs[id].(*eng.Var)
				return v
			}
			idx++
		}
	}
	return nil
}

// c10AdmissionSlots: peerFound takes a slot (lookupCheckCapacity--) only when one is free, hands
// it to exactly the goroutine it starts next, and that goroutine gives it back
// (lookupCheckCapacity++) on every path to its end.
func c10AdmissionSlots(c *Ctx) {
	const fld = "dht.IpfsDHT.lookupCheckCapacity"
	f := c.Fn("(*dht.IpfsDHT).peerFound")
	cf := f.CFG()
	info := f.Info()
	steps := func(g *eng.Func, tok token.Token) []eng.Loc {
		var out []eng.Loc
		g.Walk(func(n ast.Node) bool {
			if st, ok := n.(*ast.IncDecStmt); ok && st.Tok == tok && eng.IsField(g.Info(), st.X, fld) {
				out = append(out, g.CFG().LocsOf(st)...)
			}
			return true
		})
		return out
	}
	decs := steps(f, token.DEC)
	if !c.Check(K(f.Name, "takes a slot"), f.Pos(), len(decs) == 1, "peerFound takes an admission slot in one place", "found "+itoa(len(decs))) {
		return
	}
	// spawns whose goroutine returns the slot on every path
	var goodSpawns []eng.Loc
	nSpawn := 0
	for _, gs := range c.P.GoSites() {
		if gs.F != f && gs.F.Root() != f {
			continue
		}
		g := gs.Lit
		if g == nil {
			g = gs.Target
		}
		if g == nil {
			continue
		}
		nSpawn++
		gcf := g.CFG()
		incs := steps(g, token.INC)
		ok, w := gcf.MustPass(gcf.Entry(), eng.LocSet(gcf.Exits(false)...), eng.LocSet(incs...))
		c.CheckW(K(g.Name, "gives the slot back"), g.Pos(), ok && len(incs) >= 1, "the lookup-check goroutine returns its admission slot on every path to its end — success, failure, timeout alike (a slot lost per failed probe ends with no peer ever being admitted again)", "an exit of the goroutine is reachable without lookupCheckCapacity++", gcf.DescribePath(w))
		if ok && len(incs) >= 1 {
			goodSpawns = append(goodSpawns, cf.LocsOf(gs.Node)...)
		}
	}
	c.Check(K(f.Name, "starts the check"), f.Pos(), nSpawn == 1, "peerFound starts the lookup check in one goroutine", "found "+itoa(nSpawn)+" spawns")
	ok, w := cf.MustPass(decs[0], eng.LocSet(cf.Exits(false)...), eng.LocSet(goodSpawns...))
	c.CheckW(K(f.Name, "slot handed to the check"), f.Pos(), ok, "once a slot is taken, the goroutine that will return it is started on every path", "peerFound can return after taking a slot without starting the check", cf.DescribePath(w))
	free, _ := cf.Guarded(decs[0], func(ft eng.Fact) bool {
		x, op, y, isRel := ft.Rel()
		if !isRel {
			return false
		}
		if eng.IsField(info, y, fld) {
			x, y = y, x
			op = map[token.Token]token.Token{token.LSS: token.GTR, token.GTR: token.LSS, token.LEQ: token.GEQ, token.GEQ: token.LEQ, token.EQL: token.EQL, token.NEQ: token.NEQ}[op]
		}
		if !eng.IsField(info, x, fld) {
			return false
		}
		v, isC := eng.ConstInt(info, y)
		return isC && ((v == 0 && (op == token.NEQ || op == token.GTR)) || (v == 1 && op == token.GEQ))
	})
	c.Check(K(f.Name, "slot taken only when free"), f.Pos(), free, "a slot is taken only when the counter is positive", "decrement not guarded by lookupCheckCapacity != 0")
}
