package rules

import (
	"go/ast"
	"go/token"

	"kadcheck/internal/eng"
)

func init() {
	register(&Property{
		ID:  "C13",
		Run: runC13,
		Decided: "every loop cycle of the stream handler crosses the server-mode test before reading and before dispatching, and leaves with a reset otherwise (R1); the mode field is written only by moveToServerMode/moveToClientMode (their own constant) and the constructor, read and written only under the mode lock, the movers are called only from setMode under that lock (R2); " +
			"demotion removes a handler for every server protocol and resets streams selected by protocol membership and inbound direction, with no early exit from the loops; promotion installs the handler for every server protocol (R3); " +
			"the reachability-to-mode table (Private: client, Public: server, Unknown: server iff auto-server) is exhaustive and always applied through setMode (R4); setMode has one caller, reached only in the automatic modes, which alone subscribe to the event (R5); the initial-mode table (R6). Added after the seeded rounds: every condition dominating the stream reset of the client-mode switch mentions that stream itself (R3).",
		NotDecided: "delivery and ordering of reachability events by the event bus.",
	})
}

func modeConst(info *eng.Info, e ast.Expr, name string) bool {
	o := eng.ObjOf(info, e)
	return o != nil && o.Name() == name && o.Pkg() != nil && o.Pkg().Path() == eng.ModPath
}

func runC13(c *Ctx) {
	p := c.P
	c.Rule("R1")
	c13R1(c)

	// R2 mode state
	c.Rule("R2")
	{
		n := checkLockSpec(c, &lockSpec{
			Lock:        "dht.IpfsDHT.modeLk",
			Fields:      []string{"dht.IpfsDHT.mode"},
			CallerHolds: map[string]eng.LockMode{"(*dht.IpfsDHT).moveToServerMode": eng.LockW, "(*dht.IpfsDHT).moveToClientMode": eng.LockW},
			ReadNeedsW:  true,
			Exempt:      map[string]string{"dht.New": "constructor: the DHT is not yet shared and no stream handler is installed before the mode is set"},
		}, "dht")
		c.Check("mode accesses", 0, n >= 2, "the mode field is accessed in at least 2 guarded places", "found "+itoa(n))
		writers := map[string]string{"(*dht.IpfsDHT).moveToServerMode": "modeServer", "(*dht.IpfsDHT).moveToClientMode": "modeClient"}
		nw := 0
		for _, f := range p.Funcs() {
			for _, acc := range f.FieldAccesses("dht.IpfsDHT.mode") {
				if !acc.Write {
					continue
				}
				nw++
				want, ok := writers[f.Name]
				if f.Name == "dht.New" {
					continue // R6
				}
				okVal := false
				if as, isAs := p.Parent(acc.Sel).(*ast.AssignStmt); isAs && len(as.Rhs) == 1 && ok {
					okVal = modeConst(f.Info(), as.Rhs[0], want)
				}
				c.Check(K(f.Name, "writes mode"), acc.Sel.Pos(), ok && okVal, "the mode is written only by the two movers, each with its own constant", "unexpected writer or value")
			}
		}
		c.Check("mode writers", 0, nw >= 2, "movers and constructor write the mode", "found "+itoa(nw))
		// the movers set the field on every path
		for fn := range writers {
			f := c.Fn(fn)
			cf := f.CFG()
			var wl []eng.Loc
			for _, acc := range f.FieldAccesses("dht.IpfsDHT.mode") {
				if acc.Write {
					wl = append(wl, cf.LocOf(acc.Sel))
				}
			}
			ok, _ := cf.MustPass(cf.Entry(), eng.LocSet(cf.Exits(true)...), eng.LocSet(wl...))
			c.Check(K(f.Name, "always sets mode"), f.Pos(), ok, "a mover records the new mode on every path", "a return is reachable without the store")
		}
		// setMode dispatch
		s := c.Fn("(*dht.IpfsDHT).setMode")
		scf := s.CFG()
		sinfo := s.Info()
		m := paramObj(s, "m")
		for fn, cn := range writers {
			calls := s.Calls(fn)
			ok := len(calls) == 1
			if ok {
				ok, _ = scf.Guarded(scf.LocOf(calls[0]), func(ft eng.Fact) bool {
					if ft.Tag != nil {
						return ft.Truth && eng.IsObj(sinfo, ft.Tag, m) && modeConst(sinfo, ft.Expr, cn)
					}
					x, y, equal, isEq := ft.EqFact()
					return isEq && equal && ((eng.IsObj(sinfo, x, m) && modeConst(sinfo, y, cn)) || (eng.IsObj(sinfo, y, m) && modeConst(sinfo, x, cn)))
				})
			}
			c.Check(K(s.Name, "dispatch "+cn), s.Pos(), ok, "setMode("+cn+") runs "+fn, "call missing or under another case")
		}
		// the movers have no other callers
		for fn := range writers {
			for _, site := range p.AllCalls(fn) {
				r := site.F.Root().Name
				c.Check(K(site.F.Name, "calls "+fn), site.Node.Pos(), r == "(*dht.IpfsDHT).setMode" || r == "dht.New", "the movers are called only from setMode and the constructor", "called from "+site.F.Name)
			}
		}
	}

	// R3 demotion / promotion
	c.Rule("R3")
	{
		f := c.Fn("(*dht.IpfsDHT).moveToClientMode")
		cf := f.CFG()
		info := f.Info()
		overServerProtocols := func(g *eng.Func, call *ast.CallExpr, argIdx int) bool {
			for x := p.Parent(call); x != nil; x = p.Parent(x) {
				if r, ok := x.(*ast.RangeStmt); ok {
					return eng.IsField(g.Info(), r.X, "dht.IpfsDHT.serverProtocols") && r.Value != nil && len(call.Args) > argIdx && eng.SameExpr(g.Info(), call.Args[argIdx], r.Value)
				}
			}
			return false
		}
		rm := f.Calls("(github.com/libp2p/go-libp2p/core/host.Host).RemoveStreamHandler")
		c.Check(K(f.Name, "removes handlers"), f.Pos(), len(rm) == 1 && overServerProtocols(f, rm[0], 0), "demotion removes the handler of every server protocol", "no RemoveStreamHandler(p) in a loop over serverProtocols")
		resets := f.Calls("(github.com/libp2p/go-libp2p/core/network.MuxedStream).Reset", "(github.com/libp2p/go-libp2p/core/network.Stream).Reset")
		c.Check(K(f.Name, "resets streams"), f.Pos(), len(resets) == 1, "demotion resets open streams", "found "+itoa(len(resets))+" Reset calls")
		for _, r := range resets {
			sel, _ := eng.Unparen(r.Fun).(*ast.SelectorExpr)
			strm := sel.X
			loc := cf.LocOf(r)
			gDir, _ := cf.Guarded(loc, func(ft eng.Fact) bool {
				x, y, equal, ok := ft.EqFact()
				if !ok || !equal {
					return false
				}
				isDir := func(e ast.Expr) bool {
					s, ok := eng.Unparen(e).(*ast.SelectorExpr)
					return ok && eng.NameOf(s.Sel) == "Direction" && eng.Mentions(info, s.X, eng.ObjOf(info, strm))
				}
				return (isDir(x) && isConst(info, y, "github.com/libp2p/go-libp2p/core/network.DirInbound")) || (isDir(y) && isConst(info, x, "github.com/libp2p/go-libp2p/core/network.DirInbound"))
			})
			var psetObj eng.Object
			gProto, _ := cf.Guarded(loc, func(ft eng.Fact) bool {
				ix, ok := memberFact(cf, ft)
				if !ok {
					return false
				}
				call, isCall := eng.IsCallTo(info, ix.Index, "(github.com/libp2p/go-libp2p/core/network.Stream).Protocol")
				if !isCall {
					return false
				}
				s, _ := eng.Unparen(call.Fun).(*ast.SelectorExpr)
				if s == nil || !eng.SameExpr(info, s.X, strm) {
					return false
				}
				psetObj = eng.ObjOf(info, ix.X)
				return psetObj != nil
			})
			c.Check(K(f.Name, "only inbound"), r.Pos(), gDir, "only inbound streams are reset", "Reset not guarded by Direction == DirInbound")
			c.Check(K(f.Name, "only DHT protocols"), r.Pos(), gProto, "only streams of the DHT server protocols are reset", "Reset not guarded by protocol membership")
			// the protocol set holds every server protocol
			okSet := false
			if psetObj != nil {
				for _, as := range assignsTo(f, func(l ast.Expr) bool {
					ix, ok := eng.Unparen(l).(*ast.IndexExpr)
					return ok && eng.IsObj(info, ix.X, psetObj)
				}) {
					for x := p.Parent(as); x != nil; x = p.Parent(x) {
						_, isSetElem := eng.Unparen(as.Rhs[0]).(*ast.CompositeLit) // struct{}{} of a set
						if rg, ok := x.(*ast.RangeStmt); ok && eng.IsField(info, rg.X, "dht.IpfsDHT.serverProtocols") && (isBoolConst(info, as.Rhs[0], true) || isSetElem) {
							ix := eng.Unparen(as.Lhs[0]).(*ast.IndexExpr)
							if rg.Value != nil && eng.SameExpr(info, ix.Index, rg.Value) {
								okSet = true
							}
						}
					}
				}
			}
			c.Check(K(f.Name, "all server protocols"), r.Pos(), okSet, "the protocol set contains every server protocol", "set not filled from dht.serverProtocols")
			// loops over all connections and all their streams, no early exit
			var loops []*ast.RangeStmt
			for x := p.Parent(r); x != nil; x = p.Parent(x) {
				if rg, ok := x.(*ast.RangeStmt); ok {
					loops = append(loops, rg)
				}
			}
			okLoops := len(loops) == 2
			if okLoops {
				_, s1 := eng.IsCallTo(info, loops[0].X, "(github.com/libp2p/go-libp2p/core/network.Conn).GetStreams")
				_, s2 := eng.IsCallTo(info, loops[1].X, "(github.com/libp2p/go-libp2p/core/network.Network).Conns", "(github.com/libp2p/go-libp2p/core/network.Dialer).Conns")
				okLoops = s1 && s2
				early := false
				ast.Inspect(loops[1].Body, func(n ast.Node) bool {
					switch x := n.(type) {
					case *ast.BranchStmt:
						if x.Tok.String() == "break" || x.Tok.String() == "goto" {
							early = true
						}
					case *ast.ReturnStmt:
						early = true
					case *ast.FuncLit:
						return false
					}
					return true
				})
				okLoops = okLoops && !early
			}
			// nothing but the stream's own protocol and direction decides whether it is reset
			extra := ""
			for _, ce := range cf.DominatingConds(loc) {
				okCond := true
				var leaves []ast.Expr
				var collect func(e ast.Expr)
				collect = func(e ast.Expr) {
					e = eng.Unparen(e)
					if u, ok := e.(*ast.UnaryExpr); ok && u.Op == token.NOT {
						collect(u.X)
						return
					}
					if b, ok := e.(*ast.BinaryExpr); ok && (b.Op == token.LAND || b.Op == token.LOR) {
						collect(b.X)
						collect(b.Y)
						return
					}
					leaves = append(leaves, e)
				}
				collect(ce.Cond)
				for _, l := range leaves {
					if !eng.Mentions(info, l, eng.ObjOf(info, strm)) {
						// a membership test through `_, ok := set[s.Protocol()]`
						if o := eng.ObjOf(info, l); o != nil {
							isMember := false
							for _, d := range f.AssignedFrom(o) {
								if d != nil && eng.Mentions(info, d, eng.ObjOf(info, strm)) {
									isMember = true
								}
							}
							if isMember {
								continue
							}
						}
						okCond = false
					}
				}
				if !okCond {
					extra = short(ce.Cond)
				}
			}
			c.Check(K(f.Name, "no other filter"), r.Pos(), extra == "", "whether a stream is reset depends on that stream's protocol and direction only (not, for instance, on who opened the connection)", "the reset is also conditional on "+extra)
			c.Check(K(f.Name, "every stream of every connection"), r.Pos(), okLoops, "all streams of all connections are examined", "loops are not over Conns()/GetStreams() or can exit early")
		}
		g := c.Fn("(*dht.IpfsDHT).moveToServerMode")
		set := g.Calls("(github.com/libp2p/go-libp2p/core/host.Host).SetStreamHandler")
		okSet := len(set) == 1 && overServerProtocols(g, set[0], 0)
		if okSet {
			s, isSel := eng.Unparen(set[0].Args[1]).(*ast.SelectorExpr)
			okSet = isSel && eng.NameOf(s.Sel) == "handleNewStream"
		}
		c.Check(K(g.Name, "installs handlers"), g.Pos(), okSet, "promotion installs handleNewStream for every server protocol", "no SetStreamHandler(p, dht.handleNewStream) in a loop over serverProtocols")
	}

	// R4 reachability table
	c.Rule("R4")
	{
		f := c.Fn("dht.handleLocalReachabilityChangedEvent")
		cf := f.CFG()
		info := f.Info()
		var target eng.Object
		sm := f.Calls("(*dht.IpfsDHT).setMode")
		if c.Check(K(f.Name, "applies through setMode"), f.Pos(), len(sm) == 1, "the new mode is applied through setMode", "found "+itoa(len(sm))+" calls") {
			target = eng.ObjOf(info, sm[0].Args[0])
			ok, _ := cf.MustPass(cf.Entry(), eng.LocSet(cf.Exits(true)...), eng.LocSet(cf.LocOf(sm[0])))
			c.Check(K(f.Name, "always applies"), sm[0].Pos(), ok && target != nil, "every reachability event reaches setMode", "a return is reachable without setMode")
		}
		reach := func(name string) func(eng.Fact) bool {
			return func(ft eng.Fact) bool {
				v, ok := eqOperand(ft, func(e ast.Expr) bool {
					s, ok := eng.Unparen(e).(*ast.SelectorExpr)
					return ok && eng.NameOf(s.Sel) == "Reachability"
				})
				return ok && isConst(info, v, "github.com/libp2p/go-libp2p/core/network."+name)
			}
		}
		autoSrv := func(want bool) func(eng.Fact) bool {
			return func(ft eng.Fact) bool {
				x, y, equal, ok := ft.EqFact()
				if !ok || equal != want {
					return false
				}
				return (eng.IsField(info, x, "dht.IpfsDHT.auto") && modeConst(info, y, "ModeAutoServer")) || (eng.IsField(info, y, "dht.IpfsDHT.auto") && modeConst(info, x, "ModeAutoServer"))
			}
		}
		seen := map[string]bool{}
		if target != nil {
			for _, as := range assignsTo(f, func(l ast.Expr) bool { return eng.IsObj(info, l, target) }) {
				loc := cf.LocOf(as)
				val := ""
				if modeConst(info, as.Rhs[0], "modeServer") {
					val = "modeServer"
				} else if modeConst(info, as.Rhs[0], "modeClient") {
					val = "modeClient"
				}
				var under string
				for _, r := range []string{"ReachabilityPrivate", "ReachabilityPublic", "ReachabilityUnknown"} {
					if g, _ := cf.Guarded(loc, reach(r)); g {
						under = r
					}
				}
				if under == "" && val == "" {
					// the literal zero mode
					if v, isC := eng.ConstInt(info, as.Rhs[0]); isC && v == 0 {
						continue
					}
					// the zero mode for a reachability outside the table (the declaration's
					// default, or a never-assigned zero variable handed back by a helper)
					if o, isVar := eng.ObjOf(info, as.Rhs[0]).(*eng.Var); isVar && !o.IsField() {
						if defs := assignsDeep(f.Root(), o); len(defs) == 0 || (len(defs) == 1 && defs[0] == nil) {
							continue
						}
					}
				}
				ok := false
				switch under {
				case "ReachabilityPrivate":
					ok = val == "modeClient"
					seen[under] = true
				case "ReachabilityPublic":
					ok = val == "modeServer"
					seen[under] = true
				case "ReachabilityUnknown":
					gT, _ := cf.Guarded(loc, autoSrv(true))
					gF, _ := cf.Guarded(loc, autoSrv(false))
					ok = (gT && val == "modeServer") || (gF && val == "modeClient")
					if ok {
						seen[under+"/"+val] = true
					}
				}
				c.Check(K(f.Name, under+" -> "+val), as.Pos(), ok, "Private: client; Public: server; Unknown: server iff auto-server", "assignment "+val+" under "+under)
			}
		}
		for _, k := range []string{"ReachabilityPrivate", "ReachabilityPublic", "ReachabilityUnknown/modeServer", "ReachabilityUnknown/modeClient"} {
			c.Check(K(f.Name, "covers "+k), f.Pos(), seen[k], "the reachability table is exhaustive", "no branch for "+k)
		}
		// the declared constants are exactly these three
		nconst := 0
		if pk := p.All["github.com/libp2p/go-libp2p/core/network"]; pk != nil {
			for _, name := range pk.Types.Scope().Names() {
				if cst, ok := pk.Types.Scope().Lookup(name).(*eng.Const); ok && eng.TypeName(cst.Type()) == "github.com/libp2p/go-libp2p/core/network.Reachability" {
					nconst++
				}
			}
		}
		c.Check("Reachability constants", 0, nconst == 3, "network.Reachability has exactly the three values the table covers", "found "+itoa(nconst))
	}

	// R5 fixed modes never change
	c.Rule("R5")
	{
		isAuto := func(info *eng.Info) func(eng.Fact) bool {
			return func(ft eng.Fact) bool {
				x, y, equal, ok := ft.EqFact()
				if !ok || !equal {
					return false
				}
				a := func(e ast.Expr) bool { return eng.IsField(info, e, "dht.IpfsDHT.auto") }
				m := func(e ast.Expr) bool { return modeConst(info, e, "ModeAuto") || modeConst(info, e, "ModeAutoServer") }
				return (a(x) && m(y)) || (a(y) && m(x))
			}
		}
		callers := p.AllCalls("(*dht.IpfsDHT).setMode")
		for _, s := range callers {
			c.Check(K(s.F.Name, "calls setMode"), s.Node.Pos(), s.F.Name == "dht.handleLocalReachabilityChangedEvent", "setMode is called only by the reachability handler", "called from "+s.F.Name)
		}
		c.Check("setMode callers", 0, len(callers) == 1, "setMode has exactly one caller", "found "+itoa(len(callers)))
		hs := p.AllCalls("dht.handleLocalReachabilityChangedEvent")
		c.Check("reachability handler callers", 0, len(hs) == 1, "the reachability handler has exactly one caller", "found "+itoa(len(hs)))
		for _, s := range hs {
			ok := s.F.CFG().GuardedBySet(s.F.CFG().LocOf(s.Node), isAuto(s.F.Info()))
			c.Check(K(s.F.Name, "handler only in auto modes"), s.Node.Pos(), ok, "reachability events change the mode only in ModeAuto/ModeAutoServer", "call not guarded by the automatic-mode test")
		}
		f := c.Fn("(*dht.IpfsDHT).startNetworkSubscriber")
		info := f.Info()
		cf := f.CFG()
		n := 0
		f.Walk(func(x ast.Node) bool {
			call, ok := x.(*ast.CallExpr)
			if !ok || !eng.NameIn(eng.CalleeName(info, call), "builtin.new") || len(call.Args) != 1 {
				return true
			}
			if tv, ok := info.Types[call.Args[0]]; ok && eng.TypeName(tv.Type) == "github.com/libp2p/go-libp2p/core/event.EvtLocalReachabilityChanged" {
				n++
				g := cf.GuardedBySet(cf.LocOf(call), isAuto(info))
				c.Check(K(f.Name, "subscribes reachability only in auto modes"), call.Pos(), g, "fixed modes do not subscribe to reachability events", "subscription not guarded by the automatic-mode test")
			}
			return true
		})
		c.Check(K(f.Name, "subscribes reachability"), f.Pos(), n == 1, "the automatic modes subscribe to reachability events", "found "+itoa(n)+" subscriptions")
	}

	// R6 initial mode
	c.Rule("R6")
	{
		f := c.Fn("dht.New")
		cf := f.CFG()
		info := f.Info()
		cfgMode := func(ft eng.Fact, names ...string) bool {
			v, ok := eqOperand(ft, func(e ast.Expr) bool {
				s, ok := eng.Unparen(e).(*ast.SelectorExpr)
				return ok && eng.NameOf(s.Sel) == "Mode"
			})
			if !ok {
				return false
			}
			for _, n := range names {
				if modeConst(info, v, n) {
					return true
				}
			}
			return false
		}
		table := map[string][]string{"modeClient": {"ModeAuto", "ModeClient"}, "modeServer": {"ModeAutoServer", "ModeServer"}}
		seen := map[string]bool{}
		for _, acc := range f.FieldAccesses("dht.IpfsDHT.mode") {
			if !acc.Write {
				continue
			}
			as := p.Parent(acc.Sel).(*ast.AssignStmt)
			for val, modes := range table {
				if modeConst(info, as.Rhs[0], val) {
					ok := cf.GuardedBySet(cf.LocOf(as), func(ft eng.Fact) bool { return cfgMode(ft, modes...) })
					// and not reachable under the other modes' cases
					other := table[map[string]string{"modeClient": "modeServer", "modeServer": "modeClient"}[val]]
					bad := false
					for _, e := range factEdges(cf, func(ft eng.Fact) bool { return cfgMode(ft, other...) }) {
						if r, _ := cf.Reach(e.Start(), eng.LocSet(cf.LocOf(as)), eng.ReachOpt{}); r {
							bad = true
						}
					}
					c.Check(K(f.Name, "initial "+val), as.Pos(), ok && !bad, "Auto,Client start as client; AutoServer,Server start as server", "assignment under the wrong configured mode")
					seen[val] = true
				}
			}
		}
		c.Check(K(f.Name, "initial table"), f.Pos(), seen["modeClient"] && seen["modeServer"], "the constructor sets the initial mode for both families", "missing assignment")
		// auto records the configured mode
		okAuto := false
		for _, as := range assignsTo(f, func(l ast.Expr) bool { return eng.IsField(info, l, "dht.IpfsDHT.auto") }) {
			if s, ok := eng.Unparen(as.Rhs[0]).(*ast.SelectorExpr); ok && eng.NameOf(s.Sel) == "Mode" {
				okAuto = true
			}
		}
		c.Check(K(f.Name, "records configured mode"), f.Pos(), okAuto, "the configured mode option is recorded", "dht.auto not set from cfg.Mode")
		// server start installs handlers
		mv := f.Calls("(*dht.IpfsDHT).moveToServerMode")
		okMv := len(mv) == 1
		if okMv {
			okMv, _ = cf.Guarded(cf.LocOf(mv[0]), func(ft eng.Fact) bool {
				x, y, equal, ok := ft.EqFact()
				return ok && equal && ((eng.IsField(info, x, "dht.IpfsDHT.mode") && modeConst(info, y, "modeServer")) || (eng.IsField(info, y, "dht.IpfsDHT.mode") && modeConst(info, x, "modeServer")))
			})
		}
		c.Check(K(f.Name, "server start installs handlers"), f.Pos(), okMv, "a node that starts in server mode installs its handlers, a client-mode node does not", "moveToServerMode not guarded by mode == modeServer")
	}
}
