// Package rules holds the per-property rule sets (DESIGN.md §5) written over the engine.
package rules

import (
	"fmt"
	"go/ast"
	"go/token"
	"sort"
	"strings"

	"kadcheck/internal/eng"
)

// Status of an obligation.
type Status int

const (
	Discharged Status = iota
	Violated
)

// Obl is one obligation: a rule instantiated at a construct.
type Obl struct {
	Rule    string   `json:"rule"`
	Key     string   `json:"key"`  // construct key, never a line number
	Desc    string   `json:"what"` // what was required
	Pos     string   `json:"pos"`
	Status  string   `json:"status"`
	Detail  string   `json:"detail,omitempty"`
	Witness []string `json:"witness,omitempty"`
	Known   string   `json:"known,omitempty"`
}

// AnchorError aborts a property when a symbol the rules are anchored on cannot be resolved.
type AnchorError struct{ Msg string }

func (e AnchorError) Error() string { return e.Msg }

// Ctx is the evaluation context of one property.
type Ctx struct {
	P     *eng.Prog
	Prop  string
	Obls  []*Obl
	Funcs map[string]bool // functions whose bodies were analysed
	Notes []string
	rule  string
	floor map[string]int
}

func NewCtx(p *eng.Prog, prop string) *Ctx {
	return &Ctx{P: p, Prop: prop, Funcs: map[string]bool{}, floor: map[string]int{}}
}

// Rule sets the current rule id (e.g. "R2" -> "C05.R2").
func (c *Ctx) Rule(id string) { c.rule = c.Prop + "." + id }

// Floor declares the minimum number of obligations rule must have produced.
func (c *Ctx) Floor(n int) { c.floor[c.rule] = n }

// Fn resolves a declared function or aborts the property as undecided.
func (c *Ctx) Fn(name string) *eng.Func {
	f := c.P.Func(name)
	if f == nil {
		panic(AnchorError{fmt.Sprintf("%s: anchor function %s not found", c.rule, name)})
	}
	c.Funcs[f.Name] = true
	return f
}

// Anchor aborts the property when cond is false.
func (c *Ctx) Anchor(cond bool, format string, args ...any) {
	if !cond {
		panic(AnchorError{c.rule + ": " + fmt.Sprintf(format, args...)})
	}
}

func (c *Ctx) add(key string, pos token.Pos, ok bool, desc, detail string, witness []string) *Obl {
	o := &Obl{Rule: c.rule, Key: key, Desc: desc, Pos: c.P.ShortPos(pos), Status: "discharged"}
	if !ok {
		o.Status = "violated"
		o.Detail = detail
		o.Witness = witness
	}
	c.Obls = append(c.Obls, o)
	return o
}

// Check records an obligation.
func (c *Ctx) Check(key string, pos token.Pos, ok bool, desc string, detail ...string) bool {
	d := ""
	if len(detail) > 0 {
		d = strings.Join(detail, "; ")
	}
	c.add(key, pos, ok, desc, d, nil)
	return ok
}

// CheckW records an obligation with a witness path for the failing case.
func (c *Ctx) CheckW(key string, pos token.Pos, ok bool, desc, detail string, witness []string) bool {
	c.add(key, pos, ok, desc, detail, witness)
	return ok
}

// CheckFloors verifies instance floors; a rule below its floor makes the property undecided.
func (c *Ctx) CheckFloors() []string {
	n := map[string]int{}
	for _, o := range c.Obls {
		n[o.Rule]++
	}
	var bad []string
	var rules []string
	for r := range c.floor {
		rules = append(rules, r)
	}
	sort.Strings(rules)
	for _, r := range rules {
		if n[r] < c.floor[r] {
			bad = append(bad, fmt.Sprintf("%s: %d instances found, floor %d", r, n[r], c.floor[r]))
		}
	}
	return bad
}

// RuleCounts returns rule -> [instances, floor].
func (c *Ctx) RuleCounts() map[string][2]int {
	out := map[string][2]int{}
	for _, o := range c.Obls {
		v := out[o.Rule]
		v[0]++
		out[o.Rule] = v
	}
	for r, f := range c.floor {
		v := out[r]
		v[1] = f
		out[r] = v
	}
	return out
}

// ---------------------------------------------------------------------------
// helpers shared by rules

// K builds a construct key.
func K(parts ...string) string { return strings.Join(parts, " : ") }

// callKey names a call site without its line: "<callee>(<args>)".
func callKey(info interface{}, call *ast.CallExpr) string {
	return eng.ExprStr(call)
}

// short renders an expression compactly for keys.
func short(e ast.Expr) string {
	s := eng.ExprStr(e)
	if len(s) > 80 {
		s = s[:77] + "..."
	}
	return s
}

func itoa(n int) string { return fmt.Sprint(n) }

func hasPrefix(s, p string) bool { return strings.HasPrefix(s, p) }

// ---------------------------------------------------------------------------
// sharing a rule of another property

var (
	shareMemo     = map[string]*Ctx{}
	shareErr      = map[string]any{}
	shareRunning  = map[string]bool{}
	shareMemoProg *eng.Prog
)

// Share evaluates rule fromRule of property fromProp (e.g. "C11", "R2") and adopts its
// obligations under the current rule of this property.  The same structural fact is often a
// necessary condition of more than one property; each check must establish it itself, because
// each check is run and judged on its own.
func (c *Ctx) Share(fromProp, fromRule string) {
	if shareMemoProg != c.P {
		shareMemo, shareErr, shareRunning, shareMemoProg = map[string]*Ctx{}, map[string]any{}, map[string]bool{}, c.P
	}
	sub, done := shareMemo[fromProp]
	if !done {
		if shareRunning[fromProp] || fromProp == c.Prop {
			return
		}
		shareRunning[fromProp] = true
		sub = NewCtx(c.P, fromProp)
		func() {
			defer func() {
				if r := recover(); r != nil {
					shareErr[fromProp] = r
				}
			}()
			Get(fromProp).Run(sub)
		}()
		shareRunning[fromProp] = false
		shareMemo[fromProp] = sub
	}
	want := fromProp + "." + fromRule
	n := 0
	for _, o := range sub.Obls {
		if o.Rule != want {
			continue
		}
		n++
		cp := *o
		cp.Rule = c.rule
		cp.Desc = o.Desc + " [shared " + want + "]"
		c.Obls = append(c.Obls, &cp)
	}
	for f := range sub.Funcs {
		c.Funcs[f] = true
	}
	if n == 0 {
		// the rule produced nothing: its anchors failed (or the other property stopped before it)
		if r := shareErr[fromProp]; r != nil {
			panic(r)
		}
		panic(AnchorError{c.rule + ": shared rule " + want + " produced no obligation"})
	}
}
