#!/bin/bash
# usage: try_mutant.sh <patch.diff> <prop> [<prop>...]   (applies to /repo, runs the checks, undoes)
set -u
patch=$1; shift
cd /repo || exit 2
if ! git diff --quiet; then echo "/repo dirty, refusing"; exit 2; fi
git apply "$patch" || { echo "patch does not apply"; exit 2; }
trap 'git -C /repo checkout -- . >/dev/null 2>&1' EXIT
cd /verif
rc=0
for p in "$@"; do
  out=$(./bin/kadcheck check -prop "$p" -noevidence 2>&1); e=$?
  echo "== $p exit=$e"
  echo "$out" | grep -E "violated|VIOLATION|UNDECIDED" | head -8
done
