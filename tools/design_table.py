#!/usr/bin/env python3
"""Regenerates the per-property detection table of DESIGN.md §9.3 from seeded/SUMMARY.md."""
import re, collections
V = "/verif"
rows = collections.defaultdict(list)
for l in open(f"{V}/seeded/SUMMARY.md"):
    m = re.match(r"\| (C\d\d)-(\d+) \| (\w[\w ]*) \| (.*) \|", l)
    if not m:
        continue
    prop, n, res, rules = m.group(1), int(m.group(2)), m.group(3), [r.strip() for r in m.group(4).split(",") if r.strip()]
    own = [r for r in rules if r.startswith(prop + ".")]
    rows[prop].append((n, own[0] if own else ("(" + rules[0] + ")" if rules else "MISSED")))
out = ["| property | seeded change → rule of its own property that fires |", "|---|---|"]
for prop in sorted(rows):
    out.append(f"| {prop} | " + ", ".join(f"{n}→{r}" for n, r in sorted(rows[prop])) + " |")
table = "\n".join(out)
s = open(f"{V}/DESIGN.md").read()
a = s.index("| property | seeded change → rule of its own property that fires |")
b = s.index("\n\n", a)
open(f"{V}/DESIGN.md", "w").write(s[:a] + table + s[b:])
print(table)
