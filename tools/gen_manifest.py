#!/usr/bin/env python3
"""Regenerates /verif/MANIFEST.json from the claims table below (keeps it valid at all times)."""
import json, os, subprocess, sys
V = os.path.dirname(os.path.dirname(os.path.abspath(__file__)))

GOENV = "PATH=/opt/veriftools/go1.26.8/bin:$PATH GOTOOLCHAIN=local GOFLAGS=-mod=mod GOPROXY=off GOSUMDB=off GOWORK=off"
SETUP = f"cd /verif/checker && {GOENV} go build -o /verif/bin/kadcheck ./cmd/kadcheck"

TRUSTED = ("Trusted base: Go type checker, golang.org/x/tools v0.50.0 (go/packages, go/cfg, go/ssa, VTA) under go1.26.8; "
           "lock identity per (type, field); third-party libraries behave as documented; frozen instance tables in the rule "
           "sources were confirmed by reading the pinned tree. ")

# id -> (technique, claim text, not decided, design ref)
CLAIMS = json.load(open(os.path.join(V, "tools", "claims.json")))
NA = json.load(open(os.path.join(V, "tools", "not_applicable.json")))

checks = []
for pid in sorted(CLAIMS):
    c = CLAIMS[pid]
    checks.append({
        "property_id": pid,
        "quick_cmd": f"./bin/kadcheck check -prop {pid} -tier quick",
        "thorough_cmd": f"./bin/kadcheck check -prop {pid} -tier thorough",
        "evidence_file": f"/verif/evidence/{pid}.json",
        "replay_cmd_template": "./bin/kadcheck explain {path}",
        "engine": "kadcheck",
        "level_claimed": {
            "category": "other",
            "text": ("Static analysis (no execution): every instance of each rule is enumerated in the type-checked whole program and decided on all paths. "
                     "Decides the following structural clauses, each a necessary condition of the property, not the behaviour itself: " + c["claim"]),
            "design_ref": "DESIGN.md §5 " + pid + ", appendix F",
        },
        "level_note": TRUSTED + "NOT decided: " + c["not_decided"],
        "technique": c["technique"],
    })

m = {
    "version": 1,
    "setup_cmd": SETUP,
    "hooks": {
        "guard": "verif",
        "enable": "no hooks: the checks read the source of /repo's working tree and never build or run it; the guard name is reserved and unused",
        "baseline_off_cmd": "cd /repo && GOFLAGS=-mod=mod GOPROXY=off go test -vet=off -count=1 -timeout 25m ./...",
        "source_commits": [],
        "add_only": True,
    },
    "engines": [{
        "name": "kadcheck",
        "path": "/verif/checker",
        "serves_properties": sorted(CLAIMS),
        "kind_free_text": "repository-specific static analyser (typed AST + go/cfg path analyses: guard dominance by edge removal, must-pass-through, exactly-once, lockset; who-may-call/write sets; SSA/VTA call-graph reachability); rules are instantiated per construct and enumerated exhaustively",
    }],
    "checks": checks,
    "notes": "All checks are static analyses of /repo's current working tree (go/packages load on every run; nothing is cached between runs). Exit 0: all obligations discharged; exit 1 + VIOLATION line: a violated obligation not listed in KNOWN_FINDINGS.txt; exit 2 + UNDECIDED line: an anchor symbol could not be resolved / type errors (never on the unchanged tree). Genuine defects found and repaired are listed as fixed: lines in KNOWN_FINDINGS.txt; see DESIGN.md §6.",
    "not_applicable": NA,
}
json.dump(m, open(os.path.join(V, "MANIFEST.json"), "w"), indent=1)
print("MANIFEST.json:", len(checks), "checks,", len(NA), "not applicable")
try:
    import jsonschema
    jsonschema.validate(m, json.load(open("/root/.vp/MANIFEST.schema.json")))
    print("schema: valid")
except ImportError:
    print("jsonschema not importable here; run with python3-vt")
