#!/bin/bash
# usage: try_patch.sh /abs/patch.diff [Cxx ...]   — applies the patch to a scratch copy of /repo (never /repo itself),
# runs the listed checks (default: all claimed) against it, prints what fires, removes the copy.
patch=$1; shift
props="$@"
[ -z "$props" ] && props="C01 C02 C03 C04 C05 C06 C07 C08 C09 C10 C11 C12 C13 C14 C15 C16 C17 C19 C20"
scr=$(mktemp -d /tmp/tp_XXXXXX)
rsync -a --exclude .git /repo/ $scr/
if ! (cd $scr && git apply "$patch" 2>&1); then echo "PATCH DOES NOT APPLY"; rm -rf $scr; exit 3; fi
fired=0
for p in $props; do
  out=$(/verif/bin/kadcheck check -prop $p -repo $scr -noevidence 2>&1); rc=$?
  if [ $rc -ne 0 ]; then fired=1; echo "$p exit=$rc"; echo "$out" | grep -E "^\s+violated|UNDECIDED" | cut -c1-330 | head -6; fi
done
[ $fired -eq 0 ] && echo "NOT DETECTED by: $props"
rm -rf $scr
