#!/usr/bin/env python3
"""Rename robustness: for every unexported anchor function / field named in the evidence files, rename it alone in a
scratch copy of /repo (kadcheck rename) and require the checks that anchor on it to stay at exit 0.
usage: eval_renames.py [func|field|locals]"""
import json, glob, os, re, subprocess, sys, shutil, collections
from concurrent.futures import ThreadPoolExecutor
V="/verif"
kind = sys.argv[1] if len(sys.argv) > 1 else "func"
targets = collections.defaultdict(set)   # name -> props
if kind == "func":
    for f in glob.glob(f"{V}/evidence/C*.json"):
        e = json.load(open(f))
        for fn in e["coverage"].get("anchor_functions", []):
            fn = fn.split("$")[0]
            base = fn.rsplit(".", 1)[-1]
            if base[:1].islower() and base not in ("init", "main"):
                targets[fn].add(e["property_id"])
elif kind == "field":
    src = open(f"{V}/checker/internal/eng/pinned_gen.go").read()
    fields = re.findall(r'^\t"(dht[^"]*)":\s+"', src[src.index("pinnedFields"):], re.M)
    rules_src = "".join(open(p).read() for p in glob.glob(f"{V}/checker/internal/rules/c*.go"))
    for q in fields:
        base = q.rsplit(".", 1)[-1]
        if base[:1].islower() and ('"' + q + '"' in rules_src or '.' + base + '"' in rules_src):
            for p in sorted(c["property_id"] for c in json.load(open(f"{V}/MANIFEST.json"))["checks"]):
                targets[q].add(p)
items = sorted(targets.items())
print(len(items), "rename targets")
def work(args):
    i, (name, props) = args
    scr = f"/tmp/evalrn{i%8}_{i}"
    subprocess.run(["rm", "-rf", scr]); os.makedirs(scr)
    subprocess.check_call(f"rsync -a --exclude .git /repo/ {scr}/", shell=True)
    r = subprocess.run([f"{V}/bin/kadcheck", "rename", "-repo", scr, "-kind", kind, "-only", name], capture_output=True, text=True)
    bad = []
    if "renamed 0 " in r.stdout or r.returncode != 0:
        shutil.rmtree(scr, ignore_errors=True)
        return name, "not renamed", [r.stdout.strip()[-120:]]
    b = subprocess.run("GOFLAGS=-mod=mod GOPROXY=off go build ./... 2>&1 | head -3", shell=True, cwd=scr, capture_output=True, text=True)
    if b.stdout.strip():
        shutil.rmtree(scr, ignore_errors=True)
        return name, "does not compile", [b.stdout.strip()[:200]]
    for p in sorted(props):
        o = subprocess.run([f"{V}/bin/kadcheck", "check", "-prop", p, "-repo", scr, "-noevidence"], capture_output=True, text=True)
        if o.returncode != 0:
            lines = [l.strip() for l in o.stdout.splitlines() if "violated" in l or "UNDECIDED" in l]
            bad.append(f"{p} exit={o.returncode}: " + " || ".join(lines[:2])[:400])
    shutil.rmtree(scr, ignore_errors=True)
    return name, "FALSE ALARM" if bad else "silent", bad
fa = 0
with ThreadPoolExecutor(8) as ex:
    for name, res, bad in ex.map(work, enumerate(items)):
        if res != "silent":
            fa += 1
            print(name, res, flush=True)
            for b in bad: print("    ", b, flush=True)
print(len(items), "targets;", fa, "not silent")
