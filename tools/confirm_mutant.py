#!/usr/bin/env python3
"""Confirms a sub-agent's seeded change in a scratch worktree and files it under /verif/seeded/.

usage: confirm_mutant.py <prop> <n> [--src /tmp/wt/<prop>-out] [--as <number to file it under>]

Checks, in a fresh git worktree of /repo's HEAD (removed afterwards):
  1. the patch applies and `go build ./...` + `go vet ./...` succeed;
  2. the complete existing suite passes with the change (go test -count=1 ./...);
  3. the demonstration FAILS with the change;
  4. the demonstration PASSES without it.
Only when all four hold is /verif/seeded/<prop>-<n>/ written (patch.diff, demo, notes.md, meta.json).
"""
import json, os, re, shutil, subprocess, sys, time

prop, n = sys.argv[1], sys.argv[2]
src = f"/tmp/wt/{prop}-out"
if "--src" in sys.argv:
    src = sys.argv[sys.argv.index("--src") + 1]
as_n = n
if "--as" in sys.argv:
    as_n = sys.argv[sys.argv.index("--as") + 1]
patch = f"{src}/mut{n}.diff"
demo = f"{src}/demo{n}_test.go"
notes = f"{src}/notes{n}.md"
wt = f"/tmp/cm/{prop}-{n}-{os.getpid()}"
env = dict(os.environ, GOFLAGS="-mod=mod", GOPROXY="off")
env.pop("GOSUMDB", None); env.pop("GOTOOLCHAIN", None)

def run(cmd, cwd, timeout=1500):
    t = time.time()
    p = subprocess.run(cmd, cwd=cwd, env=env, shell=True, stdout=subprocess.PIPE, stderr=subprocess.STDOUT, text=True, timeout=timeout)
    return p.returncode, p.stdout, time.time() - t

os.makedirs("/tmp/cm", exist_ok=True)
subprocess.run(f"git -C /repo worktree remove --force {wt}", shell=True, stderr=subprocess.DEVNULL)
rc, out, _ = run(f"git -C /repo worktree add --detach {wt} HEAD", "/repo")
assert rc == 0, out
res = {"property": prop, "n": n, "repo_head": subprocess.check_output("git -C /repo rev-parse --short HEAD", shell=True, text=True).strip()}
try:
    first = open(demo).readline()
    m = re.match(r"//\s*place in:\s*(\S+)", first)
    place = m.group(1).strip().rstrip("/") if m else "."
    tests = re.findall(r"^func (Test\w+)\(", open(demo).read(), re.M)
    res["demo_dir"], res["demo_tests"] = place, tests
    runpat = "^(" + "|".join(tests) + ")$"
    rc, out, _ = run(f"git apply {patch}", wt)
    res["applies"] = rc == 0
    if rc != 0:
        raise SystemExit("patch does not apply: " + out)
    rc, out, _ = run("go build ./... && go vet ./...", wt)
    res["builds_and_vets"] = rc == 0
    rc, out, dt = run("go test -count=1 -p 6 ./...", wt)
    res["suite_with_change"] = "pass" if rc == 0 else "FAIL"
    res["suite_wall_s"] = round(dt)
    if rc != 0:
        res["suite_output_tail"] = out[-1500:]
        # one retry for flakiness
        rc, out, dt = run("go test -count=1 -p 6 ./...", wt)
        res["suite_with_change_retry"] = "pass" if rc == 0 else "FAIL"
    demo_dst = os.path.join(wt, place, f"zz_seeded_demo{n}_test.go")
    shutil.copy(demo, demo_dst)
    cmd = f"go test -count=1 -run '{runpat}' ./{place}"
    rc, out, _ = run(cmd, wt, 600)
    res["demo_with_change"] = "FAIL" if rc != 0 else "pass"
    res["demo_with_change_tail"] = out[-800:]
    run(f"git apply -R {patch}", wt)
    rc, out, _ = run(cmd, wt, 600)
    res["demo_without_change"] = "pass" if rc == 0 else "FAIL"
    if rc != 0:
        res["demo_without_change_tail"] = out[-800:]
    res["demo_cmd"] = cmd
    ok = (res["builds_and_vets"] and (res["suite_with_change"] == "pass" or res.get("suite_with_change_retry") == "pass")
          and res["demo_with_change"] == "FAIL" and res["demo_without_change"] == "pass")
    res["confirmed"] = ok
    if ok:
        d = f"/verif/seeded/{prop}-{as_n}"
        os.makedirs(d, exist_ok=True)
        shutil.copy(patch, f"{d}/patch.diff")
        shutil.copy(demo, f"{d}/demo_test.go.txt")
        if os.path.exists(notes):
            shutil.copy(notes, f"{d}/notes.md")
        meta = {
            "breaks_property": prop,
            "patch": "patch.diff",
            "demonstration": "demo_test.go.txt (copy into ./" + place + "/ as a _test.go file)",
            "needs_to_manifest": "see notes.md (written by the sub-agent that produced the change)",
            "what_was_run": {
                "worktree": "fresh `git worktree add --detach` of /repo HEAD " + res["repo_head"] + ", removed afterwards",
                "build": "go build ./... && go vet ./... : ok",
                "suite_with_change": "go test -count=1 ./... : " + ("pass" if res["suite_with_change"] == "pass" else "pass on retry (first run flaky)"),
                "demo_with_change": cmd + " : FAIL",
                "demo_without_change": cmd + " : pass",
            },
            "detected_by": [],
        }
        json.dump(meta, open(f"{d}/meta.json", "w"), indent=1)
finally:
    subprocess.run(f"git -C /repo worktree remove --force {wt}", shell=True)
    os.makedirs("/tmp/cm/results", exist_ok=True)
    json.dump(res, open(f"/tmp/cm/results/{prop}-{as_n}.json", "w"), indent=1)
    print(json.dumps({k: v for k, v in res.items() if not k.endswith("_tail")}))
