#!/usr/bin/env python3
"""Generates selftest/variants.json: compile-clean edits of the current source, each expected to make one
rule fire (DESIGN.md appendix C).  Anchor texts are matched against the CURRENT tree at run time; a variant
whose anchor no longer occurs exactly once is skipped and counted, never a failure."""
import json, os
V = []
def v(id, prop, file, old, new, expect, what, old2=None, new2=None):
    d = dict(id=id, prop=prop, file=file, old=old, new=new, expect=expect, what=what)
    if old2 is not None:
        d["old2"], d["new2"] = old2, new2
    V.append(d)

# ---------------------------------------------------------------- C01
v("C01-a", "C01", "query.go",
  "peers := q.queryPeers.GetClosestNInStates(q.dht.bucketSize, qpeerset.PeerHeard, qpeerset.PeerWaiting, qpeerset.PeerQueried)",
  "peers := q.queryPeers.GetClosestNInStates(q.dht.bucketSize, qpeerset.PeerHeard, qpeerset.PeerWaiting, qpeerset.PeerQueried, qpeerset.PeerUnreachable)",
  "C01.R1", "failed peers added to the result selection")
v("C01-b", "C01", "query.go",
  "peers := q.queryPeers.GetClosestNInStates(q.dht.bucketSize, qpeerset.PeerHeard, qpeerset.PeerWaiting, qpeerset.PeerQueried)",
  "peers := q.queryPeers.GetClosestNInStates(q.dht.beta, qpeerset.PeerHeard, qpeerset.PeerWaiting, qpeerset.PeerQueried)",
  "C01.R1", "result size beta instead of bucketSize")
v("C01-c", "C01", "qpeerset/qpeerset.go", "return di.Cmp(dj) == -1", "return di.Cmp(dj) == 1", "C01.R3", "comparator inverted")
v("C01-d", "C01", "qpeerset/qpeerset.go", "return di.Cmp(dj) == -1", "return di.Cmp(dj) <= 0", "C01.R3", "comparator not strict")
v("C01-e", "C01", "qpeerset/qpeerset.go", "\t\tqp.sorted = false\n", "", "C01.R2", "TryAdd keeps a stale sorted flag")
v("C01-f", "C01", "qpeerset/qpeerset.go", "\t\treturn result[:n]\n", "\t\treturn result[1:n]\n", "C01.R2", "result is not a prefix")
v("C01-g", "C01", "qpeerset/qpeerset.go", "\tqp.sort()\n\tm := make(", "\tm := make(", "C01.R2", "selection without sorting")
v("C01-h", "C01", "query.go", "\t\tch <- &queryUpdate{cause: p, unreachable: []peer.ID{p}}\n\t\treturn\n\t}\n\n\tstartQuery", "\t\tch <- &queryUpdate{cause: p, queried: []peer.ID{p}}\n\t\treturn\n\t}\n\n\tstartQuery", "C01.R5", "dial failure reported as queried")
v("C01-i", "C01", "query.go", "\tif maxCloserPeers := 2 * q.dht.bucketSize; len(newPeers) > maxCloserPeers {", "\tif maxCloserPeers := 20 * q.dht.bucketSize; len(newPeers) > maxCloserPeers {", "C01.R6", "response cap 20K")
v("C01-j", "C01", "query.go", "\t\tif isTarget || q.dht.queryPeerFilter(q.dht, peer.AddrInfo{ID: next.ID, Addrs: addrs}) {", "\t\tif true || isTarget || q.dht.queryPeerFilter(q.dht, peer.AddrInfo{ID: next.ID, Addrs: addrs}) {", "C01.R6", "query filter bypassed")
v("C01-k", "C01", "lookup.go", "\treturn lookupRes.peers, nil\n}", "\treturn lookupRes.closest, nil\n}", "C01.R1", "completed lookup returns the list with failed peers")

# ---------------------------------------------------------------- C02
v("C02-a", "C02", "query.go",
  "peers := q.queryPeers.GetClosestNInStates(q.dht.beta, qpeerset.PeerHeard, qpeerset.PeerWaiting, qpeerset.PeerQueried)",
  "peers := q.queryPeers.GetClosestNInStates(1, qpeerset.PeerHeard, qpeerset.PeerWaiting, qpeerset.PeerQueried)",
  "C02.R1", "end condition looks at one peer")
v("C02-b", "C02", "query.go",
  "peers := q.queryPeers.GetClosestNInStates(q.dht.beta, qpeerset.PeerHeard, qpeerset.PeerWaiting, qpeerset.PeerQueried)",
  "peers := q.queryPeers.GetClosestNInStates(q.dht.beta, qpeerset.PeerHeard, qpeerset.PeerQueried)",
  "C02.R1", "waiting peers ignored by the end condition")
v("C02-c", "C02", "query.go", "\treturn q.queryPeers.NumHeard() == 0 && q.queryPeers.NumWaiting() == 0", "\treturn q.queryPeers.NumHeard() == 0", "C02.R2", "starvation ignores waiting peers")
v("C02-d", "C02", "query.go", "\t\tif q.terminated {\n\t\t\treturn\n\t\t}\n\n\t\t// try spawning", "\t\t// try spawning", "C02.R3", "terminated query keeps spawning")
v("C02-e", "C02", "query.go", "\tif err := ctx.Err(); err != nil || !lookupRes.completed {\n\t\treturn lookupRes.peers, err\n\t}", "\tif err := ctx.Err(); err != nil {\n\t\treturn lookupRes.peers, err\n\t}", "C02.R5", "side effects for incomplete lookups")
v("C02-f", "C02", "query.go", "\tpeersToQuery := q.queryPeers.GetClosestNInStates(nPeersToQuery, qpeerset.PeerHeard)", "\tpeersToQuery := q.queryPeers.GetClosestNInStates(nPeersToQuery, qpeerset.PeerHeard, qpeerset.PeerWaiting)", "C02.R3", "waiting peers asked again")
v("C02-g", "C02", "query.go", "\tcompleted := q.isLookupTermination() || q.isStarvationTermination()", "\tcompleted := q.isLookupTermination()", "C02.R5", "starvation not counted as completion")
v("C02-h", "C02", "query.go", "\t\tcase <-ctx.Done():\n\t\t\tlookupRes.completed = false\n\t\t\tcancelFollowUp()", "\t\tcase <-ctx.Done():\n\t\t\tcancelFollowUp()", "C02.R4", "cancelled follow-up still reported complete")
# fix file for C02-e (lives in lookup.go)
V[-4]["file"] = "lookup.go"

# ---------------------------------------------------------------- C04
v("C04-a", "C04", "routing.go", "\t\t\t\tif err := dht.Validator.Validate(key, val); err != nil {\n\t\t\t\t\t// make sure record is valid\n\t\t\t\t\tlogger.Debugw(\"received invalid record (discarded)\", \"error\", err)\n\t\t\t\t\treturn peers, nil\n\t\t\t\t}\n", "", "C04.R1", "remote value enters the search unvalidated")
v("C04-b", "C04", "pb/protocol_messenger.go", "\t\tif !bytes.Equal([]byte(key), rec.GetKey()) {", "\t\tif false && !bytes.Equal([]byte(key), rec.GetKey()) {", "C04.R3", "mis-keyed record accepted")
v("C04-c", "C04", "routing.go", "\t\t\t\tif sel != 1 {\n\t\t\t\t\taborted = newVal(ctx, v, false)\n\t\t\t\t\tcontinue\n\t\t\t\t}", "\t\t\t\tif sel != 1 && sel != 0 {\n\t\t\t\t\taborted = newVal(ctx, v, false)\n\t\t\t\t\tcontinue\n\t\t\t\t}", "C04.R2", "worse value replaces best")
v("C04-d", "C04", "records.go", "\tif id != p {\n\t\treturn nil, fmt.Errorf(\"public key %v does not match peer %v\", id, p)", "\tif false && id != p {\n\t\treturn nil, fmt.Errorf(\"public key %v does not match peer %v\", id, p)", "C04.R4", "public key not compared with the peer id")
v("C04-e", "C04", "fullrt/dht.go", "\t\t\tif err := dht.Validator.Validate(key, val); err != nil {\n\t\t\t\t// make sure record is valid\n\t\t\t\tlogger.Debugw(\"received invalid record (discarded)\", \"error\", err)\n\t\t\t\treturn nil\n\t\t\t}\n", "", "C04.R1", "fullrt remote value unvalidated")
v("C04-f", "C04", "dual/dual.go", "\tp := helper.Parallel{Routers: []routing.Routing{dht.WAN, dht.LAN}, Validator: dht.WAN.Validator}\n\treturn p.SearchValue(ctx, key, opts...)", "\tp := helper.Parallel{Routers: []routing.Routing{dht.WAN, dht.LAN}}\n\treturn p.SearchValue(ctx, key, opts...)", "C04.R6", "dual search without validator")

# ---------------------------------------------------------------- C05
v("C05-a", "C05", "records/value_store.go", "\tlock := &v.putLocks[lockIndex(key)]\n\tlock.Lock()\n\tdefer lock.Unlock()\n\n\tdskey := valueDsKey(key)\n\texisting, err := v.existingForSelect(ctx, dskey)\n\tif err != nil {\n\t\treturn err\n\t}", "\tdskey := valueDsKey(key)\n\texisting, err := v.existingForSelect(ctx, dskey)\n\tif err != nil {\n\t\treturn err\n\t}\n\tlock := &v.putLocks[lockIndex(key)]\n\tlock.Lock()\n\tdefer lock.Unlock()\n", "C05.R2", "existing record read outside the key lock")
v("C05-b", "C05", "records/value_store.go", "\t\tif best != 0 {\n\t\t\treturn ErrOldRecord\n\t\t}\n", "\t\t_ = best\n", "C05.R2", "worse record overwrites")
v("C05-c", "C05", "records/value_store.go", "\tif string(rec.GetKey()) != key {\n\t\tv.discardIfUnchanged(ctx, key, dskey, buf)\n\t\treturn nil, nil\n\t}\n", "", "C05.R4", "Get without key check")
v("C05-d", "C05", "records/value_store.go", "\tif !bytes.Equal(current, seen) {\n\t\treturn // replaced", "\tif false && !bytes.Equal(current, seen) {\n\t\treturn // replaced", "C05.R3", "delete without re-check")
v("C05-e", "C05", "records/value_store.go", "\treturn time.Since(recvtime) > v.maxRecordAge", "\treturn time.Since(recvtime) < v.maxRecordAge", "C05.R4", "expiry polarity inverted")
v("C05-f", "C05", "handlers.go", "\tif !bytes.Equal(pmes.GetKey(), rec.GetKey()) {", "\tif false && !bytes.Equal(pmes.GetKey(), rec.GetKey()) {", "C05.R6", "PUT_VALUE key mismatch accepted")
v("C05-g", "C05", "records/value_store.go", "\tif err := v.validator.Validate(key, rec.GetValue()); err != nil {\n\t\treturn fmt.Errorf(\"validating record: %w\", err)\n\t}\n", "", "C05.R2", "Put without validation")
v("C05-h", "C05", "routing.go", "\t\tif i != 0 {\n\t\t\treturn errors.New(\"can't replace a newer value with an older value\")\n\t\t}\n\t}\n\n\trec := record.MakePutRecord(key, value)\n\trec.TimeReceived = internal.FormatRFC3339(time.Now())\n\terr = dht.putLocal(ctx, key, rec)", "\t\t_ = i\n\t}\n\n\trec := record.MakePutRecord(key, value)\n\trec.TimeReceived = internal.FormatRFC3339(time.Now())\n\terr = dht.putLocal(ctx, key, rec)", "C05.R7", "local PutValue accepts an older value")

# ---------------------------------------------------------------- C06
v("C06-a", "C06", "routing.go", "\t\t\t\tID:    dht.self,\n\t\t\t\tAddrs: dht.FilteredAddrs(),\n\t\t\t})\n\t\t\tif err != nil {\n\t\t\t\tlogger.Debug(err)", "\t\t\t\tID:    dht.self,\n\t\t\t\tAddrs: dht.host.Addrs(),\n\t\t\t})\n\t\t\tif err != nil {\n\t\t\t\tlogger.Debug(err)", "C06.R3", "unfiltered addresses advertised")
v("C06-b", "C06", "pb/protocol_messenger.go", "\tif len(self.Addrs) < 1 {\n\t\treturn errors.New(\"no known addresses for self, cannot put provider\")\n\t}\n", "", "C06.R5", "announcement without addresses")
v("C06-c", "C06", "lookup_optim.go", "\t\tgo es.putProviderRecord(p)\n\t\tes.peerStates[p] = scheduled\n", "\t\tgo es.putProviderRecord(p)\n", "C06.R7", "scheduled peer not marked")
v("C06-d", "C06", "routing.go", "\tfor _, p := range peers {\n\t\twg.Add(1)\n\t\tgo func(p peer.ID) {\n\t\t\tctx, cancel := context.WithTimeout(ctx, putOperationTimeout)", "\tfor _, p := range peers[1:] {\n\t\twg.Add(1)\n\t\tgo func(p peer.ID) {\n\t\t\tctx, cancel := context.WithTimeout(ctx, putOperationTimeout)", "C06.R2", "first lookup peer skipped")
v("C06-e", "C06", "routing.go", "\tif err := dht.providerStore.AddProvider(ctx, keyMH, peer.AddrInfo{ID: dht.self}); err != nil {\n\t\tlogger.Warnw(\"failed to add self as provider\", \"mh\", internal.LoggableProviderRecordBytes(keyMH), \"error\", err)\n\t}\n\tif !brdcst {\n\t\treturn nil\n\t}\n", "\tif !brdcst {\n\t\tif err := dht.providerStore.AddProvider(ctx, keyMH, peer.AddrInfo{ID: dht.self}); err != nil {\n\t\t\tlogger.Warnw(\"failed to add self as provider\", \"mh\", internal.LoggableProviderRecordBytes(keyMH), \"error\", err)\n\t\t}\n\t\treturn nil\n\t}\n", "C06.R4", "local provider record only without broadcast")

# ---------------------------------------------------------------- C07
v("C07-a", "C07", "records/providers_manager.go", "\tif pm.stopped {\n\t\tpm.mu.Unlock()\n\t\treturn nil, ErrClosed\n\t}\n", "", "C07.R2", "GetProviders without fence")
v("C07-b", "C07", "records/providers_manager.go", "\tpm.cancel()\n\t<-pm.closed\n\tpm.mu.Lock()\n\tpm.stopped = true\n\tpm.mu.Unlock()", "\tpm.cancel()\n\tpm.mu.Lock()\n\tpm.stopped = true\n\tpm.mu.Unlock()\n\t<-pm.closed", "C07.R2", "fence set before the sweeper ended")
v("C07-c", "C07", "records/providers_manager.go", "\t\t\tif time.Since(v) > pm.provideValidity {\n\t\t\t\tcontinue\n\t\t\t}\n", "", "C07.R4", "cached branch without age test")
v("C07-d", "C07", "records/providers_manager.go", "\t\tcase now.Sub(t) > provideValidity:", "\t\tcase now.Sub(t) < provideValidity:", "C07.R4", "load path age test inverted")
v("C07-e", "C07", "records/providers_manager.go", "\t\tif err != nil || now.Sub(t) > pm.provideValidity {", "\t\tif err != nil || now.Sub(t) > pm.provideValidity || true {", "C07.R5", "sweep deletes everything")
v("C07-f", "C07", "records/provider_set.go", "\tif !found {\n\t\tps.providers = append(ps.providers, p)\n\t}\n", "\tps.providers = append(ps.providers, p)\n\t_ = found\n", "C07.R6", "duplicate providers")
v("C07-g", "C07", "records/providers_manager.go", "\tdefer close(pm.closed)\n", "", "C07.R2", "sweeper never signals its exit")

# ---------------------------------------------------------------- C08
v("C08-a", "C08", "routing.go", "(len(ps) < count || findAll) {", "(len(ps) <= count || findAll) {", "C08.R2", "off-by-one in the gate")
v("C08-b", "C08", "fullrt/dht.go", "\t\tif !ok && (len(ps) < count || findAll) {", "\t\tif (ok || !ok) && (len(ps) < count || findAll) {", "C08.R2", "fullrt gate without dedup")
v("C08-c", "C08", "routing.go", "\tdefer close(peerOut)\n\n\tfindAll := count == 0\n\n\tps := make(map[peer.ID]peer.AddrInfo)", "\tfindAll := count == 0\n\n\tps := make(map[peer.ID]peer.AddrInfo)", "C08.R6", "result channel never closed")
v("C08-d", "C08", "routing.go", "\t\t\treturn !findAll && psSize() >= count\n\t\t},\n\t)", "\t\t\treturn !findAll && psSize() > count\n\t\t},\n\t)", "C08.R3", "stop function off by one")
v("C08-e", "C08", "dual/dual.go", "\t\t\tif _, ok = found[pi.ID]; ok {\n\t\t\t\tcontinue\n\t\t\t}\n", "", "C08.R5", "dual merge without dedup")
v("C08-f", "C08", "dual/dual.go", "\t\t\t\tfound[pi.ID] = struct{}{}\n\t\t\t\tcount--\n", "\t\t\t\tfound[pi.ID] = struct{}{}\n", "C08.R5", "dual merge never counts down")

# ---------------------------------------------------------------- C09
v("C09-a", "C09", "pb/message.go", "\tpbp.Id = []byte(p.ID)\n\tboundPeerRecordAddrs(pbp)\n\treturn pbp\n}\n\n// PBPeerToPeer", "\tpbp.Id = []byte(p.ID)\n\treturn pbp\n}\n\n// PBPeerToPeer", "C09.R5", "outgoing record not bounded")
v("C09-b", "C09", "handlers.go", "\t\tif pi.ID != p {\n", "\t\tif false && pi.ID != p {\n", "C09.R7", "sender check disabled")
v("C09-c", "C09", "handlers.go", "\tkey := pmes.GetKey()\n\tif len(key) > 80 {\n\t\treturn nil, errors.New(\"handleAddProvider key size too large\")\n\t} else if len(key) == 0 {", "\tkey := pmes.GetKey()\n\tif len(key) == 0 {", "C09.R7", "provider key length unbounded")
v("C09-d", "C09", "handlers.go", "\t\taddrs := dht.filterAddrs(pi.Addrs)\n", "\t\taddrs := pi.Addrs\n", "C09.R7", "provider addresses stored unfiltered")
v("C09-e", "C09", "handlers.go", "\tlogger.Debugf(\"%s Responding to ping from %s!\\n\", dht.self, p)\n\tstripPeerRecords(pmes)\n", "\tlogger.Debugf(\"%s Responding to ping from %s!\\n\", dht.self, p)\n", "C09.R8", "ping echo carries peer records")
v("C09-f", "C09", "dht_net.go", "\tfor {\n\t\tif dht.getMode() != modeServer {\n\t\t\tlogger.Debugf(\"ignoring incoming dht message while not in server mode\")\n\t\t\treturn false\n\t\t}\n", "\tif dht.getMode() != modeServer {\n\t\tlogger.Debugf(\"ignoring incoming dht message while not in server mode\")\n\t\treturn false\n\t}\n\tfor {\n", "C09.R2", "mode checked once per stream")
v("C09-g", "C09", "handlers.go", "\tcase pb.Message_FIND_NODE:\n\t\treturn dht.handleFindPeer\n\tcase pb.Message_PING:\n\t\treturn dht.handlePing", "\tcase pb.Message_FIND_NODE:\n\t\treturn dht.handlePing\n\tcase pb.Message_PING:\n\t\treturn dht.handleFindPeer", "C09.R1", "handlers swapped")
v("C09-h", "C09", "handlers.go", "\t\tif size > network.MessageSizeMax {\n\t\t\treturn\n\t\t}\n", "\t\tif false && size > network.MessageSizeMax {\n\t\t\treturn\n\t\t}\n", "C09.R6", "provider budget removed")
v("C09-i", "C09", "dht_net.go", "\tr := msgio.NewVarintReaderSize(s, network.MessageSizeMax)\n\n\tmPeer", "\tr := msgio.NewVarintReader(s)\n\n\tmPeer", "C09.R3", "unbounded request reader")
v("C09-j", "C09", "dht.go", "\t\tif p == from {\n\t\t\tcontinue\n\t\t}\n", "", "C09.R4", "requester listed as closer peer")

# ---------------------------------------------------------------- C10
v("C10-a", "C10", "pb/protocol_messenger.go", "rpmes.GetRecord().GetValue()", "rpmes.GetRecord().Value", "C10.R1", "nil record dereferenced")
v("C10-b", "C10", "pb/message.go", "\t\tboundPeerRecordAddrs(pbp)\n\t\tai := PBPeerToPeerInfo(pbp)", "\t\tai := PBPeerToPeerInfo(pbp)", "C10.R3", "ingress records not bounded")
v("C10-c", "C10", "query.go", "\tif maxCloserPeers := 2 * q.dht.bucketSize; len(newPeers) > maxCloserPeers {\n\t\tnewPeers = newPeers[:maxCloserPeers]\n\t}\n", "", "C10.R4", "no cap on closer peers")
v("C10-d", "C10", "internal/net/message_manager.go", "\tcase <-ctx.Done():\n\t\treturn ctx.Err()\n\tcase <-t.C:", "\tcase <-t.C:", "C10.R5", "reply wait ignores the context")
v("C10-e", "C10", "internal/net/message_manager.go", "\terrc := make(chan error, 1)", "\terrc := make(chan error)", "C10.R5", "unbuffered reply channel")
v("C10-f", "C10", "crawler/crawler.go", "\tr := pbio.NewDelimitedReader(s, network.MessageSizeMax)", "\tr := pbio.NewDelimitedReader(s, network.MessageSizeMax*64)", "C10.R5", "crawler reader limit raised")

# ---------------------------------------------------------------- C11
v("C11-a", "C11", "internal/net/message_manager.go", "\t\tif err := ms.ctxReadMsg(ctx, mes); err != nil {\n\t\t\t_ = ms.s.Reset()\n\t\t\tms.s = nil\n", "\t\tif err := ms.ctxReadMsg(ctx, mes); err != nil {\n\t\t\t_ = ms.s.Reset()\n", "C11.R2", "failed stream kept for reuse")
v("C11-b", "C11", "internal/net/message_manager.go", "\tgo func() {\n\t\tif err := ms.lk.Lock(ctx); err != nil {\n\t\t\treturn\n\t\t}\n\t\tdefer ms.lk.Unlock()\n\t\tms.invalidate()\n\t}()", "\tgo func() {\n\t\tms.invalidate()\n\t}()", "C11.R1", "invalidate outside the per-peer lock")
v("C11-c", "C11", "internal/net/message_manager.go", "\tif ms.s != nil {\n\t\treturn nil\n\t}\n\n\t// We only want to speak", "\t// We only want to speak", "C11.R3", "second stream opened")
v("C11-d", "C11", "subscriber_notifee.go", "\t\t\t\t\tif evt.Connectedness != network.Connected {", "\t\t\t\t\tif evt.Connectedness == network.NotConnected {", "C11.R5", "disconnect handling narrowed")
v("C11-e", "C11", "internal/net/message_manager.go",
  "\t\tmes := new(pb.Message)\n\t\tif err := ms.ctxReadMsg(ctx, mes); err != nil {", "\t\tmes := sharedMes\n\t\tif err := ms.ctxReadMsg(ctx, mes); err != nil {",
  "C11.R6", "reply object allocated once, outside the retry loop",
  old2="\tretry := false\n\tfor {\n\t\tif err := ms.prep(ctx); err != nil {\n\t\t\treturn nil, err\n\t\t}", new2="\tretry := false\n\tsharedMes := new(pb.Message)\n\tfor {\n\t\tif err := ms.prep(ctx); err != nil {\n\t\t\treturn nil, err\n\t\t}")

# ---------------------------------------------------------------- C12
v("C12-a", "C12", "dht.go", "\t\t\tif err != nil {\n\t\t\t\tlogger.Debugw(\"connected peer not answering DHT request as expected\", \"peer\", p, \"error\", err)\n\t\t\t\treturn\n\t\t\t}\n", "\t\t\tif err != nil {\n\t\t\t\tlogger.Debugw(\"connected peer not answering DHT request as expected\", \"peer\", p, \"error\", err)\n\t\t\t}\n", "C12.R1", "failed probe still admits the peer")
v("C12-b", "C12", "query.go", "\t\tif dialCtx.Err() == nil {\n\t\t\tq.dht.peerStoppedDHT(p)\n\t\t}", "\t\tq.dht.peerStoppedDHT(p)", "C12.R3", "eviction on cancellation")
v("C12-c", "C12", "query.go", "\t\tif queryCtx.Err() == nil {\n\t\t\tq.dht.peerStoppedDHT(p)\n\t\t}\n", "", "C12.R3", "failed request never evicts")
v("C12-d", "C12", "rtrefresh/rt_refresh_manager.go", "\t\t\t\tlogger.Debugw(\"evicting peer after failed ping\", \"peer\", peerIdStr, \"error\", err)\n\t\t\t\tspan.RecordError(err)\n\t\t\t\tr.rt.RemovePeer(ps.Id)", "\t\t\t\tlogger.Debugw(\"evicting peer after failed ping\", \"peer\", peerIdStr, \"error\", err)\n\t\t\t\tspan.RecordError(err)", "C12.R5", "failed ping does not evict")
v("C12-e", "C12", "rtrefresh/rt_refresh_manager.go", "\t\tfor _, w := range waiting {\n\t\t\tw <- err\n\t\t\tclose(w)\n\t\t}", "\t\tif err == nil {\n\t\t\tfor _, w := range waiting {\n\t\t\t\tw <- err\n\t\t\t\tclose(w)\n\t\t\t}\n\t\t}", "C12.R6", "waiters dropped on error")
v("C12-f", "C12", "subscriber_notifee.go", "\t} else if valid {\n\t\tdht.peerFound(p)\n\t} else {\n\t\tdht.peerStoppedDHT(p)\n\t}", "\t} else if valid {\n\t\tdht.peerFound(p)\n\t}", "C12.R4", "protocol loss does not evict")
v("C12-g", "C12", "subscriber_notifee.go", "\tb, err := dht.peerstore.FirstSupportedProtocol(p, dht.protocols...)", "\tb, err := dht.peerstore.FirstSupportedProtocol(p, dht.serverProtocols...)", "C12.R2", "membership by server protocols")

# ---------------------------------------------------------------- C13
v("C13-a", "C13", "dht.go", "\tfor _, c := range dht.host.Network().Conns() {\n\t\tfor _, s := range c.GetStreams() {\n\t\t\tif pset[s.Protocol()] {\n\t\t\t\tif s.Stat().Direction == network.DirInbound {\n\t\t\t\t\t_ = s.Reset()\n\t\t\t\t}\n\t\t\t}\n\t\t}\n\t}\n", "", "C13.R3", "demotion keeps inbound streams")
v("C13-b", "C13", "subscriber_notifee.go", "\tcase network.ReachabilityPrivate:\n\t\ttarget = modeClient", "\tcase network.ReachabilityPrivate:\n\t\ttarget = modeServer", "C13.R4", "private reachability promotes")
v("C13-c", "C13", "subscriber_notifee.go", "\t\tif dht.auto == ModeAutoServer {\n\t\t\ttarget = modeServer\n\t\t} else {\n\t\t\ttarget = modeClient\n\t\t}", "\t\ttarget = modeServer", "C13.R4", "unknown reachability always server")
v("C13-d", "C13", "dht.go", "\tcase ModeAuto, ModeClient:\n\t\tdht.mode = modeClient\n\tcase ModeAutoServer, ModeServer:\n\t\tdht.mode = modeServer", "\tcase ModeClient:\n\t\tdht.mode = modeClient\n\tcase ModeAuto, ModeAutoServer, ModeServer:\n\t\tdht.mode = modeServer", "C13.R6", "auto mode starts as server")
v("C13-e", "C13", "dht.go", "func (dht *IpfsDHT) getMode() mode {\n\tdht.modeLk.Lock()\n\tdefer dht.modeLk.Unlock()\n\treturn dht.mode\n}", "func (dht *IpfsDHT) getMode() mode {\n\treturn dht.mode\n}", "C13.R2", "mode read without lock")
v("C13-f", "C13", "dht.go", "\t\t\t\tif s.Stat().Direction == network.DirInbound {\n\t\t\t\t\t_ = s.Reset()\n\t\t\t\t}", "\t\t\t\tif s.Stat().Direction == network.DirOutbound {\n\t\t\t\t\t_ = s.Reset()\n\t\t\t\t}", "C13.R3", "outbound streams reset instead")

# ---------------------------------------------------------------- C15
v("C15-a", "C15", "dual/dual.go", "\tif dht.WANActive() {\n\t\treturn dht.WAN.PutValue(ctx, key, val, opts...)\n\t}\n\treturn dht.LAN.PutValue(ctx, key, val, opts...)", "\tif dht.WANActive() {\n\t\treturn dht.LAN.PutValue(ctx, key, val, opts...)\n\t}\n\treturn dht.WAN.PutValue(ctx, key, val, opts...)", "C15.R1", "WAN and LAN swapped")
v("C15-b", "C15", "dual/dual.go", "\treturn dht.WAN.RoutingTable().Size() > 0", "\treturn dht.WAN.RoutingTable().Size() >= 0", "C15.R1", "WAN always active")
v("C15-c", "C15", "dual/dual.go", "\t\t\tdht.QueryFilter(dht.PublicQueryFilter),\n", "", "C15.R3", "WAN query filter missing")
v("C15-d", "C15", "dht.go", "\tdht.peerstore.AddAddrs(p, dht.filterAddrs(addrs), ttl)", "\tdht.peerstore.AddAddrs(p, addrs, ttl)", "C15.R4", "unfiltered peerstore write")
v("C15-e", "C15", "dual/dual.go", "\tif wanErr == nil {\n\t\treturn wanVal, nil\n\t}\n\tif lanErr == nil {\n\t\treturn lanVal, nil\n\t}", "\tif lanErr == nil {\n\t\treturn lanVal, nil\n\t}\n\tif wanErr == nil {\n\t\treturn wanVal, nil\n\t}", "C15.R2", "LAN preferred over WAN")
v("C15-f", "C15", "dual/dual.go", "\tif wanErr == nil || lanErr == nil {\n\t\treturn ai, nil\n\t}", "\tif wanErr == nil && lanErr == nil {\n\t\treturn ai, nil\n\t}", "C15.R5", "FindPeer fails when one DHT fails")
v("C15-g", "C15", "dual/dual.go", "\t\t\tdht.ProtocolExtension(LanExtension),\n", "", "C15.R3", "LAN protocol extension missing")

# ---------------------------------------------------------------- C03
v("C03-a", "C03", "routing.go", "\t\t\t\tselect {\n\t\t\t\tcase valCh <- recvdVal{\n\t\t\t\t\tVal:  val,\n\t\t\t\t\tFrom: p,\n\t\t\t\t}:\n\t\t\t\tcase <-ctx.Done():\n\t\t\t\t\treturn nil, ctx.Err()\n\t\t\t\t}", "\t\t\t\tvalCh <- recvdVal{\n\t\t\t\t\tVal:  val,\n\t\t\t\t\tFrom: p,\n\t\t\t\t}", "C03.R1", "value send without context escape")
v("C03-b", "C03", "lookup_optim.go", "\tif rpcCount == 0 {\n\t\treturn\n\t}\n", "", "C03.R3", "zero guard of the counted wait removed")
v("C03-c", "C03", "routing.go", "\tgo func() {\n\t\tdefer close(out)\n\t\tbest, peersWithBest, aborted := dht.searchValueQuorum(", "\tgo func() {\n\t\tbest, peersWithBest, aborted := dht.searchValueQuorum(", "C03.R4", "value stream never closed")
v("C03-d", "C03", "query.go", "\t\tif q.terminated {\n\t\t\treturn\n\t\t}\n\n\t\t// try spawning", "\t\t// try spawning", "C03.R5", "state update after termination becomes reachable")
v("C03-e", "C03", "dht.go", "\tif cfg.Concurrency < 1 {\n\t\treturn nil, fmt.Errorf(\"dht concurrency must be at least 1, got %d\", cfg.Concurrency)\n\t}\n", "", "C03.R9", "concurrency 0 accepted")
v("C03-f", "C03", "query.go", "\tdefer q.waitGroup.Wait()\n", "", "C03.R8", "lookup does not join its workers")
v("C03-g", "C03", "query.go", "\tcancel() // abort outstanding queries\n", "", "C03.R5", "terminate does not cancel outstanding requests")
v("C03-h", "C03", "fullrt/dht.go", "\terrCh := make(chan error, len(peers))", "\terrCh := make(chan error)", "C03.R7", "unbuffered fan-out result channel")
v("C03-i", "C03", "records.go", "\tresp := make(chan pubkrs, 2)", "\tresp := make(chan pubkrs, 1)", "C03.R2", "public-key reply channel too small")
v("C03-j", "C03", "lookup_optim.go", "\tdefer innerCtxCancel()\n", "\tinnerCtxCancel()\n", "C03.R11", "watcher context cancelled at once")

# ---------------------------------------------------------------- C14
v("C14-a", "C14", "dht.go", "\tdht.wg.Go(dht.persistRTPeersInPeerStore)", "\tgo dht.persistRTPeersInPeerStore()", "C14.R1", "background loop not registered with the WaitGroup")
v("C14-b", "C14", "records/providers_manager.go", "\tdefer close(pm.closed)\n", "", "C14.R1", "sweeper never signals its exit")
v("C14-c", "C14", "dht.go", "\tdht.cancel()\n\tdht.wg.Wait()\n", "\tdht.cancel()\n", "C14.R2", "Close does not wait for the loops")
v("C14-d", "C14", "provider/provider.go", "\t\ts.workerPool.Close()\n\t\ts.wg.Wait()", "\t\ts.wg.Wait()\n\t\ts.workerPool.Close()", "C14.R2", "worker pool closed after the wait")
v("C14-e", "C14", "dual/dual.go", "\t\treturn nil, errors.Join(err, wan.Close())", "\t\treturn nil, err", "C14.R5", "failed LAN construction leaks the WAN DHT")
v("C14-f", "C14", "provider/keystore/keystore.go", "\tselect {\n\tcase <-s.close:\n\t\t// Already closed\n\tdefault:\n\t\tclose(s.close)\n\t\t<-s.done // Wait for worker to exit\n", "\t{\n\t\tclose(s.close)\n\t\t<-s.done // Wait for worker to exit\n", "C14.R3", "second Close panics on a closed channel")
v("C14-g", "C14", "provider/provider.go", "\ts.wgLk.RLock()\n\tif s.closed() {\n\t\ts.wgLk.RUnlock()\n\t\treturn\n\t}\n\ts.wg.Add(1)\n\ts.wgLk.RUnlock()\n\n\tgo s.provideLoop()", "\ts.wg.Add(1)\n\n\tgo s.provideLoop()", "C14.R4", "unguarded wg.Add can race Close")
v("C14-h", "C14", "routing.go", "\tgo dht.findProvidersAsyncRoutine(ctx, keyMH, count, peerOut)\n\treturn peerOut", "\tgo dht.findProvidersAsyncRoutine(ctx, keyMH, count, peerOut)\n\tgo func() { <-make(chan struct{}) }()\n\treturn peerOut", "C14.R1", "new goroutine without a join class")
v("C14-i", "C14", "fullrt/dht.go", "\trt.wg.Add(2)\n\tgo rt.runCrawler(ctx)", "\trt.wg.Add(1)\n\tgo rt.runCrawler(ctx)", "C14.R1", "Add count does not match the goroutines")
v("C14-j", "C14", "provider/internal/connectivity/connectivity.go", "\tgo func() {\n\t\tdefer c.mutex.Unlock()\n\n\t\tif c.probe() {", "\tgo func() {\n\t\tc.mutex.Unlock()\n\n\t\tif c.probe() {", "C14.R1", "probe releases its mutex before it ends")

# ---------------------------------------------------------------- C16
v("C16-a", "C16", "fullrt/dht.go", "\tif numPeers == 0 {\n\t\treturn errors.New(\"fullrt: routing table is empty, cannot bulk send\")\n\t}\n", "", "C16.R2", "division by an empty peer map")
v("C16-b", "C16", "fullrt/dht.go", "\tif step <= 0 {\n\t\treturn nil, fmt.Errorf(\"fullrt: invalid configuration: bucket size %d, ip diversity filter limit %d\", dht.bucketSize, dht.ipDiversityFilterLimit)\n\t}\n", "", "C16.R2", "zero stride accepted")
v("C16-c", "C16", "fullrt/dht.go", "\t\tdht.rtLk.Lock()\n\t\tdht.kMapLk.Lock()\n\t\tdht.peerAddrsLk.Lock()\n\t\tdht.peerAddrs = peerAddrs\n\t\tdht.keyToPeerMap = kPeerMap\n\t\tdht.rt = newRt\n\t\tdht.lastCrawlTime = time.Now()\n\t\tdht.peerAddrsLk.Unlock()\n\t\tdht.kMapLk.Unlock()\n\t\tdht.rtLk.Unlock()", "\t\tdht.peerAddrsLk.Lock()\n\t\tdht.peerAddrs = peerAddrs\n\t\tdht.peerAddrsLk.Unlock()\n\t\tdht.kMapLk.Lock()\n\t\tdht.keyToPeerMap = kPeerMap\n\t\tdht.kMapLk.Unlock()\n\t\tdht.rtLk.Lock()\n\t\tdht.rt = newRt\n\t\tdht.lastCrawlTime = time.Now()\n\t\tdht.rtLk.Unlock()", "C16.R1", "crawl swap split into three critical sections")
v("C16-d", "C16", "fullrt/dht.go", "\tif dhtcfg.BootstrapPeers != nil {\n\t\tfor _, ai := range dhtcfg.BootstrapPeers() {\n\t\t\ttmpai := ai\n\t\t\tbsPeers = append(bsPeers, &tmpai)\n\t\t}\n\t}", "\tfor _, ai := range dhtcfg.BootstrapPeers() {\n\t\ttmpai := ai\n\t\tbsPeers = append(bsPeers, &tmpai)\n\t}", "C16.R3", "nil config function called")
v("C16-e", "C16", "crawler/crawler.go", "\t\tif _, ok := peersSeen[ai.ID]; ok {\n\t\t\t// listed more than once: keep the extra addresses, dial only once\n\t\t\tcontinue\n\t\t}\n", "", "C16.R4", "duplicate seeds crawled twice")
v("C16-f", "C16", "fullrt/dht.go", "\t\tipDiversityFilterLimit:      fullrtcfg.ipDiversityFilterLimit,\n", "", "C16.R7", "diversity limit option not applied")
v("C16-g", "C16", "fullrt/dht.go", "if _, counted := ipGroupCounts[ipGroup][p]; !counted && len(ipGroupCounts[ipGroup]) >= dht.ipDiversityFilterLimit {", "if len(ipGroupCounts[ipGroup]) > dht.ipDiversityFilterLimit {", "C16.R5", "diversity limit off by one")
v("C16-h", "C16", "fullrt/dht.go", "\t\tclear(foundPeers)\n", "", "C16.R1", "crawl results accumulate across crawls")
v("C16-i", "C16", "crawler/crawler.go", "\t\t\toutstanding--\n\t\tcase jobCh <- nextPeerID:", "\t\tcase jobCh <- nextPeerID:", "C16.R4", "outstanding counter never decremented")

# ---------------------------------------------------------------- C17
v("C17-a", "C17", "provider/provider.go", "\t\ts.failedReprovide(prefix, fmt.Errorf(\"reprovide '%s': %w\", prefix, err))\n\t\ts.reschedulePrefix(prefix)\n\t\treturn", "\t\ts.reschedulePrefix(prefix)\n\t\treturn", "C17.R1", "failed exploration not re-queued")
v("C17-b", "C17", "provider/provider.go", "\t\ts.failedProvide(prefix, keys, fmt.Errorf(\"provide '%s': %w\", prefix, err))\n\t\treturn", "\t\ts.logger.Warn(err)\n\t\treturn", "C17.R1", "failed provide drops its keys")
v("C17-c", "C17", "provider/provider.go", "\ts.provideQueue.Remove(keys...)\n\tif !s.scheduleEnabled() {", "\tif !s.scheduleEnabled() {", "C17.R3", "StopProviding leaves keys in the provide queue")
v("C17-d", "C17", "provider/buffered/provider.go", "\t\ts.executeOperation(s.Provider.ProvideOnce, ops[provideOnceOp])\n", "", "C17.R4", "provide-once operations never executed")
v("C17-e", "C17", "provider/provider.go", "func (s *SweepingProvider) onOffline() {\n\ts.provideQueue.Clear()\n", "func (s *SweepingProvider) onOffline() {\n", "C17.R6", "provide queue kept when going offline")
v("C17-f", "C17", "provider/provider.go", "\treturn peer.AddrInfo{ID: s.peerid, Addrs: addrs}, true", "\treturn peer.AddrInfo{ID: s.peerid}, true", "C17.R2", "record without addresses")
v("C17-g", "C17", "provider/provider.go", "\tprov.cleanupFuncs = append(prov.cleanupFuncs, persistProvideQueue, prov.persistAvgPrefixLen)", "\tprov.cleanupFuncs = append(prov.cleanupFuncs, prov.persistAvgPrefixLen)\n\t_ = persistProvideQueue", "C17.R5", "provide queue not persisted on close")

# ---------------------------------------------------------------- C19
v("C19-a", "C19", "provider/internal/queue/prefix.go", "\t// Remove the prefix from the prefixes trie.\n\tq.prefixes.Remove(prefix)\n", "", "C19.R2", "popped prefix stays in the trie")
v("C19-b", "C19", "provider/internal/queue/provide.go", "\tcase len(parts) == 1 && parts[0] != \"\":\n", "\tcase false:\n", "C19.R3", "empty-prefix keys not restored")
v("C19-c", "C19", "provider/internal/queue/provide.go", "func (q *ProvideQueue) Size() int {\n\tq.mu.Lock()\n\tdefer q.mu.Unlock()\n\treturn q.keys.Size()", "func (q *ProvideQueue) Size() int {\n\treturn q.keys.Size()", "C19.R1", "queue read without the mutex")
v("C19-d", "C19", "provider/internal/queue/provide.go", "\t// Remove the keys from the keys trie.\n\tkeyspace.PruneSubtrie(q.keys, prefix)\n\n\treturn prefix, keys, true", "\treturn prefix, keys, true", "C19.R5", "dequeued keys stay in the queue")
v("C19-e", "C19", "provider/internal/queue/provide.go", "\t\tif _, ok := keyspace.FindSubtrie(q.keys, prefix); !ok {\n\t\t\tprefixesToRemove = append(prefixesToRemove, prefix)\n\t\t}", "\t\tprefixesToRemove = append(prefixesToRemove, prefix)", "C19.R4", "prefix dropped although keys remain")
v("C19-f", "C19", "provider/internal/queue/prefix.go", "\t\t\tq.queue.PushBack(prefix)\n\t\t\tq.prefixes.Add(prefix, struct{}{})", "\t\t\tq.queue.PushBack(prefix)", "C19.R2", "appended prefix missing from the trie")

# ---------------------------------------------------------------- C20
v("C20-a", "C20", "provider/keystore/resettable_keystore.go", "\tif s.resetInProgress {\n\t\tif err := s.bufferKeys(ctx, keys); err != nil {\n\t\t\treturn nil, err\n\t\t}\n\t}\n\treturn s.keystore.put(ctx, keys)", "\treturn s.keystore.put(ctx, keys)", "C20.R5", "puts during a reset not staged")
v("C20-b", "C20", "provider/keystore/resettable_keystore.go", "\t\t\ts.logger.Errorf(\"keystore: aborting swap, failed to persist active namespace marker: %v\", err)\n\t\t\top.success = false", "\t\t\ts.logger.Errorf(\"keystore: failed to persist active namespace marker: %v\", err)", "C20.R4", "marker write failure ignored")
v("C20-c", "C20", "provider/keystore/keystore.go", "\t\t\tcase opSize:\n\t\t\t\top.response <- operationResponse{size: s.size}\n\n\t\t\tcase opCount:", "\t\t\tcase opSize:\n\n\t\t\tcase opCount:", "C20.R2", "size request never answered")
v("C20-d", "C20", "provider/keystore/keystore.go", "\ts.size = int(binary.BigEndian.Uint64(sizeBytes))\n\t// Delete immediately to keep the key ephemeral.\n\ts.ds.Delete(context.Background(), sizeKey)", "\ts.size = int(binary.BigEndian.Uint64(sizeBytes))", "C20.R6", "persisted size survives")
v("C20-e", "C20", "provider/keystore/keystore.go", "func (s *keystore) Size(ctx context.Context) (int, error) {", "func (s *keystore) sizeUnsafe() int { return s.size }\n\nfunc (s *keystore) Size(ctx context.Context) (int, error) {", "C20.R1", "size read outside the worker")
v("C20-f", "C20", "provider/keystore/keystore.go", "\tif err := b.Commit(ctx); err != nil {\n\t\treturn nil, fmt.Errorf(\"cannot commit keystore updates: %w\", err)\n\t}\n\ts.size += len(newKeys)", "\ts.size += len(newKeys)\n\tif err := b.Commit(ctx); err != nil {\n\t\treturn nil, fmt.Errorf(\"cannot commit keystore updates: %w\", err)\n\t}", "C20.R7", "size grows before the commit")
v("C20-g", "C20", "provider/keystore/resettable_keystore.go", "\t\tif err := s.withAltDs(ctx, func() error { return s.altDs.Sync(ctx, ds.NewKey(\"\")) }); err != nil {\n\t\t\ts.logger.Errorf(\"keystore: aborting swap, altDs sync failed: %v\", err)\n\t\t\top.success = false\n\t\t}", "\t\t_ = 0", "C20.R3", "no sync of the new slot before the marker flips")

here = os.path.dirname(os.path.abspath(__file__))
json.dump(V, open(os.path.join(here, "variants.json"), "w"), indent=1)
print(len(V), "variants")
